// Package endpoints builds library connections on the in-memory network (DESIGN.md 2.3).
package endpoints

import (
	"context"
	"fmt"
	"net"
	"sync"
	"time"

	dtlsServer "github.com/plgd-dev/go-coap/v3/dtls/server"
	"github.com/plgd-dev/go-coap/v3/message"
	"github.com/plgd-dev/go-coap/v3/message/pool"
	coapNet "github.com/plgd-dev/go-coap/v3/net"
	"github.com/plgd-dev/go-coap/v3/net/blockwise"
	"github.com/plgd-dev/go-coap/v3/net/monitor/inactivity"
	"github.com/plgd-dev/go-coap/v3/options"
	"github.com/plgd-dev/go-coap/v3/tcp"
	tcpClient "github.com/plgd-dev/go-coap/v3/tcp/client"
	"github.com/plgd-dev/go-coap/v3/udp"
	udpClient "github.com/plgd-dev/go-coap/v3/udp/client"
)

// Ticker collects the callbacks the library registers with its periodic runner; the harness
// calls Tick at generated virtual times instead of letting a background goroutine sleep.
type Ticker struct {
	mu  sync.Mutex
	fns []func(time.Time) bool
}

func (tk *Ticker) Runner() func(f func(now time.Time) bool) {
	return func(f func(now time.Time) bool) {
		tk.mu.Lock()
		tk.fns = append(tk.fns, f)
		tk.mu.Unlock()
	}
}

// Tick runs every registered callback once with the current (virtual) time.
func (tk *Ticker) Tick() {
	tk.mu.Lock()
	fns := append([]func(time.Time) bool(nil), tk.fns...)
	tk.mu.Unlock()
	now := time.Now()
	var keep []func(time.Time) bool
	for _, f := range fns {
		if f(now) {
			keep = append(keep, f)
		}
	}
	tk.mu.Lock()
	// callbacks registered during the tick are kept as well
	keep = append(keep, tk.fns[len(fns):]...)
	tk.fns = keep
	tk.mu.Unlock()
}

// Errs collects errors reported through the Errors callback.
type Errs struct {
	mu   sync.Mutex
	list []string
}

func (e *Errs) Add(err error) {
	e.mu.Lock()
	if len(e.list) < 64 {
		e.list = append(e.list, err.Error())
	}
	e.mu.Unlock()
}

func (e *Errs) List() []string {
	e.mu.Lock()
	defer e.mu.Unlock()
	return append([]string(nil), e.list...)
}

// UDP builds a datagram-semantics connection on any datagram-preserving net.Conn, wired exactly
// as dtls.Client wires a DTLS connection (udp/client.Conn over dtls/server.Session). The caller's
// options are applied to the library's default configuration; the periodic runner must be given
// (normally Ticker.Runner()).
func UDP(conn net.Conn, opts ...udp.Option) *udpClient.Conn {
	cfg := udpClient.DefaultConfig
	cfg.Errors = func(error) {}
	cfg.CloseSocket = true
	for _, o := range opts {
		o.UDPClientApply(&cfg)
	}
	if cfg.CreateInactivityMonitor == nil {
		cfg.CreateInactivityMonitor = func() udpClient.InactivityMonitor {
			return inactivity.NewNilMonitor[*udpClient.Conn]()
		}
	}
	if cfg.MessagePool == nil {
		cfg.MessagePool = pool.New(0, 0)
	}
	errorsFunc := cfg.Errors
	cfg.Errors = func(err error) {
		if coapNet.IsCancelOrCloseError(err) {
			return
		}
		errorsFunc(fmt.Errorf("udp-mem: %w", err))
	}
	createBlockWise := func(*udpClient.Conn) *blockwise.BlockWise[*udpClient.Conn] { return nil }
	if cfg.BlockwiseEnable {
		createBlockWise = func(cc *udpClient.Conn) *blockwise.BlockWise[*udpClient.Conn] {
			v := cc
			return blockwise.New(v, cfg.BlockwiseTransferTimeout, cfg.Errors, func(token message.Token) (*pool.Message, bool) {
				return v.GetObservationRequest(token)
			})
		}
	}
	monitor := cfg.CreateInactivityMonitor()
	session := dtlsServer.NewSession(cfg.Ctx, coapNet.NewConn(conn), cfg.MaxMessageSize, cfg.MTU, cfg.CloseSocket)
	cc := udpClient.NewConnWithOpts(session, &cfg,
		udpClient.WithBlockWise(createBlockWise),
		udpClient.WithInactivityMonitor(monitor),
		udpClient.WithRequestMonitor(cfg.RequestMonitor),
	)
	cfg.PeriodicRunner(func(now time.Time) bool {
		cc.CheckExpirations(now)
		return cc.Context().Err() == nil
	})
	go func() {
		if err := cc.Run(); err != nil {
			cfg.Errors(err)
		}
	}()
	return cc
}

// TCP is the public tcp.Client on an in-memory stream.
func TCP(conn net.Conn, opts ...tcp.Option) (*tcpClient.Conn, error) {
	return tcp.Client(conn, opts...)
}

// Common option helpers -------------------------------------------------------------------------

func Ctx(ctx context.Context) options.ContextOpt { return options.WithContext(ctx) }

// UDPCfg is an option that edits the configuration directly (for fields without a public option).
type UDPCfg func(cfg *udpClient.Config)

func (f UDPCfg) UDPClientApply(cfg *udpClient.Config) { f(cfg) }

// TCPCfg likewise for stream clients.
type TCPCfg func(cfg *tcpClient.Config)

func (f TCPCfg) TCPClientApply(cfg *tcpClient.Config) { f(cfg) }
