//go:build verif

// C09 — blocking calls always end on cancellation or close; close is clean.
package c09

import (
	"bytes"
	"context"
	"encoding/json"
	"fmt"
	udpClient "github.com/plgd-dev/go-coap/v3/udp/client"
	"io"
	"strings"
	"sync"
	"sync/atomic"
	"testing"
	"time"

	"github.com/plgd-dev/go-coap/v3/message"
	"github.com/plgd-dev/go-coap/v3/message/codes"
	"github.com/plgd-dev/go-coap/v3/message/pool"
	"github.com/plgd-dev/go-coap/v3/net/client"
	"github.com/plgd-dev/go-coap/v3/options"
	"pgregory.net/rapid"

	"verif/bubble"
	"verif/endpoints"
	"verif/evid"
	"verif/memnet"
	"verif/peer"
	"verif/refcodec"
	"verif/roles"
	"verif/udpsrv"
	"verif/wire"
)

type Scenario struct {
	Transport  string `json:"transport"` // udp | tcp
	Op         string `json:"op"`        // get | post-bw | post-big | observe | cancelobs | ping | write-con | write-non | write-con-bw | write-non-bw (one-way, body of several blocks)
	Peer       string `json:"peer"`      // silent | ack | garbage | blocks | stall | close | empty (answers with Empty messages)
	Blocks     int    `json:"blocks"`
	Interrupt  string `json:"interrupt"` // cancel | deadline | close | peerclose
	Pre        bool   `json:"pre"`       // the context is already cancelled / the connection already closed when the call is made
	Queued     string `json:"queued"`    // "" | limiter | nstart
	Closers    int    `json:"closers"`
	CloseTwice bool   `json:"closeTwice"`
	OnClose    int    `json:"onClose"`
	// OnCloseNested: the first on-close callback registers this many further callbacks while it
	// runs (registration during shutdown must not disturb the callbacks registered before it)
	OnCloseNested int `json:"onCloseNested,omitempty"`
	// Role: "" a client connection; "server" the connection a tcp / dtls server creates for an accepted peer
	Role string `json:"role,omitempty"`
	// Neighbour (datagram): another connection of the process (its own link, NSTART 1) has a confirmable
	// request outstanding that its peer never acknowledges - which is nothing to this connection
	Neighbour bool `json:"neighbour,omitempty"`
	// LeakProbe (with Queued == ""): before the operation, with a total limit of 1, a request to another
	// path holds the limit while a request to the operation's path times out waiting for it; then the
	// holder is cancelled. The limiter is idle again - the operation meets the connection as if nothing had happened
	LeakProbe bool `json:"leakProbe,omitempty"`
	// Wrapped (datagram, Queued == "", NSTART 1): the connection is an old one - a ping it sent long
	// ago was never answered and is still pending, the application has drawn 65535 message IDs since
	// (Conn.GetMessageID), and a request that thereby drew the ping's ID was refused a moment ago.
	// The operation meets the connection as if nothing had happened.
	Wrapped bool `json:"wrapped,omitempty"`
}

type conn interface {
	Do(req *pool.Message) (*pool.Message, error)
	WriteMessage(req *pool.Message) error
	NewGetRequest(ctx context.Context, path string, opts ...message.Option) (*pool.Message, error)
	NewPostRequest(ctx context.Context, path string, contentFormat message.MediaType, payload io.ReadSeeker, opts ...message.Option) (*pool.Message, error)
	Observe(ctx context.Context, path string, observeFunc func(req *pool.Message), opts ...message.Option) (client.Observation, error)
	Ping(ctx context.Context) error
	Close() error
	Done() <-chan struct{}
	AddOnClose(func())
	AcquireMessage(ctx context.Context) *pool.Message
	ReleaseMessage(m *pool.Message)
}

const allowance = 5 * time.Second

func Exec(t *testing.T, sc Scenario, r *evid.Run) *evid.Failure {
	var fail *evid.Failure
	wasBlocked := false
	run := bubble.Run(t, 60*time.Second, nil, func() {
		var tk endpoints.Ticker
		var w wire.Wire
		var cc conn
		var slink *memnet.StreamLink
		stopRole := func() {}
		defer func() { stopRole() }() // (the scenario function has early returns)
		limit, nstart := int64(16), uint32(16)
		if sc.Queued == "limiter" || sc.LeakProbe {
			limit = 1
		}
		if sc.Queued == "nstart" || sc.Wrapped {
			nstart = 1
		}
		bwOn := sc.Op == "post-bw" || sc.Op == "write-con-bw" || sc.Op == "write-non-bw"
		if sc.Transport == "udp" {
			link := memnet.NewPacketLink(memnet.LinkCfg{LatencyMs: 1})
			c, stop, errRole := roles.Packet(sc.Role, link, bubble.Wait, []any{
				options.WithMessagePool(pool.New(8, 2048)), options.WithPeriodicRunner(tk.Runner()),
				options.WithBlockwise(bwOn, 2, 3*time.Second),
				options.WithLimitClientParallelRequest(limit), options.WithLimitClientEndpointParallelRequest(limit),
				options.WithTransmission(nstart, 2*time.Second, 2),
			}...)
			if errRole != nil {
				panic(errRole)
			}
			cc, stopRole = c, stop
			w = wire.UDP(link)
		} else {
			buf := 256 << 10
			if sc.Peer == "stall" {
				buf = 4096
			}
			slink = memnet.NewStreamLink(memnet.StreamCfg{BufBytes: buf})
			if bwOn {
				_, _ = slink.B.Write(peer.Frame(refcodec.Msg{Code: 225, Token: []byte{1}, Opts: []refcodec.Opt{peer.Opt(4, nil)}}))
			}
			c, stop, err := roles.Stream(sc.Role, slink, bubble.Wait, []any{
				options.WithMessagePool(pool.New(8, 2048)), options.WithPeriodicRunner(tk.Runner()),
				options.WithBlockwise(bwOn, 2, 3*time.Second), options.WithCloseSocket(), options.WithMaxMessageSize(1 << 20),
				options.WithLimitClientParallelRequest(limit), options.WithLimitClientEndpointParallelRequest(limit),
			}...)
			if err != nil {
				panic(err)
			}
			cc, w, stopRole = c, wire.TCP(slink), stop
		}
		onClose := make([]atomic.Int32, sc.OnClose)
		nested := make([]atomic.Int32, sc.OnCloseNested)
		for i := range onClose {
			i := i
			cc.AddOnClose(func() {
				onClose[i].Add(1)
				if i == 0 {
					for k := range nested {
						k := k
						cc.AddOnClose(func() { nested[k].Add(1) })
					}
				}
			})
		}
		if sc.Neighbour && sc.Transport == "udp" {
			link2 := memnet.NewPacketLink(memnet.LinkCfg{LatencyMs: 1})
			var tk2 endpoints.Ticker
			other := endpoints.UDP(link2.A, options.WithMessagePool(pool.New(8, 2048)), options.WithPeriodicRunner(tk2.Runner()),
				options.WithBlockwise(false, 2, time.Second), options.WithTransmission(1, time.Hour, 2))
			nctx, ncancel := context.WithCancel(context.Background())
			ndone := make(chan struct{})
			go func() {
				defer close(ndone)
				_, _ = other.Get(nctx, "/held-by-the-neighbour")
			}()
			defer func() { ncancel(); <-ndone; _ = other.Close() }()
		}
		bubble.Wait()
		_ = w.FromLib()
		nextMID := 54000
		if sc.LeakProbe && sc.Queued == "" {
			hctx, hcancel := context.WithCancel(context.Background())
			hdone := make(chan struct{})
			get := func(ctx context.Context, path string) {
				if req, err := cc.NewGetRequest(ctx, path); err == nil {
					_, _ = cc.Do(req)
				}
			}
			go func() { defer close(hdone); get(hctx, "/y") }()
			bubble.Wait()
			_ = w.FromLib()
			vctx, vcancel := context.WithTimeout(context.Background(), 200*time.Millisecond)
			get(vctx, "/x") // times out behind the holder
			vcancel()
			hcancel()
			<-hdone
			bubble.Wait()
			_ = w.FromLib()
		}
		if u, ok := cc.(*udpClient.Conn); ok && sc.Wrapped {
			if cancelPing, err := u.AsyncPing(func() {}); err == nil {
				defer cancelPing()
			}
			bubble.Wait()
			_ = w.FromLib()
			for k := 0; k < 65535; k++ {
				u.GetMessageID()
			}
			vctx, vcancel := context.WithTimeout(context.Background(), 200*time.Millisecond)
			if req, err := cc.NewGetRequest(vctx, "/refused"); err == nil {
				if _, err := cc.Do(req); err != nil && strings.Contains(err.Error(), "already exist") {
					r.Class("interrupt/wrapped-prelude-request-was-refused", 1)
				}
			}
			vcancel()
			bubble.Wait()
			_ = w.FromLib()
		}
		// ---- a request that occupies the limiter / NSTART slot
		var blockerDone chan struct{}
		if sc.Queued != "" {
			blockerDone = make(chan struct{})
			go func() {
				defer close(blockerDone)
				ctx, cancel := context.WithTimeout(context.Background(), 40*time.Second)
				defer cancel()
				req, err := cc.NewGetRequest(ctx, "/x") // same path as the operation under test (per-endpoint limit)
				if err != nil {
					return
				}
				req.SetToken([]byte{0xB1})
				_, _ = cc.Do(req)
			}()
			bubble.Wait()
			_ = w.FromLib() // never acknowledged, never answered
		}
		// ---- observation to cancel (registered normally first)
		var obs client.Observation
		var obsTok []byte
		var cbArmed atomic.Bool   // cancelobs-cb: the next notification's callback calls Cancel itself
		var cbCtx context.Context // written before cbArmed is set
		var cbErr error
		cbReturned := make(chan struct{})
		if sc.Op == "cancelobs" || sc.Op == "cancelobs-cb" {
			done := make(chan struct{})
			go func() {
				defer close(done)
				ctx, cancel := context.WithTimeout(context.Background(), 5*time.Second)
				defer cancel()
				obs, _ = cc.Observe(ctx, "/obs", func(*pool.Message) {
					if cbArmed.CompareAndSwap(true, false) {
						cbErr = obs.Cancel(cbCtx)
						close(cbReturned)
					}
				})
			}()
			bubble.Wait()
			for _, m := range w.FromLib() {
				if m.Code == 1 && len(m.Token) > 0 && !bytes.Equal(m.Token, []byte{0xB1}) {
					obsTok = append([]byte(nil), m.Token...)
					w.ToLib(wire.Respond(w, m, 69, []refcodec.Opt{peer.Opt(6, []byte{1})}, []byte("o"), &nextMID))
				}
			}
			bubble.Wait()
			select {
			case <-done:
			default:
			}
			if obs == nil {
				// registration did not get through (queued behind the blocker): nothing to test
				_ = cc.Close()
				if slink != nil {
					_ = slink.B.Close()
				}
				time.Sleep(6 * time.Second)
				bubble.Wait()
				return
			}
		}
		// ---- the operation under test
		ctx, cancel := context.WithCancel(context.Background())
		var deadlineAt time.Time
		if sc.Interrupt == "deadline" {
			cancel()
			d := 2 * time.Second
			if sc.Pre {
				d = 0
			}
			deadlineAt = time.Now().Add(d)
			ctx, cancel = context.WithDeadline(context.Background(), deadlineAt)
		}
		defer cancel()
		if sc.Pre {
			switch sc.Interrupt {
			case "cancel":
				cancel()
			case "close":
				_ = cc.Close()
				bubble.Wait()
			case "peerclose":
				if slink != nil {
					_ = slink.B.Close()
					bubble.Wait()
				} else {
					cancel() // datagram peers cannot close: fall back to cancellation
				}
			}
		}
		var opErr error
		returned := make(chan struct{})
		go func() {
			defer close(returned)
			switch sc.Op {
			case "get":
				req, err := cc.NewGetRequest(ctx, "/x")
				if err != nil {
					opErr = err
					return
				}
				req.SetToken([]byte{0xA9, 1})
				_, opErr = cc.Do(req)
			case "post-bw", "post-big":
				n := 300
				if sc.Op == "post-big" {
					n = 200000
				}
				req, err := cc.NewPostRequest(ctx, "/x", message.AppOctets, bytes.NewReader(bytes.Repeat([]byte{0x5a}, n)))
				if err != nil {
					opErr = err
					return
				}
				req.SetToken([]byte{0xA9, 2})
				_, opErr = cc.Do(req)
			case "observe":
				_, opErr = cc.Observe(ctx, "/x", func(*pool.Message) {})
			case "cancelobs":
				opErr = obs.Cancel(ctx)
			case "cancelobs-cb":
				// the application cancels from inside the observe callback (on the receive goroutine)
				select {
				case <-cc.Done(): // already closed (pre-closed scenarios): no callback will ever run
					opErr = obs.Cancel(ctx)
					return
				default:
				}
				cbCtx = ctx
				cbArmed.Store(true)
				nextMID++
				n := refcodec.Msg{Code: 69, Token: obsTok, Opts: []refcodec.Opt{peer.Opt(6, []byte{2})}, Payload: []byte("n")}
				if w.Datagram() {
					n.Type, n.MID = peer.NON, nextMID&0xffff
				}
				w.ToLib(n)
				<-cbReturned
				opErr = cbErr
			case "ping":
				opErr = cc.Ping(ctx)
			case "write-con", "write-non", "write-con-bw", "write-non-bw":
				m := cc.AcquireMessage(ctx)
				m.SetCode(codes.POST)
				m.SetToken([]byte{0xA9, 3})
				m.MustSetPath("/x")
				m.SetType(message.NonConfirmable)
				if sc.Op == "write-con" || sc.Op == "write-con-bw" {
					m.SetType(message.Confirmable)
				}
				m.SetBody(bytes.NewReader([]byte("w")))
				if bwOn {
					// a one-way message whose body needs several blocks: the first block goes out with
					// this call, under this call's context
					m.SetContentFormat(message.AppOctets)
					m.SetBody(bytes.NewReader(bytes.Repeat([]byte{0x5b}, 300)))
				}
				opErr = cc.WriteMessage(m)
			}
		}()
		isReturned := func() bool {
			select {
			case <-returned:
				return true
			default:
				return false
			}
		}
		// ---- the peer's part
		blocksLeft := sc.Blocks
		for round := 0; round < 6; round++ {
			bubble.Wait()
			for _, m := range w.FromLib() {
				if bytes.Equal(m.Token, []byte{0xB1}) {
					continue
				}
				switch sc.Peer {
				case "silent", "stall":
				case "ack":
					if w.Datagram() && m.Type == peer.CON {
						w.ToLib(refcodec.Msg{Type: peer.ACK, MID: m.MID})
					}
				case "garbage":
					if w.Datagram() {
						nextMID++
						w.ToLib(refcodec.Msg{Type: peer.NON, MID: nextMID & 0xffff, Code: 69, Token: []byte{0x66, 0x66}, Payload: []byte("unrelated")})
					} else {
						w.ToLib(refcodec.Msg{Code: 69, Token: []byte{0x66, 0x66}, Payload: []byte("unrelated")})
					}
				case "empty":
					// an Empty message (code 0.00): on a stream RFC 8323 3.4 says it is to be ignored (some
					// peers use it as a keep-alive), on a datagram transport it is a CoAP ping
					if w.Datagram() {
						nextMID++
						w.ToLib(refcodec.Msg{Type: peer.CON, MID: nextMID & 0xffff})
					} else {
						w.ToLib(refcodec.Msg{})
					}
				case "blocks":
					if b1, ok := peer.FindOpt(m, 27); ok && blocksLeft > 0 && m.Code >= 1 && m.Code <= 4 {
						blocksLeft--
						w.ToLib(wire.Respond(w, m, 95, []refcodec.Opt{peer.Opt(27, b1)}, nil, &nextMID))
					} else if w.Datagram() && m.Type == peer.CON {
						w.ToLib(refcodec.Msg{Type: peer.ACK, MID: m.MID})
					}
				case "close":
					if slink != nil {
						_ = slink.B.Close()
					}
				}
			}
		}
		bubble.Wait()
		wasBlocked = !isReturned()
		interruptedAt := time.Now()
		if !sc.Pre {
			switch sc.Interrupt {
			case "cancel":
				cancel()
			case "deadline":
				interruptedAt = deadlineAt
			case "close":
				var wg sync.WaitGroup
				for i := 0; i < max(sc.Closers, 1); i++ {
					wg.Add(1)
					go func() { defer wg.Done(); _ = cc.Close() }()
				}
				wg.Wait()
			case "peerclose":
				if slink == nil {
					cancel() // datagram peers cannot close: fall back to cancellation
				} else {
					_ = slink.B.Close()
				}
			}
		}
		// allowance: 5 virtual seconds and one housekeeping tick, counted from the interruption
		if d := time.Until(interruptedAt.Add(allowance)); d > 0 {
			time.Sleep(d)
		}
		tk.Tick()
		bubble.Wait()
		stuck := !isReturned()
		if stuck {
			key := fmt.Sprintf("block/%s-%s-ignores-%s", sc.Transport, sc.Op, sc.Interrupt)
			if sc.Transport == "tcp" && sc.Peer == "stall" && (sc.Interrupt == "cancel" || sc.Interrupt == "deadline") {
				key = "block/tcp-write-stall-ignores-ctx"
			}
			fail = evid.Failf(key, sc, "%s %s (peer: %s, queued: %q) is still blocked %v after the interruption (%s, pre=%v)", sc.Transport, sc.Op, sc.Peer, sc.Queued, allowance, sc.Interrupt, sc.Pre)
		} else if opErr == nil && wasBlocked {
			fail = evid.Failf("block/interrupted-call-succeeded", sc, "%s %s returned success although nothing answered it (interruption %s)", sc.Transport, sc.Op, sc.Interrupt)
		}
		// ---- close: idempotent, done signal, on-close callbacks exactly once
		var wg sync.WaitGroup
		for i := 0; i < max(sc.Closers, 1); i++ {
			wg.Add(1)
			go func() { defer wg.Done(); _ = cc.Close() }()
		}
		closed := make(chan struct{})
		go func() { wg.Wait(); close(closed) }()
		bubble.Wait()
		select {
		case <-closed:
		default:
			if fail == nil {
				fail = evid.Failf("close/close-blocks", sc, "Close() from %d goroutine(s) has not returned at quiescence", max(sc.Closers, 1))
			}
		}
		if sc.CloseTwice {
			_ = cc.Close()
		}
		if slink != nil {
			_ = slink.B.Close()
		}
		cancel()
		stopRole()
		time.Sleep(time.Second)
		bubble.Wait()
		if fail == nil {
			select {
			case <-cc.Done():
			default:
				fail = evid.Failf("close/done-not-closed", sc, "the connection's done signal is not closed 1 s after Close returned")
			}
		}
		if fail == nil {
			for i := range onClose {
				if n := onClose[i].Load(); n != 1 {
					fail = evid.Failf("close/on-close-count", sc, "on-close callback %d ran %d times after the connection was closed", i, n)
					break
				}
			}
			for k := range nested {
				if n := nested[k].Load(); n > 1 {
					fail = evid.Failf("close/on-close-count", sc, "on-close callback registered during shutdown (%d) ran %d times", k, n)
				}
			}
		}
		if fail == nil && stuck == false && !isReturned() {
			fail = evid.Failf("block/after-close", sc, "the call is blocked after Close")
		}
		// a request issued on the closed connection (with a context that is not cancelled) must fail
		// promptly too: nothing an earlier, failed operation left behind may block it
		if fail == nil {
			followDone := make(chan error, 1)
			fctx, fcancel := context.WithTimeout(context.Background(), 1000*time.Second)
			go func() {
				req, err := cc.NewGetRequest(fctx, "/after")
				if err != nil {
					followDone <- err
					return
				}
				req.SetToken([]byte{0xAF, 1})
				_, err = cc.Do(req)
				followDone <- err
			}()
			time.Sleep(allowance)
			bubble.Wait()
			select {
			case err := <-followDone:
				if err == nil {
					fail = evid.Failf("block/request-on-closed-connection-succeeded", sc, "a request issued after Close returned success")
				}
			default:
				fail = evid.Failf("block/request-after-close-hangs", sc, "a request issued after Close (context not cancelled) is still blocked %v later: something an earlier operation left behind blocks it", allowance)
			}
			fcancel()
			time.Sleep(time.Second)
			bubble.Wait()
		}
		if blockerDone != nil {
			select {
			case <-blockerDone:
			default:
				if fail == nil {
					fail = evid.Failf("block/other-call-survives-close", sc, "another request on the connection is still blocked 1 s after Close")
				}
			}
		}
	})
	if fail != nil {
		return fail
	}
	if run.Panic != "" {
		return evid.Failf("close/panic", sc, "panic in scenario: %s", run.Panic)
	}
	if run.Deadlock {
		return evid.Failf("close/deadlock", sc, "all goroutines blocked while the scenario was still running")
	}
	if run.Leaked {
		return evid.Failf("close/goroutine-left", sc, "after Close a goroutine of the connection is still blocked (leaving the bubble found blocked goroutines)")
	}
	if wasBlocked {
		r.Class("block/really-blocked", 1)
	}
	return nil
}

func gen(t *rapid.T) Scenario {
	sc := Scenario{
		Transport:     rapid.SampledFrom([]string{"udp", "tcp"}).Draw(t, "transport"),
		Op:            rapid.SampledFrom([]string{"get", "post-bw", "post-big", "observe", "cancelobs", "cancelobs-cb", "ping", "write-con", "write-non", "write-con-bw", "write-non-bw"}).Draw(t, "op"),
		Interrupt:     rapid.SampledFrom([]string{"cancel", "deadline", "close", "peerclose"}).Draw(t, "interrupt"),
		Pre:           rapid.IntRange(0, 5).Draw(t, "pre") == 0,
		Queued:        rapid.SampledFrom([]string{"", "", "", "limiter", "nstart"}).Draw(t, "queued"),
		Closers:       rapid.IntRange(1, 4).Draw(t, "closers"),
		CloseTwice:    rapid.Bool().Draw(t, "twice"),
		OnClose:       rapid.IntRange(0, 3).Draw(t, "onclose"),
		OnCloseNested: rapid.SampledFrom([]int{0, 0, 1, 2, 3}).Draw(t, "onclosenested"),
		Blocks:        rapid.IntRange(0, 3).Draw(t, "blocks"),
	}
	if rapid.IntRange(0, 2).Draw(t, "role") == 0 {
		sc.Role = "server"
	}
	sc.Neighbour = sc.Transport == "udp" && rapid.IntRange(0, 2).Draw(t, "neighbour") == 0
	sc.LeakProbe = sc.Queued == "" && rapid.IntRange(0, 3).Draw(t, "leakprobe") == 0
	sc.Wrapped = sc.Queued == "" && !sc.LeakProbe && sc.Transport == "udp" && rapid.IntRange(0, 4).Draw(t, "wrapped") == 0
	peers := []string{"silent", "silent", "ack", "garbage", "blocks", "empty"}
	if sc.Transport == "tcp" {
		peers = append(peers, "stall", "close")
	}
	sc.Peer = rapid.SampledFrom(peers).Draw(t, "peer")
	if sc.Transport == "tcp" && sc.Queued == "nstart" {
		sc.Queued = "limiter"
	}
	if sc.Op == "post-big" && sc.Transport == "udp" {
		sc.Op = "post-bw"
	}
	if sc.Peer == "stall" {
		sc.Op = "post-big" // only a large write can fill the peer's buffer
		sc.Queued = ""
	}
	return sc
}

func TestCheck(t *testing.T) {
	r := evid.New(t, "C09")
	testingT = t
	eng := evid.RapidEngine("interrupt", evid.RapidOpts{Quick: 6000, Thorough: 100000, Crashy: true}, gen, func(sc Scenario) *evid.Failure {
		f := Exec(t, sc, r)
		if f == nil {
			b, _ := json.Marshal(sc)
			r.Case("interrupt", string(b), func() any { return sc }, "interrupt/"+sc.Transport+"/"+sc.Op, "interrupt/by="+sc.Interrupt)
		}
		return f
	})
	engines := []evid.Engine{eng}
	engines = append(engines, serverEngines()...)
	engines = append(engines, realEngine())
	engines = append(engines, udpsrv.Engine(r, []string{"closed"}, 8, 200))
	r.Main(evid.Meta{
		Rule:        "interrupt: a client connection (datagram / stream) in a synctest bubble runs one blocking operation (GET, block-wise POST, large POST, observe registration, observation cancel (from the application's goroutine and from inside the observe callback), ping, confirmable / non-confirmable one-way write with a small body or one that needs several blocks), optionally queued behind the parallel-request limiter or NSTART, against a scripted peer (silent, ACK only, unrelated traffic, Empty messages, first j blocks then silence, stops reading, closes); quiescence establishes that the call is blocked; then the interruption (context cancel, context deadline, local Close from 1-4 goroutines, peer close), before or during the call; after 5 virtual seconds and one housekeeping tick the call must have returned with an error; then Close (twice, concurrently): returns, done signal closed, every on-close callback ran exactly once (the first one registers 0-3 further callbacks while it runs, which must not disturb the others), other calls on the connection ended, no library goroutine left blocked. servers: tcp and dtls servers on in-memory listeners with clients in flight, Stop from several goroutines, Serve returns. real: GET / observe registration against a handler that never answers, and Server.Discover against a silent peer, over UDP, DTLS-PSK, TCP and TLS loopback sockets with the library's own servers and Dial clients, interrupted by cancel, deadline, Close from 1-4 goroutines or server Stop; 5 real seconds of allowance; a failure counts only if it reproduces three times in a row. " + udpsrv.Rule + ". Non-trivial = the call was really blocked at the interruption (class block/really-blocked); all scenarios are distinct by construction of the key",
		Assumptions: []string{"connections built over a caller-owned socket without WithCloseSocket are out of domain", "write stalls are generated with a socket-like bounded buffer, not a zero-buffer pipe"},
		Floor:       300,
	}, engines...)
}

var testingT *testing.T
