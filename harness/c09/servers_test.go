//go:build verif

package c09

import (
	"context"
	"encoding/json"
	"fmt"
	"sync"
	"time"

	"github.com/plgd-dev/go-coap/v3/message"
	"github.com/plgd-dev/go-coap/v3/message/codes"
	"github.com/plgd-dev/go-coap/v3/message/pool"
	"github.com/plgd-dev/go-coap/v3/net/responsewriter"
	"github.com/plgd-dev/go-coap/v3/options"
	"github.com/plgd-dev/go-coap/v3/tcp"
	tcpClient "github.com/plgd-dev/go-coap/v3/tcp/client"
	"github.com/plgd-dev/go-coap/v3/udp"
	"pgregory.net/rapid"

	"verif/bubble"
	"verif/endpoints"
	"verif/evid"
	"verif/memnet"
	"verif/srvsim"
)

type SrvScenario struct {
	Kind               string   `json:"kind"`    // tcp | dtls
	Clients            []string `json:"clients"` // idle | inflight | stalled | raw
	Stoppers           int      `json:"stoppers"`
	StopTwice          bool     `json:"stopTwice"`
	HandshakeTimeoutMs int      `json:"handshakeTimeoutMs"` // dtls only; 0 = none
}

type closer interface {
	Close() error
	Done() <-chan struct{}
	Get(ctx context.Context, path string, opts ...message.Option) (*pool.Message, error)
}

func execServers(sc SrvScenario) *evid.Failure {
	var fail *evid.Failure
	run := bubble.Run(testingT, 60*time.Second, nil, func() {
		gate := make(chan struct{})
		var srv *srvsim.Server
		if sc.Kind == "tcp" {
			srv = srvsim.StartTCP(func(w *responsewriter.ResponseWriter[*tcpClient.Conn], r *pool.Message) {
				if p, _ := r.Path(); p == "/gate" {
					<-gate
				}
				_ = w.SetResponse(codes.Content, message.TextPlain, nil)
			})
		} else {
			srv = startDTLS(sc, gate)
		}
		var clients []closer
		var raws []interface{ Close() error }
		inflight := make([]chan error, 0)
		var ctk endpoints.Ticker
		for i, kind := range sc.Clients {
			name := fmt.Sprintf("peer-%d", i)
			switch kind {
			case "stalled":
				srv.ConnectStalled(name)
			case "raw":
				if sc.Kind == "tcp" {
					raws = append(raws, srv.ConnectStream(name, memnet.StreamCfg{}).A)
				} else {
					raws = append(raws, srv.ConnectPacket(name, memnet.LinkCfg{LatencyMs: 1}).A)
				}
			default:
				var c closer
				if sc.Kind == "tcp" {
					l := srv.ConnectStream(name, memnet.StreamCfg{})
					cc, err := endpoints.TCP(l.A, []tcp.Option{options.WithPeriodicRunner(ctk.Runner()), options.WithCloseSocket(), options.WithMessagePool(pool.New(8, 2048))}...)
					if err != nil {
						panic(err)
					}
					c = cc
				} else {
					l := srv.ConnectPacket(name, memnet.LinkCfg{LatencyMs: 1})
					c = endpoints.UDP(l.A, []udp.Option{options.WithPeriodicRunner(ctk.Runner()), options.WithMessagePool(pool.New(8, 2048)), options.WithTransmission(4, 2*time.Second, 2)}...)
				}
				clients = append(clients, c)
				if kind == "inflight" {
					ch := make(chan error, 1)
					inflight = append(inflight, ch)
					go func() {
						ctx, cancel := context.WithTimeout(context.Background(), 10*time.Second)
						defer cancel()
						_, err := c.Get(ctx, "/gate")
						ch <- err
					}()
				}
			}
		}
		bubble.Wait()
		// ---- Stop, from several goroutines
		var wg sync.WaitGroup
		for i := 0; i < max(sc.Stoppers, 1); i++ {
			wg.Add(1)
			go func() { defer wg.Done(); srv.Stop() }()
		}
		stopped := make(chan struct{})
		go func() { wg.Wait(); close(stopped) }()
		bubble.Wait()
		select {
		case <-stopped:
		default:
			fail = evid.Failf("stop/stop-blocks", sc, "Stop() from %d goroutine(s) has not returned at quiescence", max(sc.Stoppers, 1))
			return
		}
		if sc.StopTwice {
			srv.Stop()
		}
		close(gate) // handlers the application left blocked are released after Stop
		time.Sleep(allowance)
		srv.Tick.Tick()
		bubble.Wait()
		if ok, err := srv.ServeReturned(); !ok {
			fail = evid.Failf("stop/serve-does-not-return", sc, "Serve has not returned %v after Stop (clients: %v)", allowance, sc.Clients)
			return
		} else if err != nil {
			fail = evid.Failf("stop/serve-error", sc, "Serve returned an error after Stop: %v", err)
			return
		}
		_, conns := srv.ConnsSnapshot()
		for i, c := range conns {
			select {
			case <-c.Done():
			default:
				fail = evid.Failf("stop/connection-survives", sc, "server-side connection %d is still running %v after Stop", i, allowance)
				return
			}
		}
		// the clients' own deadlines (10 s) bound the in-flight calls
		time.Sleep(6 * time.Second)
		bubble.Wait()
		for i, ch := range inflight {
			select {
			case <-ch:
			default:
				fail = evid.Failf("stop/client-call-hangs", sc, "in-flight client call %d has not returned 11 s after the server stopped (its deadline was 10 s)", i)
				return
			}
		}
		for _, c := range clients {
			_ = c.Close()
		}
		for _, c := range raws {
			_ = c.Close()
		}
		time.Sleep(time.Second)
		bubble.Wait()
	})
	if fail != nil {
		return fail
	}
	if run.Panic != "" {
		return evid.Failf("stop/panic", sc, "panic in scenario: %s", run.Panic)
	}
	if run.Deadlock {
		return evid.Failf("stop/deadlock", sc, "all goroutines blocked while the scenario was still running")
	}
	if run.Leaked {
		return evid.Failf("stop/goroutine-left", sc, "after Stop and closing every client a goroutine is still blocked")
	}
	return nil
}

func genServers(t *rapid.T) SrvScenario {
	sc := SrvScenario{Kind: rapid.SampledFrom([]string{"tcp", "dtls"}).Draw(t, "kind"), Stoppers: rapid.IntRange(1, 4).Draw(t, "stoppers"), StopTwice: rapid.Bool().Draw(t, "twice"),
		HandshakeTimeoutMs: rapid.SampledFrom([]int{0, 500, 20000}).Draw(t, "hs")}
	n := rapid.IntRange(0, 5).Draw(t, "nclients")
	for i := 0; i < n; i++ {
		sc.Clients = append(sc.Clients, rapid.SampledFrom([]string{"idle", "inflight", "inflight", "stalled", "raw"}).Draw(t, "client"))
	}
	return sc
}

var serverEngines func() []evid.Engine

func init() {
	serverEngines = func() []evid.Engine {
		var r *evid.Run
		e := evid.RapidEngine("servers", evid.RapidOpts{Quick: 1500, Thorough: 40000, Crashy: true}, genServers, func(sc SrvScenario) *evid.Failure {
			f := execServers(sc)
			if f == nil && r != nil {
				key := ""
				for _, c := range sc.Clients {
					if c == "inflight" || c == "stalled" {
						b, _ := json.Marshal(sc)
						key = string(b)
					}
				}
				r.Case("servers", key, func() any { return sc }, "servers/"+sc.Kind)
			}
			return f
		})
		search := e.Search
		e.Search = func(run *evid.Run) { r = run; search(run) }
		return []evid.Engine{e}
	}
}
