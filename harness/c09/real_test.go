//go:build verif

package c09

import (
	"context"
	"encoding/json"
	"sync"
	"sync/atomic"
	"time"

	"github.com/plgd-dev/go-coap/v3/message/pool"
	"github.com/plgd-dev/go-coap/v3/mux"
	coapNet "github.com/plgd-dev/go-coap/v3/net"
	"github.com/plgd-dev/go-coap/v3/options"
	"github.com/plgd-dev/go-coap/v3/udp"
	udpClient "github.com/plgd-dev/go-coap/v3/udp/client"
	"pgregory.net/rapid"

	"verif/evid"
	"verif/realnet"
)

// RealScenario: the same question as the interrupt engine, on real loopback sockets (UDP, DTLS-PSK,
// TCP, TLS) against the library's own servers, in real time.
type RealScenario struct {
	Kind      string `json:"kind"`      // udp | dtls | tcp | tls | discover | tls-silent
	Op        string `json:"op"`        // get | observe
	Interrupt string `json:"interrupt"` // cancel | deadline | close | serverstop
	Closers   int    `json:"closers"`
	OnClose   int    `json:"onClose"`
}

const realAllowance = 5 * time.Second

func execRealOnce(sc RealScenario) *evid.Failure {
	if sc.Kind == "discover" {
		return execDiscover(sc)
	}
	if sc.Kind == "tls-silent" {
		return execTLSSilent(sc)
	}
	router := mux.NewRouter()
	_ = router.Handle("/hold", mux.HandlerFunc(func(w mux.ResponseWriter, r *mux.Message) {
		// never answers: a confirmable request gets its bare acknowledgement and nothing else
	}))
	srv, err := realnet.Start(sc.Kind, router)
	if err != nil {
		return nil
	}
	stopped := false
	defer func() {
		if !stopped {
			srv.Stop(5 * time.Second)
		}
	}()
	cc, err := srv.Dial(true)
	if err != nil {
		return evid.Failf("real/dial", sc, "%s dial: %v", sc.Kind, err)
	}
	onClose := make([]atomic.Int32, sc.OnClose)
	for i := range onClose {
		i := i
		cc.AddOnClose(func() { onClose[i].Add(1) })
	}
	ctx, cancel := context.WithCancel(context.Background())
	if sc.Interrupt == "deadline" {
		cancel()
		ctx, cancel = context.WithTimeout(context.Background(), 400*time.Millisecond)
	}
	defer cancel()
	returned := make(chan error, 1)
	go func() {
		switch sc.Op {
		case "observe":
			_, err := cc.Observe(ctx, "/hold", func(*pool.Message) {})
			returned <- err
		default:
			_, err := cc.Get(ctx, "/hold")
			returned <- err
		}
	}()
	time.Sleep(150 * time.Millisecond) // the request is on its way and unanswered
	select {
	case err := <-returned:
		return evid.Failf("real/not-blocked", sc, "%s %s against a handler that never answers returned after 150 ms: %v", sc.Kind, sc.Op, err)
	default:
	}
	t0 := time.Now()
	switch sc.Interrupt {
	case "cancel":
		cancel()
	case "deadline":
	case "close":
		var wg sync.WaitGroup
		for i := 0; i < max(sc.Closers, 1); i++ {
			wg.Add(1)
			go func() { defer wg.Done(); _ = cc.Close() }()
		}
		wg.Wait()
	case "serverstop":
		stopped = true
		if !srv.Stop(realAllowance) {
			return evid.Failf("real/serve-does-not-return", sc, "%s server: Serve has not returned %v after Stop with a client request in flight", sc.Kind, realAllowance)
		}
		if sc.Kind == "udp" || sc.Kind == "dtls" {
			cancel() // a datagram client cannot see that its server went away
		}
	}
	select {
	case err := <-returned:
		if err == nil {
			return evid.Failf("real/interrupted-call-succeeded", sc, "%s %s returned success although nothing answered it", sc.Kind, sc.Op)
		}
	case <-time.After(realAllowance + 400*time.Millisecond):
		return evid.Failf("real/"+sc.Kind+"-"+sc.Op+"-ignores-"+sc.Interrupt, sc, "%s %s is still blocked %v after the interruption (%s)", sc.Kind, sc.Op, time.Since(t0).Round(time.Millisecond), sc.Interrupt)
	}
	// close: idempotent, concurrent, done signal, callbacks once
	var wg sync.WaitGroup
	for i := 0; i < max(sc.Closers, 1); i++ {
		wg.Add(1)
		go func() { defer wg.Done(); _ = cc.Close() }()
	}
	closed := make(chan struct{})
	go func() { wg.Wait(); close(closed) }()
	select {
	case <-closed:
	case <-time.After(realAllowance):
		return evid.Failf("real/close-blocks", sc, "%s: Close() has not returned after %v", sc.Kind, realAllowance)
	}
	_ = cc.Close()
	select {
	case <-cc.Done():
	case <-time.After(realAllowance):
		return evid.Failf("real/done-not-closed", sc, "%s: the done signal is not closed %v after Close", sc.Kind, realAllowance)
	}
	time.Sleep(20 * time.Millisecond)
	for i := range onClose {
		if n := onClose[i].Load(); n != 1 {
			return evid.Failf("real/on-close-count", sc, "%s: on-close callback %d ran %d times", sc.Kind, i, n)
		}
	}
	return nil
}

// execDiscover: Server.Discover blocks until its context ends or the server stops.
func execDiscover(sc RealScenario) *evid.Failure {
	l, err := coapNet.NewListenUDP("udp4", "127.0.0.1:0")
	if err != nil {
		return nil
	}
	defer l.Close()
	s := udp.NewServer(options.WithMessagePool(pool.New(8, 2048)))
	serveDone := make(chan error, 1)
	go func() { serveDone <- s.Serve(l) }()
	sink, err := coapNet.NewListenUDP("udp4", "127.0.0.1:0") // a peer that never answers
	if err != nil {
		s.Stop()
		return nil
	}
	defer sink.Close()
	ctx, cancel := context.WithCancel(context.Background())
	if sc.Interrupt == "deadline" {
		cancel()
		ctx, cancel = context.WithTimeout(context.Background(), 400*time.Millisecond)
	}
	defer cancel()
	returned := make(chan error, 1)
	go func() {
		returned <- s.Discover(ctx, sink.LocalAddr().String(), "/oic/res", func(*udpClient.Conn, *pool.Message) {})
	}()
	time.Sleep(150 * time.Millisecond)
	select {
	case err := <-returned:
		s.Stop()
		return evid.Failf("real/not-blocked", sc, "Discover returned after 150 ms: %v", err)
	default:
	}
	switch sc.Interrupt {
	case "cancel":
		cancel()
	case "close", "serverstop":
		for i := 0; i < max(sc.Closers, 1); i++ {
			go s.Stop()
		}
	}
	select {
	case <-returned:
	case <-time.After(realAllowance + 400*time.Millisecond):
		s.Stop()
		return evid.Failf("real/discover-ignores-"+sc.Interrupt, sc, "Discover is still blocked %v after the interruption (%s)", realAllowance, sc.Interrupt)
	}
	s.Stop()
	s.Stop()
	select {
	case <-serveDone:
	case <-time.After(realAllowance):
		return evid.Failf("real/serve-does-not-return", sc, "udp server: Serve has not returned %v after Stop", realAllowance)
	}
	return nil
}

func execReal(sc RealScenario) *evid.Failure {
	var f *evid.Failure
	for try := 0; try < 3; try++ {
		if f = execRealOnce(sc); f == nil {
			return nil
		}
	}
	return f
}

func genReal(t *rapid.T) RealScenario {
	sc := RealScenario{
		Kind:      rapid.SampledFrom([]string{"udp", "dtls", "tcp", "tls", "discover", "tls-silent"}).Draw(t, "kind"),
		Op:        rapid.SampledFrom([]string{"get", "observe"}).Draw(t, "op"),
		Interrupt: rapid.SampledFrom([]string{"cancel", "deadline", "close", "serverstop"}).Draw(t, "interrupt"),
		Closers:   rapid.IntRange(1, 4).Draw(t, "closers"),
		OnClose:   rapid.IntRange(0, 2).Draw(t, "onclose"),
	}
	if sc.Kind == "tls-silent" && sc.Interrupt == "serverstop" {
		sc.Interrupt = "deadline" // there is no library server on the other side
	}
	return sc
}

func realEngine() evid.Engine {
	var r *evid.Run
	e := evid.RapidEngine("real", evid.RapidOpts{Quick: 64, Thorough: 1500}, genReal, func(sc RealScenario) *evid.Failure {
		f := execReal(sc)
		if f == nil && r != nil {
			b, _ := json.Marshal(sc)
			r.Case("real", string(b), func() any { return sc }, "real/"+sc.Kind)
		}
		return f
	})
	search := e.Search
	e.Search = func(run *evid.Run) { r = run; search(run) }
	return e
}
