//go:build verif

package c09

// Kind "tls-silent" of the real engine: CoAP over a tls.Conn whose handshake has not been done yet
// (tcp.Client(tls.Client(raw, cfg)) with the CSM exchange disabled, so that the constructor does not
// drive the handshake itself), against a peer that accepts the TCP connection and then stays silent -
// it never answers the ClientHello. A request issued in that state waits inside the handshake; it
// must still return within a bounded delay once its context ends or the connection is closed.

import (
	"context"
	"crypto/tls"
	"net"
	"sync"
	"sync/atomic"
	"time"

	"github.com/plgd-dev/go-coap/v3/message/pool"
	"github.com/plgd-dev/go-coap/v3/options"
	"github.com/plgd-dev/go-coap/v3/tcp"

	"verif/evid"
)

func execTLSSilent(sc RealScenario) *evid.Failure {
	l, err := net.Listen("tcp4", "127.0.0.1:0")
	if err != nil {
		return nil
	}
	defer l.Close()
	var amu sync.Mutex
	var accepted []net.Conn
	go func() {
		for {
			c, err := l.Accept()
			if err != nil {
				return
			}
			amu.Lock()
			accepted = append(accepted, c) // kept open, never read, never written
			amu.Unlock()
		}
	}()
	defer func() {
		amu.Lock()
		for _, c := range accepted {
			_ = c.Close()
		}
		amu.Unlock()
	}()
	raw, err := net.Dial("tcp4", l.Addr().String())
	if err != nil {
		return nil
	}
	cc, err := tcp.Client(tls.Client(raw, &tls.Config{InsecureSkipVerify: true}), //nolint:gosec
		options.WithDisableTCPSignalMessageCSM(), options.WithCloseSocket(), options.WithMessagePool(pool.New(8, 2048)))
	if err != nil {
		_ = raw.Close()
		return evid.Failf("real/dial", sc, "tcp.Client over a tls.Conn: %v", err)
	}
	onClose := make([]atomic.Int32, sc.OnClose)
	for i := range onClose {
		i := i
		cc.AddOnClose(func() { onClose[i].Add(1) })
	}
	time.Sleep(100 * time.Millisecond) // the connection's reader has started the handshake
	ctx, cancel := context.WithCancel(context.Background())
	if sc.Interrupt == "deadline" {
		cancel()
		ctx, cancel = context.WithTimeout(context.Background(), 400*time.Millisecond)
	}
	defer cancel()
	returned := make(chan error, 1)
	go func() {
		switch sc.Op {
		case "observe":
			_, err := cc.Observe(ctx, "/hold", func(*pool.Message) {})
			returned <- err
		default:
			_, err := cc.Get(ctx, "/hold")
			returned <- err
		}
	}()
	time.Sleep(150 * time.Millisecond)
	select {
	case err := <-returned:
		return evid.Failf("real/not-blocked", sc, "%s over a TLS connection whose peer never answers the handshake returned after 150 ms: %v", sc.Op, err)
	default:
	}
	t0 := time.Now()
	switch sc.Interrupt {
	case "cancel":
		cancel()
	case "close":
		var wg sync.WaitGroup
		for i := 0; i < max(sc.Closers, 1); i++ {
			wg.Add(1)
			go func() { defer wg.Done(); _ = cc.Close() }()
		}
		wg.Wait()
	}
	select {
	case err := <-returned:
		if err == nil {
			return evid.Failf("real/interrupted-call-succeeded", sc, "%s returned success although the peer never even answered the TLS handshake", sc.Op)
		}
	case <-time.After(realAllowance + 400*time.Millisecond):
		f := evid.Failf("real/tls-silent-"+sc.Op+"-ignores-"+sc.Interrupt, sc, "%s on a TLS connection whose peer is silent in the handshake is still blocked %v after the interruption (%s)", sc.Op, time.Since(t0).Round(time.Millisecond), sc.Interrupt)
		_ = cc.Close()
		return f
	}
	var wg sync.WaitGroup
	for i := 0; i < max(sc.Closers, 1); i++ {
		wg.Add(1)
		go func() { defer wg.Done(); _ = cc.Close() }()
	}
	closed := make(chan struct{})
	go func() { wg.Wait(); close(closed) }()
	select {
	case <-closed:
	case <-time.After(realAllowance):
		return evid.Failf("real/close-blocks", sc, "tls-silent: Close() has not returned after %v", realAllowance)
	}
	select {
	case <-cc.Done():
	case <-time.After(realAllowance):
		return evid.Failf("real/done-not-closed", sc, "tls-silent: the done signal is not closed %v after Close", realAllowance)
	}
	time.Sleep(20 * time.Millisecond)
	for i := range onClose {
		if n := onClose[i].Load(); n != 1 {
			return evid.Failf("real/on-close-count", sc, "tls-silent: on-close callback %d ran %d times", i, n)
		}
	}
	return nil
}
