//go:build verif

package c09

import (
	"time"

	dtlsServer "github.com/plgd-dev/go-coap/v3/dtls/server"
	"github.com/plgd-dev/go-coap/v3/message"
	"github.com/plgd-dev/go-coap/v3/message/codes"
	"github.com/plgd-dev/go-coap/v3/message/pool"
	"github.com/plgd-dev/go-coap/v3/net/responsewriter"
	"github.com/plgd-dev/go-coap/v3/options"
	udpClient "github.com/plgd-dev/go-coap/v3/udp/client"

	"verif/srvsim"
)

type dtlsCfg = dtlsServer.Config

func startDTLS(sc SrvScenario, gate chan struct{}) *srvsim.Server {
	var extra []dtlsServer.Option
	if sc.HandshakeTimeoutMs > 0 {
		extra = append(extra, options.WithDTLSHandshakeTimeout(time.Duration(sc.HandshakeTimeoutMs)*time.Millisecond))
	}
	return srvsim.StartDTLS(func(w *responsewriter.ResponseWriter[*udpClient.Conn], r *pool.Message) {
		if p, _ := r.Path(); p == "/gate" {
			<-gate
		}
		_ = w.SetResponse(codes.Content, message.TextPlain, nil)
	}, extra...)
}
