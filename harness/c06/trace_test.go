package c06

import (
	"encoding/json"
	"fmt"
	"os"
	"testing"

	"verif/evid"
)

// TestTrace prints the wire log of the scenario in $VERIF_TRACE (debugging aid, not part of the check).
func TestTrace(t *testing.T) {
	f := os.Getenv("VERIF_TRACE")
	if f == "" {
		t.Skip("debugging aid")
	}
	raw, err := os.ReadFile(f)
	if err != nil {
		t.Fatal(err)
	}
	var doc struct {
		Scenario Scenario `json:"scenario"`
	}
	if err := json.Unmarshal(raw, &doc); err != nil {
		t.Fatal(err)
	}
	traceOut = func(s string) { fmt.Println(s) }
	r := evid.New(t, "C06-trace")
	if fl := Exec(t, doc.Scenario, r); fl != nil {
		fmt.Printf("ORACLE %s: %s\n", fl.Key, fl.Msg)
	}
}
