// C06 — confirmable requests are retransmitted correctly and boundedly.
package c06

import (
	"bytes"
	"context"
	"encoding/json"
	"fmt"
	"os"
	"sort"
	"strings"
	"sync"
	"testing"
	"time"

	"github.com/plgd-dev/go-coap/v3/message"
	"github.com/plgd-dev/go-coap/v3/message/pool"
	"github.com/plgd-dev/go-coap/v3/options"
	udpClient "github.com/plgd-dev/go-coap/v3/udp/client"
	"pgregory.net/rapid"

	"verif/bubble"
	"verif/endpoints"
	"verif/evid"
	"verif/memnet"
	"verif/peer"
	"verif/refcodec"
	"verif/roles"
	"verif/udpsrv"
)

type Request struct {
	Loss       []bool `json:"loss"`      // k-th transmission lost on its way to the peer
	Reaction   string `json:"reaction"`  // piggy | ack-sep | rst | nothing
	SepType    int    `json:"sepType"`   // separate response as CON (0) or NON (1)
	ReplyLost  []bool `json:"replyLost"` // i-th datagram of the peer for this request lost on its way back
	DelayMs    int    `json:"delayMs"`   // peer's reaction time
	SepDelayMs int    `json:"sepDelayMs"`
	DeadlineMs int    `json:"deadlineMs"` // caller's context deadline, relative to the call
	CancelMs   int    `json:"cancelMs"`   // caller cancels at this offset (0 = never)
	// StartMs: the request is issued this long after the start of the scenario (the deadline counts from then)
	StartMs int `json:"startMs,omitempty"`
	// Advance: just before this request is issued the application draws this many message IDs itself
	// (the exported Conn.GetMessageID) - 65536 minus a few, so that the connection's 16-bit counter
	// comes round to the ID of an earlier request, which may still be pending: what a long-lived
	// connection meets after 65536 messages, brought within reach. (The unchanged library refuses a
	// request whose ID is pending without a transmission, which the rules allow.)
	Advance int `json:"advance,omitempty"`
	// Payload > 0: the request is a POST with a body of this many bytes (else a GET without one)
	Payload int `json:"payload,omitempty"`
	// Blocks > 1 (scenario with Blockwise, reaction piggy or ack-sep): the response body comes in this
	// many 16-byte blocks (RFC 7959) - the first one in the piggybacked or separate response, the others
	// in piggybacked answers to the follow-up requests the client sends under the same token. A second
	// feature next to retransmission: the retransmission rules are about the ORIGINAL request.
	Blocks int `json:"blocks,omitempty"`
}

// respBody is the complete response body of request i (kind 'P' piggybacked, 'S' separate).
func respBody(i int, kind byte, blocks int) []byte {
	b := []byte(fmt.Sprintf("%c%d", kind, i))
	if blocks > 1 {
		for len(b) < 16*(blocks-1)+5 {
			b = append(b, byte('a'+len(b)%23))
		}
	}
	return b
}

// block2 is the Block2 option of block num (SZX 0 = 16 bytes) and that block of body.
func block2(body []byte, num int) (refcodec.Opt, []byte) {
	lo, hi := min(16*num, len(body)), min(16*num+16, len(body))
	v := num << 4
	if hi < len(body) {
		v |= 8
	}
	var val []byte
	for x := v; x > 0; x >>= 8 {
		val = append([]byte{byte(x)}, val...)
	}
	return refcodec.Opt{Num: 23, Val: val}, body[lo:hi]
}

// followUp: the message asks for a later block of a response (Block2 with a block number > 0).
func followUp(m refcodec.Msg) (int, bool) {
	v, ok := peer.FindOpt(m, 23)
	if !ok {
		return 0, false
	}
	x := 0
	for _, b := range v {
		x = x<<8 | int(b)
	}
	return x >> 4, x>>4 > 0
}

type Scenario struct {
	AckTimeoutMs  int       `json:"ackTimeoutMs"`
	MaxRetransmit int       `json:"maxRetransmit"`
	NStart        int       `json:"nstart"`
	Reqs          []Request `json:"reqs"`
	Ticks         []int     `json:"ticks"` // housekeeping ticks, ms after the start
	// FailWrite > 0 (single request): the k-th transmission of the request fails in the socket
	// (a transient error: nothing is sent, the attempt is used up)
	FailWrite int `json:"failWrite,omitempty"`
	// BadFirst: before anything else the application issues a confirmable POST whose body cannot be
	// read; it is refused without a transmission - and the requests after it are ordinary ones
	BadFirst bool `json:"badFirst,omitempty"`
	// Role: "" a client connection; "server" the connection a dtls.NewServer creates for an accepted peer
	Role string `json:"role,omitempty"`
	// Blockwise: the client has block-wise transfer enabled (SZX 1024, so that none of the request
	// bodies here is split); responses may then come in blocks (Request.Blocks)
	Blockwise bool `json:"blockwise,omitempty"`
}

type outcome struct {
	returned bool
	at       time.Duration
	err      error
	payload  []byte
	code     int
}

type delivered struct {
	t time.Duration
	m refcodec.Msg
}

// badBody is a request body whose size and content cannot be read.
type badBody struct{}

func (badBody) Read([]byte) (int, error)       { return 0, fmt.Errorf("body unreadable") }
func (badBody) Seek(int64, int) (int64, error) { return 0, fmt.Errorf("body not seekable") }

func tok(i int) []byte { return []byte{0xC6, byte(i + 1)} }

// traceOut, if set (TestTrace), gets the wire log and the outcomes of a scenario.
var traceOut func(string)

func Exec(t *testing.T, sc Scenario, r *evid.Run) *evid.Failure {
	var failedWrites []time.Duration
	badFirstAccepted := false
	n := len(sc.Reqs)
	outs := make([]outcome, n)
	var wire []memnet.Record
	var tickTimes []time.Duration
	cancelAt := make([]time.Duration, n)
	deliveredTo := make([][]delivered, n) // replies delivered to the client, per request
	ackT := time.Duration(sc.AckTimeoutMs) * time.Millisecond
	var errs endpoints.Errs
	var lastBlockAt []time.Duration // when the answer to the last follow-up request of a response in blocks was delivered
	res := bubble.Run(t, 60*time.Second, nil, func() {
		link := memnet.NewPacketLink(memnet.LinkCfg{LatencyMs: 1})
		if sc.FailWrite > 0 {
			// (only transmissions of the request: the library closes the connection when it cannot
			// write an acknowledgement, which is a policy of its own)
			link.A.FailMatch = func(b []byte) bool {
				m, ok := peer.ParseDatagram(b)
				return ok && m.Type == peer.CON && (m.Code == 1 || m.Code == 2)
			}
			link.A.FailWriteAt(sc.FailWrite)
		}
		var tk endpoints.Ticker
		cli, stopRole, errRole := roles.Packet(sc.Role, link, bubble.Wait, []any{
			options.WithMessagePool(pool.New(8, 2048)),
			options.WithPeriodicRunner(tk.Runner()),
			options.WithErrors(errs.Add),
			options.WithBlockwise(sc.Blockwise, 6, 3*time.Second),
			options.WithTransmission(uint32(sc.NStart), ackT, uint32(sc.MaxRetransmit)),
			options.WithLimitClientParallelRequest(16),
			options.WithLimitClientEndpointParallelRequest(16),
			endpoints.UDPCfg(func(cfg *udpClient.Config) {
				cfg.GetToken = nil
			}),
		}...)
		if errRole != nil {
			panic(errRole)
		}
		if sc.BadFirst {
			ctx, cancel := context.WithTimeout(context.Background(), time.Second)
			if _, err := cli.Post(ctx, "/bad", message.TextPlain, badBody{}); err == nil {
				badFirstAccepted = true
			}
			cancel()
			bubble.Wait()
		}
		start := time.Now()
		var mu sync.Mutex
		var wg sync.WaitGroup
		cancels := make([]context.CancelFunc, n)
		for i := range sc.Reqs {
			q := sc.Reqs[i]
			ctx, cancel := context.WithTimeout(context.Background(), time.Duration(q.StartMs+q.DeadlineMs)*time.Millisecond)
			cancels[i] = cancel
			wg.Add(1)
			go func(i int) {
				defer wg.Done()
				if q.StartMs > 0 {
					time.Sleep(time.Duration(q.StartMs) * time.Millisecond)
				}
				for k := 0; k < q.Advance; k++ {
					cli.GetMessageID()
				}
				var req *pool.Message
				var err error
				if q.Payload > 0 {
					req, err = cli.NewPostRequest(ctx, fmt.Sprintf("/r%d", i), message.TextPlain, bytes.NewReader(bytes.Repeat([]byte{byte('a' + i)}, q.Payload)))
				} else {
					req, err = cli.NewGetRequest(ctx, fmt.Sprintf("/r%d", i))
				}
				if err != nil {
					mu.Lock()
					outs[i] = outcome{returned: true, at: time.Since(start), err: err}
					mu.Unlock()
					return
				}
				req.SetToken(tok(i))
				resp, err := cli.Do(req)
				o := outcome{returned: true, at: time.Since(start), err: err}
				if err == nil {
					o.payload, _ = resp.ReadBody()
					o.code = int(resp.Code())
				}
				mu.Lock()
				outs[i] = o
				mu.Unlock()
			}(i)
		}
		seen := 0                 // client datagrams already looked at
		txCount := make([]int, n) // transmissions seen per request
		replyCount := make([]int, n)
		sepSent := make([]bool, n)
		lastBlockAt = make([]time.Duration, n)
		reply := func(i int, m refcodec.Msg, delay int) {
			idx := replyCount[i]
			replyCount[i]++
			if idx < len(sc.Reqs[i].ReplyLost) && sc.Reqs[i].ReplyLost[idx] {
				return
			}
			d := peer.Datagram(m)
			time.AfterFunc(time.Duration(max(delay, 0))*time.Millisecond, func() {
				mu.Lock()
				deliveredTo[i] = append(deliveredTo[i], delivered{time.Since(start), m})
				mu.Unlock()
				link.A.Inject(d)
			})
		}
		react := func() {
			sent := link.Sent(0)
			for ; seen < len(sent); seen++ {
				m, ok := peer.ParseDatagram(sent[seen])
				if !ok || m.Type != peer.CON || (m.Code != 1 && m.Code != 2) || len(m.Token) != 2 || m.Token[0] != 0xC6 {
					continue
				}
				i := int(m.Token[1]) - 1
				if i < 0 || i >= n {
					continue
				}
				q := sc.Reqs[i]
				if num, ok := followUp(m); ok {
					// a follow-up request for a later block: answered at once, piggybacked
					kind := byte('P')
					if q.Reaction == "ack-sep" {
						kind = 'S'
					}
					o, pl := block2(respBody(i, kind, q.Blocks), num)
					if num == q.Blocks-1 {
						mu.Lock()
						lastBlockAt[i] = time.Since(start)
						mu.Unlock()
					}
					link.A.Inject(peer.Datagram(refcodec.Msg{Type: peer.ACK, MID: m.MID, Token: m.Token, Code: 69, Opts: []refcodec.Opt{o}, Payload: pl}))
					continue
				}
				k := txCount[i]
				txCount[i]++
				if k < len(q.Loss) && q.Loss[k] {
					continue
				}
				switch q.Reaction {
				case "piggy":
					rm := refcodec.Msg{Type: peer.ACK, MID: m.MID, Token: m.Token, Code: 69, Payload: respBody(i, 'P', 0)}
					if q.Blocks > 1 {
						o, pl := block2(respBody(i, 'P', q.Blocks), 0)
						rm.Opts, rm.Payload = []refcodec.Opt{o}, pl
					}
					reply(i, rm, q.DelayMs)
				case "ack-sep":
					reply(i, refcodec.Msg{Type: peer.ACK, MID: m.MID}, q.DelayMs)
					if !sepSent[i] {
						sepSent[i] = true
						rm := refcodec.Msg{Type: q.SepType, MID: 30000 + i, Token: m.Token, Code: 69, Payload: respBody(i, 'S', 0)}
						if q.Blocks > 1 {
							o, pl := block2(respBody(i, 'S', q.Blocks), 0)
							rm.Opts, rm.Payload = []refcodec.Opt{o}, pl
						}
						reply(i, rm, q.DelayMs+q.SepDelayMs)
					}
				case "rst":
					reply(i, refcodec.Msg{Type: peer.RST, MID: m.MID}, q.DelayMs)
				}
			}
		}
		// timeline: ticks and cancellations, in virtual time
		type ev struct {
			at   int
			kind string
			req  int
		}
		var evs []ev
		for _, ms := range sc.Ticks {
			evs = append(evs, ev{ms, "tick", 0})
		}
		for i, q := range sc.Reqs {
			if q.CancelMs > 0 {
				evs = append(evs, ev{q.CancelMs, "cancel", i})
			}
		}
		sort.SliceStable(evs, func(a, b int) bool { return evs[a].at < evs[b].at })
		bubble.Wait()
		react()
		for _, e := range evs {
			if d := time.Duration(e.at)*time.Millisecond - time.Since(start); d > 0 {
				time.Sleep(d)
			}
			bubble.Wait()
			react() // e.g. the ACK of a separate response, or a request released by NSTART
			switch e.kind {
			case "tick":
				mu.Lock()
				tickTimes = append(tickTimes, time.Since(start))
				mu.Unlock()
				tk.Tick()
			case "cancel":
				cancelAt[e.req] = time.Since(start)
				cancels[e.req]()
			}
			bubble.Wait()
			react()
		}
		// run past every deadline
		maxDl := 0
		for _, q := range sc.Reqs {
			maxDl = max(maxDl, q.StartMs+q.DeadlineMs)
		}
		if d := time.Duration(maxDl+50)*time.Millisecond - time.Since(start); d > 0 {
			time.Sleep(d)
		}
		bubble.Wait()
		react()
		done := make(chan struct{})
		go func() { wg.Wait(); close(done) }()
		bubble.Wait()
		select {
		case <-done:
		default:
		}
		for _, c := range cancels {
			c()
		}
		wire = link.Log()
		if traceOut != nil {
			for _, rec := range wire {
				m, _ := peer.ParseDatagram(rec.Data)
				traceOut(fmt.Sprintf("%v dir=%d %s type=%d mid=%d code=%d tok=%x opts=%v payload=%q", rec.T, rec.Dir, rec.Fate, m.Type, m.MID, m.Code, m.Token, m.Opts, m.Payload))
			}
			mu.Lock()
			traceOut(fmt.Sprintf("outcomes %+v errors %q", outs, errs.List()))
			mu.Unlock()
		}
		failedWrites = link.A.FailedWrites()
		_ = cli.Close()
		stopRole()
		bubble.Wait()
	})
	if res.Panic != "" {
		return evid.Failf("retx/panic", sc, "panic in scenario: %s", res.Panic)
	}
	if res.Deadlock {
		return evid.Failf("retx/deadlock", sc, "all goroutines blocked while the scenario was still running")
	}
	r.Class("teardown_leaks", b2i(res.Leaked))
	if badFirstAccepted {
		return evid.Failf("retx/unreadable-body-accepted", sc, "a POST whose body cannot be read returned success")
	}

	// ---- oracle over the wire log ---------------------------------------------------------------------
	for i, q := range sc.Reqs {
		var copies []memnet.Record
		for _, rec := range wire {
			if rec.Dir != 0 {
				continue
			}
			m, ok := peer.ParseDatagram(rec.Data)
			if !ok {
				return evid.Failf("retx/garbage-on-wire", sc, "the client sent an undecodable datagram %x", rec.Data)
			}
			if m.Type == peer.CON && (m.Code == 1 || m.Code == 2) && bytes.Equal(m.Token, tok(i)) {
				if _, fu := followUp(m); fu {
					continue // a request for a later block of the response, not a copy of the original
				}
				copies = append(copies, rec)
			}
		}
		o := outs[i]
		if !o.returned {
			return evid.Failf("retx/call-did-not-return", sc, "request %d has not returned %d ms after its deadline (%d ms)", i, 50, q.StartMs+q.DeadlineMs)
		}
		if len(copies) == 0 {
			if o.err == nil {
				return evid.Failf("retx/success-without-transmission", sc, "request %d succeeded without any transmission", i)
			}
			continue
		}
		t0 := copies[0].T
		if len(copies) > 1+sc.MaxRetransmit {
			return evid.Failf("retx/too-many-copies", sc, "request %d: %d transmissions, MAX_RETRANSMIT is %d", i, len(copies), sc.MaxRetransmit)
		}
		// the end of retransmission: delivery of a matching ACK/RST, cancellation, return of the call
		stop := o.at
		why := "the call returned"
		if cancelAt[i] > 0 && cancelAt[i] < stop {
			stop, why = cancelAt[i], "the caller cancelled"
		}
		m0, _ := peer.ParseDatagram(copies[0].Data)
		for _, d := range deliveredTo[i] {
			if (d.m.Type == peer.ACK || d.m.Type == peer.RST) && d.m.MID == m0.MID && d.t < stop {
				stop, why = d.t, fmt.Sprintf("a matching %s was delivered", map[int]string{peer.ACK: "ACK", peer.RST: "RST"}[d.m.Type])
			}
		}
		for k, c := range copies {
			if !bytes.Equal(c.Data, copies[0].Data) {
				return evid.Failf("retx/copies-differ", sc, "request %d: transmission %d differs from the first: %x vs %x", i, k, c.Data, copies[0].Data)
			}
			if k > 0 && c.T < t0+time.Duration(k)*ackT {
				return evid.Failf("retx/too-early", sc, "request %d: transmission %d at %v, earlier than first (%v) + %d x ACK_TIMEOUT (%v)", i, k, c.T, t0, k, ackT)
			}
			if c.T > stop {
				return evid.Failf("retx/copy-after-end", sc, "request %d: transmission %d at %v although %s at %v", i, k, c.T, why, stop)
			}
		}
		// responses delivered to the client for this token
		var resp *delivered
		for k := range deliveredTo[i] {
			d := deliveredTo[i][k]
			if d.m.Code != 0 && bytes.Equal(d.m.Token, tok(i)) && resp == nil {
				resp = &deliveredTo[i][k]
			}
		}
		// "re-sent only while it is unacknowledged": a response implies that the peer has the request
		// (RFC 7252 5.2.2 - it also serves as the acknowledgement, which may have been lost or may
		// still be on its way). Asserted from the moment the COMPLETE response has been delivered - for
		// a body in several blocks that is the answer to the last follow-up request; until then the
		// library keeps the original pending.
		if resp != nil && !wrapped(sc) {
			done := resp.t
			if q.Blocks > 1 {
				done = lastBlockAt[i]
			}
			for k, c := range copies {
				if done > 0 && c.T > done+time.Millisecond {
					return evid.Failf("retx/copy-after-response", sc, "request %d: transmission %d at %v although the complete response to it had been delivered at %v (the response also stands for the acknowledgement)", i, k, c.T, done)
				}
			}
		}
		if o.err == nil {
			if resp == nil {
				return evid.Failf("retx/success-without-response", sc, "request %d returned success (code %d, %q) although no response was ever delivered (reaction %s)", i, o.code, o.payload, q.Reaction)
			}
			want := resp.m.Payload
			if q.Blocks > 1 {
				want = respBody(i, want[0], q.Blocks)
			}
			if !bytes.Equal(o.payload, want) || o.code != resp.m.Code {
				return evid.Failf("retx/wrong-response", sc, "request %d returned %d %q, the peer's response was %d %q", i, o.code, o.payload, resp.m.Code, resp.m.Payload)
			}
			continue
		}
		// the call failed: was it entitled to? Conservative "got back before exhaustion":
		if resp == nil {
			continue
		}
		if q.Blocks > 1 {
			// the first block got back; whether the others could be fetched in time (the follow-up
			// requests wait for NSTART like any other) is not decided by the rules about the original
			continue
		}
		if wrapped(sc) && resp.t >= o.at-time.Millisecond && strings.Contains(o.err.Error(), "connection was closed") {
			// (a response handed to the link at the very instant the connection closed itself counts as
			// delivered after it: the order of two events of one virtual instant is the scheduler's)
			// After a wrap-around a confirmable message the library originates itself (a response to a
			// non-confirmable message of the peer) may draw the ID of a pending request; the library
			// refuses it, and a connection that cannot write a response closes itself - a policy of
			// its own, as with a failed write of an acknowledgement. The call ended with the
			// connection, before its response was delivered: nothing "got back".
			continue
		}
		if wrapped(sc) {
			// after a wrap-around a late reset for an earlier request with the same message ID
			// legitimately ends this one
			foreign := false
			for j := range deliveredTo {
				for _, d := range deliveredTo[j] {
					if j != i && d.m.Type == peer.RST && d.m.MID == m0.MID && d.t >= t0 && d.t <= o.at {
						foreign = true
					}
				}
			}
			if foreign {
				continue
			}
		}
		dl := time.Duration(q.StartMs+q.DeadlineMs) * time.Millisecond
		if cancelAt[i] > 0 {
			dl = min(dl, cancelAt[i])
		}
		if resp.t >= dl-time.Millisecond {
			continue // too close to / after the caller's deadline or cancellation
		}
		// exhaustion: the first tick at or after which no attempt is left. With a delivered empty
		// ACK the message layer is done and only the deadline matters.
		ackDelivered := time.Duration(-1)
		for _, d := range deliveredTo[i] {
			if d.m.Type == peer.ACK && d.m.MID == m0.MID && (ackDelivered < 0 || d.t < ackDelivered) {
				ackDelivered = d.t
			}
		}
		exhausted := time.Duration(-1)
		for _, tt := range tickTimes {
			if tt < t0 {
				continue
			}
			// a tick at the very instant of a transmission may have run after it: count it (conservative)
			sentBefore := 0
			for _, c := range copies {
				if c.T <= tt {
					sentBefore++
				}
			}
			for _, ft := range failedWrites { // an attempt whose write failed is used up all the same
				if ft >= t0 && ft <= tt {
					sentBefore++
				}
			}
			if sentBefore >= 1+sc.MaxRetransmit || sc.MaxRetransmit == 0 {
				exhausted = tt
				break
			}
		}
		if exhausted >= 0 && (ackDelivered < 0 || ackDelivered >= exhausted) && resp.t >= exhausted {
			continue // the response came back only after the attempts were exhausted
		}
		if os.Getenv("VERIF_DEBUG") != "" {
			fmt.Fprintf(os.Stderr, "DEBUG scenario %+v\n  errors: %q\n  ticks %v outs %+v\n", sc, errs.List(), tickTimes, outs)
			for _, rec := range wire {
				fmt.Fprintf(os.Stderr, "  wire %v dir=%d %x\n", rec.T, rec.Dir, rec.Data)
			}
		}
		key := "retx/response-delivered-but-call-failed"
		if q.Reaction == "ack-sep" && (ackDelivered < 0 || ackDelivered > resp.t) {
			key = "retx/separate-response-before-ack-call-failed"
		}
		return evid.Failf(key, sc, "request %d: the response (%d %q) was delivered at %v, before exhaustion (%v) and before the deadline (%v), but the call failed at %v: %v (errors the connection reported: %.400q)", i, resp.m.Code, resp.m.Payload, resp.t, exhausted, dl, o.at, o.err, errs.List())
	}
	// weak liveness: total silence, ticks at least every ACK_TIMEOUT/2, MAX_RETRANSMIT >= 1 => a retransmission happens
	if len(sc.Reqs) == 1 && sc.MaxRetransmit >= 1 && sc.Reqs[0].Reaction == "nothing" && sc.Reqs[0].CancelMs == 0 && sc.Reqs[0].StartMs == 0 && len(failedWrites) == 0 {
		dense := true
		prev := time.Duration(0)
		limit := 2*ackT + ackT/2
		for _, tt := range tickTimes {
			if tt > limit {
				break
			}
			if tt-prev > ackT/2 {
				dense = false
			}
			prev = tt
		}
		if dense && prev >= 2*ackT && time.Duration(sc.Reqs[0].DeadlineMs)*time.Millisecond > limit {
			cnt := 0
			for _, rec := range wire {
				if m, ok := peer.ParseDatagram(rec.Data); ok && rec.Dir == 0 && m.Type == peer.CON && (m.Code == 1 || m.Code == 2) {
					cnt++
				}
			}
			if cnt < 2 {
				return evid.Failf("retx/never-retransmitted", sc, "the peer is silent, ticks come every <= ACK_TIMEOUT/2 for 2.5 x ACK_TIMEOUT, MAX_RETRANSMIT=%d, but only %d transmission(s) were made", sc.MaxRetransmit, cnt)
			}
		}
	}
	return nil
}

func wrapped(sc Scenario) bool {
	for _, q := range sc.Reqs {
		if q.Advance > 0 {
			return true
		}
	}
	return false
}

func b2i(b bool) int64 {
	if b {
		return 1
	}
	return 0
}

func gen(t *rapid.T) Scenario {
	sc := Scenario{
		AckTimeoutMs:  rapid.SampledFrom([]int{100, 500, 2000, 3000}).Draw(t, "ack"),
		MaxRetransmit: rapid.IntRange(0, 5).Draw(t, "maxre"),
		NStart:        rapid.IntRange(1, 3).Draw(t, "nstart"),
	}
	if rapid.IntRange(0, 2).Draw(t, "role") == 0 {
		sc.Role = "server"
	}
	sc.BadFirst = rapid.IntRange(0, 5).Draw(t, "badfirst") == 0
	sc.Blockwise = rapid.IntRange(0, 3).Draw(t, "blockwise") == 0
	ack := sc.AckTimeoutMs
	n := rapid.SampledFrom([]int{1, 1, 1, 2, 3}).Draw(t, "nreq")
	for i := 0; i < n; i++ {
		q := Request{
			Reaction:   rapid.SampledFrom([]string{"piggy", "piggy", "ack-sep", "ack-sep", "rst", "nothing"}).Draw(t, "reaction"),
			SepType:    rapid.IntRange(0, 1).Draw(t, "septype"),
			Loss:       rapid.SliceOfN(rapid.Bool(), 0, 7).Draw(t, "loss"),
			ReplyLost:  rapid.SliceOfN(rapid.Bool(), 0, 7).Draw(t, "replyLost"),
			DelayMs:    rapid.SampledFrom([]int{0, 1, 10, ack / 2, ack - 1, ack + 1}).Draw(t, "delay"),
			SepDelayMs: rapid.SampledFrom([]int{0, 5, ack, 3 * ack}).Draw(t, "sepdelay"),
		}
		if rapid.IntRange(0, 2).Draw(t, "post") == 0 {
			q.Payload = rapid.SampledFrom([]int{1, 9, 200}).Draw(t, "payload")
		}
		if sc.Blockwise && (q.Reaction == "piggy" || q.Reaction == "ack-sep") && rapid.IntRange(0, 2).Draw(t, "blocksq") > 0 {
			q.Blocks = rapid.IntRange(2, 3).Draw(t, "blocks")
		}
		q.DeadlineMs = rapid.SampledFrom([]int{ack / 2, 2 * ack, (sc.MaxRetransmit + 3) * ack, (sc.MaxRetransmit + 8) * ack}).Draw(t, "deadline")
		if q.DeadlineMs < 10 {
			q.DeadlineMs = 10
		}
		if i > 0 && rapid.IntRange(0, 1).Draw(t, "later") == 0 {
			q.StartMs = rapid.SampledFrom([]int{1, ack / 2, ack + 5, 2*ack + 5}).Draw(t, "start")
		}
		if q.StartMs > 0 && rapid.IntRange(0, 2).Draw(t, "wrap") == 0 {
			q.Advance = 65536 - rapid.IntRange(1, 4).Draw(t, "wrapback")
		}
		if rapid.IntRange(0, 5).Draw(t, "cancels") == 0 {
			q.CancelMs = q.StartMs + rapid.IntRange(1, q.DeadlineMs).Draw(t, "cancelAt")
		}
		sc.Reqs = append(sc.Reqs, q)
	}
	// ticks: dense around k x ACK_TIMEOUT, extra ticks, gaps
	set := map[int]bool{}
	horizon := (sc.MaxRetransmit + 9) * ack
	switch rapid.IntRange(0, 3).Draw(t, "tickstyle") {
	case 0: // around the multiples
		for k := 1; k <= sc.MaxRetransmit+9; k++ {
			for _, d := range []int{-1, 0, 1} {
				if rapid.IntRange(0, 3).Draw(t, "keep") > 0 {
					set[k*ack+d] = true
				}
			}
		}
	case 1: // regular period unrelated to ACK_TIMEOUT
		p := rapid.SampledFrom([]int{ack / 3, ack / 2, ack - 7, ack + 13, 2*ack + 1}).Draw(t, "period")
		p = max(p, 5)
		for x := p; x < horizon; x += p {
			set[x] = true
		}
	case 2: // random
		for _, x := range rapid.SliceOfN(rapid.IntRange(1, horizon), 0, 20).Draw(t, "rticks") {
			set[x] = true
		}
	case 3: // dense: every ACK_TIMEOUT/2 (liveness rule applies)
		for x := ack / 2; x < horizon; x += ack / 2 {
			set[x] = true
		}
	}
	for x := range set {
		if x > 0 {
			sc.Ticks = append(sc.Ticks, x)
		}
	}
	sort.Ints(sc.Ticks)
	if len(sc.Reqs) == 1 && rapid.IntRange(0, 3).Draw(t, "failwrite") == 0 {
		sc.FailWrite = rapid.IntRange(1, sc.MaxRetransmit+1).Draw(t, "failwriteat")
	}
	return sc
}

func nonTrivial(sc Scenario) bool {
	for _, q := range sc.Reqs {
		for _, l := range q.Loss {
			if l {
				return true
			}
		}
		for _, l := range q.ReplyLost {
			if l {
				return true
			}
		}
	}
	return false
}

func TestCheck(t *testing.T) {
	r := evid.New(t, "C06")
	eng := evid.RapidEngine("retx", evid.RapidOpts{Quick: 40000, Thorough: 600000, Crashy: true}, gen, func(sc Scenario) *evid.Failure {
		f := Exec(t, sc, r)
		if f == nil {
			key := ""
			if nonTrivial(sc) {
				b, _ := json.Marshal(sc)
				key = string(b)
			}
			cls := []string{fmt.Sprintf("retx/max=%d", sc.MaxRetransmit)}
			if wrapped(sc) {
				cls = append(cls, "retx/message-id-counter-wrapped-round-to-an-earlier-request")
			}
			for _, q := range sc.Reqs {
				cls = append(cls, "retx/reaction="+q.Reaction)
			}
			r.Case("retx", key, func() any { return sc }, cls...)
		}
		return f
	})
	r.Main(evid.Meta{
		Rule:        udpsrv.Rule + ". Others: ping: Conn.Ping(ctx) / Conn.AsyncPing + its cancel function against a peer that answers the k-th copy with RST or ACK after a delay, or never; same clauses for the copies of the ping (count, spacing, byte identity, none after the pong, the cancellation or the return), Ping succeeds iff a pong was delivered. retx: a client datagram connection in a synctest bubble issuing 1-3 confirmable GETs or POSTs (together, or one after the other while the earlier ones are still being retransmitted) with generated (ACK_TIMEOUT, MAX_RETRANSMIT 0-5, NSTART 1-3), per-transmission loss, a transmission whose socket write fails (single-request scenarios), peer reaction (piggy-backed, empty ACK then separate CON/NON response, RST, nothing), per-reply loss, reaction delays around ACK_TIMEOUT, in some multi-request scenarios the application draws 65536 minus 1-4 message IDs itself before a later request, so that the connection's counter comes round to the ID of an earlier, possibly still pending request (the wrap-around of a long-lived connection brought within reach), caller deadline/cancellation, and a housekeeping tick schedule (around k x ACK_TIMEOUT +-1 ms, unrelated periods, random, dense); oracle over the wire log with exact virtual timestamps: copies <= 1+MAX_RETRANSMIT, k-th copy not before t0 + k x ACK_TIMEOUT, byte-identical, none after ACK/RST delivery, cancellation or return; success only with the peer's own response; a response delivered before exhaustion and deadline must make the call succeed; dense ticks and silence produce a retransmission. Non-trivial = at least one lost transmission or lost reply; distinct by scenario",
		Assumptions: []string{"'before exhaustion' is read conservatively: delivered strictly before the first tick that follows transmission number 1+MAX_RETRANSMIT (for MAX_RETRANSMIT = 0: before the first tick) and at least 1 ms before the deadline/cancellation", "nothing is asserted about NSTART"},
		Floor:       300,
	}, eng, pingEngine(t, r), udpsrv.Engine(r, []string{"retx", "retx", "reconn"}, 8, 200))
}
