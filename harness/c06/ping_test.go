package c06

// Engine "ping": the other confirmable message a client API call puts on the wire - the CoAP ping
// (an empty confirmable message) of Conn.Ping / Conn.AsyncPing, which is retransmitted by the same
// machinery as a request. Same clauses: at most MAX_RETRANSMIT further copies, the k-th no earlier
// than k x ACK_TIMEOUT after the first, byte-identical, none after the pong (RST or ACK), after the
// caller's cancellation (the function AsyncPing returns) or after Ping has returned; Ping succeeds
// exactly if a pong was delivered before it returned.

import (
	"bytes"
	"context"
	"encoding/json"
	"fmt"
	"sort"
	"testing"
	"time"

	"github.com/plgd-dev/go-coap/v3/message/pool"
	"github.com/plgd-dev/go-coap/v3/options"
	"pgregory.net/rapid"

	"verif/bubble"
	"verif/endpoints"
	"verif/evid"
	"verif/memnet"
	"verif/peer"
	"verif/refcodec"
	"verif/roles"
)

type pingScenario struct {
	AckTimeoutMs  int    `json:"ackTimeoutMs"`
	MaxRetransmit int    `json:"maxRetransmit"`
	Async         bool   `json:"async"`     // AsyncPing + the returned cancel function, else Ping(ctx)
	EndMs         int    `json:"endMs"`     // Ping: context deadline; AsyncPing: when cancel is called (0 = never)
	Pong          string `json:"pong"`      // rst | ack | none
	PongAfter     int    `json:"pongAfter"` // the peer answers the k-th copy it receives (1-based)
	PongDelayMs   int    `json:"pongDelayMs"`
	Ticks         []int  `json:"ticks"`
	// Role: "" a client connection; "server" the connection a dtls.NewServer creates for an accepted peer
	Role string `json:"role,omitempty"`
}

func execPing(t *testing.T, sc pingScenario) *evid.Failure {
	ackT := time.Duration(sc.AckTimeoutMs) * time.Millisecond
	var wire []memnet.Record
	var returnedAt, cancelAt, pongAt time.Duration
	var pingErr error
	returned, ponged := false, false
	res := bubble.Run(t, 60*time.Second, nil, func() {
		link := memnet.NewPacketLink(memnet.LinkCfg{LatencyMs: 1})
		var tk endpoints.Ticker
		cli, stopRole, errRole := roles.Packet(sc.Role, link, bubble.Wait, []any{
			options.WithMessagePool(pool.New(8, 2048)), options.WithPeriodicRunner(tk.Runner()),
			options.WithBlockwise(false, 6, time.Second),
			options.WithTransmission(1, ackT, uint32(sc.MaxRetransmit)),
		}...)
		if errRole != nil {
			panic(errRole)
		}
		start := time.Now()
		var cancelPing func()
		if sc.Async {
			c, err := cli.AsyncPing(func() { pongAt, ponged = time.Since(start), true })
			if err != nil {
				pingErr, returned = err, true
			}
			cancelPing = c
		} else {
			go func() {
				ctx, cancel := context.WithTimeout(context.Background(), time.Duration(sc.EndMs)*time.Millisecond)
				defer cancel()
				err := cli.Ping(ctx)
				pingErr, returnedAt, returned = err, time.Since(start), true
			}()
		}
		seen, copies := 0, 0
		react := func() {
			sent := link.Sent(0)
			for ; seen < len(sent); seen++ {
				m, ok := peer.ParseDatagram(sent[seen])
				if !ok || m.Type != peer.CON || m.Code != 0 {
					continue
				}
				copies++
				if copies == sc.PongAfter && sc.Pong != "none" {
					typ := peer.RST
					if sc.Pong == "ack" {
						typ = peer.ACK
					}
					d := peer.Datagram(refcodec.Msg{Type: typ, MID: m.MID})
					time.AfterFunc(time.Duration(sc.PongDelayMs)*time.Millisecond, func() {
						if !sc.Async && !ponged {
							pongAt, ponged = time.Since(start), true
						}
						link.A.Inject(d)
					})
				}
			}
		}
		type ev struct {
			at   int
			kind string
		}
		var evs []ev
		for _, ms := range sc.Ticks {
			evs = append(evs, ev{ms, "tick"})
		}
		if sc.Async && sc.EndMs > 0 {
			evs = append(evs, ev{sc.EndMs, "cancel"})
		}
		sort.SliceStable(evs, func(a, b int) bool { return evs[a].at < evs[b].at })
		bubble.Wait()
		react()
		for _, e := range evs {
			if d := time.Duration(e.at)*time.Millisecond - time.Since(start); d > 0 {
				time.Sleep(d)
			}
			bubble.Wait()
			react()
			switch e.kind {
			case "tick":
				tk.Tick()
			case "cancel":
				if cancelPing != nil {
					cancelAt = time.Since(start)
					cancelPing()
				}
			}
			bubble.Wait()
			react()
		}
		if d := time.Duration(sc.EndMs+50)*time.Millisecond - time.Since(start); d > 0 && !sc.Async {
			time.Sleep(d)
		}
		bubble.Wait()
		wire = link.Log()
		_ = cli.Close()
		stopRole()
		bubble.Wait()
	})
	if res.Panic != "" {
		return evid.Failf("ping/panic", sc, "panic in scenario: %s", res.Panic)
	}
	if res.Deadlock {
		return evid.Failf("ping/deadlock", sc, "all goroutines blocked while the scenario was still running")
	}
	var copies []memnet.Record
	for _, rec := range wire {
		if rec.Dir != 0 {
			continue
		}
		if m, ok := peer.ParseDatagram(rec.Data); ok && m.Type == peer.CON && m.Code == 0 {
			copies = append(copies, rec)
		}
	}
	if !sc.Async {
		if !returned {
			return evid.Failf("ping/call-did-not-return", sc, "Ping has not returned 50 ms after its deadline (%d ms)", sc.EndMs)
		}
		if pingErr == nil && !(ponged && pongAt <= returnedAt) {
			return evid.Failf("ping/success-without-pong", sc, "Ping returned nil at %v although no pong had been delivered", returnedAt)
		}
		// (conservative about exhaustion: a pong that arrives within ACK_TIMEOUT of the first
		// transmission is in time whatever the ticks do)
		if pingErr != nil && ponged && pongAt+2*time.Millisecond < returnedAt && pongAt < time.Duration(sc.EndMs)*time.Millisecond-2*time.Millisecond && pongAt < ackT-2*time.Millisecond {
			return evid.Failf("ping/pong-delivered-but-call-failed", sc, "a pong was delivered at %v, Ping returned %v at %v", pongAt, pingErr, returnedAt)
		}
	} else if returned && pingErr != nil {
		return evid.Failf("ping/async-refused", sc, "AsyncPing failed: %v", pingErr)
	}
	if len(copies) == 0 {
		return evid.Failf("ping/not-sent", sc, "no ping on the wire")
	}
	if len(copies) > 1+sc.MaxRetransmit {
		return evid.Failf("ping/too-many-copies", sc, "%d transmissions of the ping, MAX_RETRANSMIT is %d", len(copies), sc.MaxRetransmit)
	}
	stop, why := time.Duration(1<<62), ""
	if !sc.Async && returned {
		stop, why = returnedAt, "Ping returned"
	}
	if sc.Async && cancelAt > 0 {
		stop, why = cancelAt, "the cancel function of AsyncPing was called"
	}
	if ponged && pongAt < stop {
		stop, why = pongAt+time.Millisecond, "the pong was delivered" // (+ the link latency of the injected datagram)
	}
	t0 := copies[0].T
	for k, c := range copies {
		if !bytes.Equal(c.Data, copies[0].Data) {
			return evid.Failf("ping/copies-differ", sc, "transmission %d of the ping differs from the first: %x vs %x", k, c.Data, copies[0].Data)
		}
		if k > 0 && c.T < t0+time.Duration(k)*ackT {
			return evid.Failf("ping/too-early", sc, "transmission %d of the ping at %v, earlier than first (%v) + %d x ACK_TIMEOUT (%v)", k, c.T, t0, k, ackT)
		}
		if c.T > stop {
			return evid.Failf("ping/copy-after-end", sc, "transmission %d of the ping at %v although %s at %v", k, c.T, why, stop)
		}
	}
	return nil
}

func genPing(t *rapid.T) pingScenario {
	ack := rapid.SampledFrom([]int{100, 500, 2000}).Draw(t, "ack")
	sc := pingScenario{AckTimeoutMs: ack, MaxRetransmit: rapid.IntRange(0, 4).Draw(t, "maxre"), Async: rapid.Bool().Draw(t, "async"),
		Pong: rapid.SampledFrom([]string{"rst", "ack", "none", "none"}).Draw(t, "pong"), PongAfter: rapid.IntRange(1, 4).Draw(t, "pongafter"),
		PongDelayMs: rapid.SampledFrom([]int{0, 1, ack / 2, ack + 1}).Draw(t, "pongdelay")}
	if rapid.IntRange(0, 2).Draw(t, "role") == 0 {
		sc.Role = "server"
	}
	sc.EndMs = rapid.SampledFrom([]int{ack / 2, ack + 10, 2*ack + 10, (sc.MaxRetransmit + 3) * ack}).Draw(t, "end")
	if sc.Async && rapid.IntRange(0, 3).Draw(t, "nocancel") == 0 {
		sc.EndMs = 0
	}
	horizon := (sc.MaxRetransmit + 5) * ack
	set := map[int]bool{}
	for k := 1; k <= sc.MaxRetransmit+4; k++ {
		for _, d := range []int{-1, 0, 1, ack / 2} {
			if rapid.IntRange(0, 2).Draw(t, "keep") > 0 {
				set[k*ack+d] = true
			}
		}
	}
	for x := range set {
		if x > 0 && x < horizon {
			sc.Ticks = append(sc.Ticks, x)
		}
	}
	sort.Ints(sc.Ticks)
	return sc
}

func pingEngine(t *testing.T, r *evid.Run) evid.Engine {
	return evid.RapidEngine("ping", evid.RapidOpts{Quick: 6000, Thorough: 150000, Crashy: true}, genPing, func(sc pingScenario) *evid.Failure {
		f := execPing(t, sc)
		if f == nil {
			key := ""
			if sc.MaxRetransmit > 0 && len(sc.Ticks) > 1 {
				b, _ := json.Marshal(sc)
				key = string(b)
			}
			cls := []string{"ping/sync"}
			if sc.Async {
				cls = []string{"ping/async"}
			}
			r.Case("ping", key, func() any { return sc }, cls...)
		}
		_ = fmt.Sprint
		return f
	})
}
