// C19 — Block option value codec is the RFC 7959 section 2.2 mapping on its whole domain.
package c19

import (
	"bytes"
	"context"
	"encoding/json"
	"fmt"
	"math"
	"runtime"
	"sync"
	"testing"
	"time"

	"github.com/plgd-dev/go-coap/v3/message"
	"github.com/plgd-dev/go-coap/v3/message/codes"
	"github.com/plgd-dev/go-coap/v3/message/pool"
	"github.com/plgd-dev/go-coap/v3/net/blockwise"
	"github.com/plgd-dev/go-coap/v3/net/responsewriter"

	"verif/evid"
)

// ---- specification, written from RFC 7959 section 2.2 -------------------------------
//
// A Block option value is an unsigned integer of 0-3 bytes, i.e. 0 <= v < 2^24:
//   SZX = v & 7, M = (v >> 3) & 1, NUM = v >> 4   (NUM < 2^20 follows from v < 2^24).
// Block size = 2^(SZX+4) for SZX 0..6; SZX 7 is BERT (RFC 8323 section 6): 1024-byte units.

type triple struct {
	SZX  int   `json:"szx"`
	Num  int64 `json:"num"`
	More bool  `json:"more"`
}

func specDecode(v uint64) (triple, bool) {
	if v >= 1<<24 {
		return triple{}, false
	}
	return triple{SZX: int(v & 7), Num: int64(v >> 4), More: v&8 != 0}, true
}

func specEncode(t triple) (uint32, bool) {
	if t.SZX < 0 || t.SZX > 7 || t.Num < 0 || t.Num >= 1<<20 {
		return 0, false
	}
	v := uint32(t.Num)<<4 | uint32(t.SZX)
	if t.More {
		v |= 8
	}
	return v, true
}

func specSize(s int) int64 {
	switch {
	case s >= 0 && s <= 6:
		return 1 << (uint(s) + 4)
	case s == 7:
		return 1024
	}
	return -1
}

// ---- executors ----------------------------------------------------------------------

type decCase struct {
	V uint32 `json:"v"`
}

func execDecode(c decCase) *evid.Failure {
	want, ok := specDecode(uint64(c.V))
	szx, num, more, err := blockwise.DecodeBlockOption(c.V)
	if !ok {
		if err == nil {
			return evid.Failf("decode/out-of-domain-accepted", c, "DecodeBlockOption(%#x) outside the 24-bit domain returned (%d,%d,%v) without error", c.V, szx, num, more)
		}
		return nil
	}
	if err != nil {
		return evid.Failf("decode/in-domain-refused", c, "DecodeBlockOption(%#x) is in the 24-bit domain (want szx=%d num=%d more=%v) but was refused: %v", c.V, want.SZX, want.Num, want.More, err)
	}
	if int(szx) != want.SZX || num != want.Num || more != want.More {
		return evid.Failf("decode/wrong-triple", c, "DecodeBlockOption(%#x) = (%d,%d,%v), RFC 7959 says (%d,%d,%v)", c.V, szx, num, more, want.SZX, want.Num, want.More)
	}
	// inverse direction
	back, err := blockwise.EncodeBlockOption(szx, num, more)
	if err != nil || back != c.V {
		return evid.Failf("decode/not-inverse", c, "EncodeBlockOption(DecodeBlockOption(%#x)) = %#x, %v", c.V, back, err)
	}
	return nil
}

type encCase struct {
	SZX  int   `json:"szx"` // 0..255
	Num  int64 `json:"num"`
	More bool  `json:"more"`
}

func execEncode(c encCase) *evid.Failure {
	want, ok := specEncode(triple{c.SZX, c.Num, c.More})
	got, err := blockwise.EncodeBlockOption(blockwise.SZX(c.SZX), c.Num, c.More)
	if !ok {
		if err == nil {
			return evid.Failf("encode/out-of-domain-accepted", c, "EncodeBlockOption(%d,%d,%v) is outside the domain but returned %#x without error", c.SZX, c.Num, c.More, got)
		}
		return nil
	}
	if err != nil {
		return evid.Failf("encode/in-domain-refused", c, "EncodeBlockOption(%d,%d,%v) is in the domain (want %#x) but was refused: %v", c.SZX, c.Num, c.More, want, err)
	}
	if got != want {
		return evid.Failf("encode/wrong-value", c, "EncodeBlockOption(%d,%d,%v) = %#x, RFC 7959 says %#x", c.SZX, c.Num, c.More, got, want)
	}
	szx, num, more, err := blockwise.DecodeBlockOption(got)
	if err != nil || int(szx) != c.SZX || num != c.Num || more != c.More {
		return evid.Failf("encode/not-inverse", c, "DecodeBlockOption(EncodeBlockOption(%d,%d,%v)) = (%d,%d,%v), %v", c.SZX, c.Num, c.More, szx, num, more, err)
	}
	return nil
}

type sizeCase struct {
	SZX int `json:"szx"`
}

func execSize(c sizeCase) *evid.Failure {
	if got, want := blockwise.SZX(c.SZX).Size(), specSize(c.SZX); got != want {
		return evid.Failf("size/wrong", c, "SZX(%d).Size() = %d, want %d", c.SZX, got, want)
	}
	return nil
}

// BERT buffer sizing through the public block-wise API.
type bertCase struct {
	Max  uint32 `json:"max"`  // maximum message size, >= 1152
	Body int    `json:"body"` // body length
	Dir  string `json:"dir"`  // "up": BlockWise.Do (Block1); "down": BlockWise.Handle of a GET (Block2)
	// Prev > 0: the same BlockWise has carried out a BERT operation (direction PrevDir, a body of
	// several blocks) with this other maximum message size before; Do, WriteMessage and Handle take
	// the maximum message size per call
	Prev    uint32 `json:"prev,omitempty"`
	PrevDir string `json:"prevDir,omitempty"`
}

type poolClient struct{ p *pool.Pool }

func (c poolClient) AcquireMessage(ctx context.Context) *pool.Message { return c.p.AcquireMessage(ctx) }
func (c poolClient) ReleaseMessage(m *pool.Message)                   { c.p.ReleaseMessage(m) }

func body(n int) []byte {
	b := make([]byte, n)
	x := uint32(n)*2654435761 + 12345
	for i := range b {
		x = x*1664525 + 1013904223
		b[i] = byte(x >> 24)
	}
	return b
}

// bertFirstBlock runs one BERT operation on bw and returns the first block it produced.
func bertFirstBlock(bw *blockwise.BlockWise[poolClient], cc poolClient, dir string, max uint32, full []byte, tok byte) (gotBody []byte, blockVal uint32, errOpt error) {
	switch dir {
	case "up":
		req := cc.AcquireMessage(context.Background())
		req.SetCode(codes.POST)
		req.SetToken(message.Token{1, 2, 3, tok})
		req.MustSetPath("/x")
		req.SetBody(bytes.NewReader(full))
		_, _ = bw.Do(req, blockwise.SZXBERT, max, func(r *pool.Message) (*pool.Message, error) {
			gotBody, _ = r.ReadBody()
			blockVal, errOpt = r.GetOptionUint32(message.Block1)
			return nil, fmt.Errorf("stop")
		})
	case "down":
		req := cc.AcquireMessage(context.Background())
		req.SetCode(codes.GET)
		req.SetToken(message.Token{9, 8, tok})
		req.MustSetPath("/x")
		w := responsewriter.New(cc.AcquireMessage(context.Background()), cc)
		bw.Handle(w, req, blockwise.SZXBERT, max, func(w *responsewriter.ResponseWriter[poolClient], r *pool.Message) {
			_ = w.SetResponse(codes.Content, message.AppOctets, bytes.NewReader(full))
			w.Message().SetToken(r.Token()) // what the connection does for every response
		})
		gotBody, _ = w.Message().ReadBody()
		blockVal, errOpt = w.Message().GetOptionUint32(message.Block2)
	}
	return gotBody, blockVal, errOpt
}

func execBert(c bertCase) *evid.Failure {
	cc := poolClient{pool.New(8, 2048)}
	bw := blockwise.New(cc, time.Minute, func(error) {}, nil)
	if c.Prev > 0 {
		_, _, _ = bertFirstBlock(bw, cc, c.PrevDir, c.Prev, body(2*int(c.Prev/1024*1024)+3), 1)
	}
	full := body(c.Body)
	unit := int64(c.Max) / 1024 * 1024
	wantLen := int64(c.Body)
	wantMore := false
	if wantLen > unit {
		wantLen, wantMore = unit, true
	}
	gotBody, blockVal, errOpt := bertFirstBlock(bw, cc, c.Dir, c.Max, full, 2)
	switch c.Dir {
	case "up":
		if int64(c.Body) <= 1024 {
			// fits in one 1024-byte unit: sent as it is, no Block1 required
			if !bytes.Equal(gotBody, full) {
				return evid.Failf("bert/up-small-body", c, "body of %d bytes not passed through unchanged (got %d bytes)", c.Body, len(gotBody))
			}
			return nil
		}
	case "down":
		if int64(c.Body) < 1024 {
			if !bytes.Equal(gotBody, full) {
				return evid.Failf("bert/down-small-body", c, "body of %d bytes not passed through unchanged (got %d bytes)", c.Body, len(gotBody))
			}
			return nil
		}
	}
	if int64(len(gotBody)) > int64(c.Max) {
		return evid.Failf("bert/block-exceeds-max", c, "first BERT block has %d bytes, maximum message size is %d", len(gotBody), c.Max)
	}
	if c.Max < 1152 {
		// below the size RFC 8323 requires for BERT only the bound itself is asserted: a block is a
		// whole multiple of 1024 that does not exceed the maximum message size
		if len(gotBody)%1024 != 0 {
			return evid.Failf("bert/not-multiple", c, "BERT block has %d bytes, not a multiple of 1024", len(gotBody))
		}
		return nil
	}
	if wantMore && len(gotBody)%1024 != 0 {
		return evid.Failf("bert/not-multiple", c, "non-final BERT block has %d bytes, not a multiple of 1024", len(gotBody))
	}
	if int64(len(gotBody)) != wantLen || !bytes.Equal(gotBody, full[:wantLen]) {
		return evid.Failf("bert/wrong-block", c, "first BERT block has %d bytes, want the first %d bytes of the body (floor(max/1024)*1024 = %d)", len(gotBody), wantLen, unit)
	}
	if errOpt != nil {
		return evid.Failf("bert/no-block-option", c, "first block carries no block option: %v", errOpt)
	}
	szx, num, more, err := blockwise.DecodeBlockOption(blockVal)
	if err != nil || szx != blockwise.SZXBERT || num != 0 {
		return evid.Failf("bert/wrong-option", c, "first block option = (%d,%d,%v) err=%v, want szx 7 num 0", szx, num, more, err)
	}
	if c.Dir == "down" && more != wantMore {
		return evid.Failf("bert/wrong-more", c, "first Block2 more=%v, want %v", more, wantMore)
	}
	return nil
}

// ---- search ---------------------------------------------------------------------------

func replayOf[S any](name string, exec func(S) *evid.Failure) func(json.RawMessage) *evid.Failure {
	return func(raw json.RawMessage) *evid.Failure {
		var s S
		if err := json.Unmarshal(raw, &s); err != nil {
			return &evid.Failure{Engine: name, Key: "replay/decode", Msg: err.Error()}
		}
		return evid.SafeExec(name, exec, s)
	}
}

func parallelRange(lo, hi uint64, f func(lo, hi uint64)) {
	n := uint64(runtime.GOMAXPROCS(0))
	var wg sync.WaitGroup
	step := (hi - lo + n - 1) / n
	for a := lo; a < hi; a += step {
		b := min(a+step, hi)
		wg.Add(1)
		go func() { defer wg.Done(); f(a, b) }()
	}
	wg.Wait()
}

func TestCheck(t *testing.T) {
	r := evid.New(t, "C19")
	nontrivialDec := func(v uint64) bool { // block number >= 2^16 or at a range edge
		num := v >> 4
		return v < 1<<24 && (num >= 1<<16 || num == 0 || num == 1<<20-1) || v == 1<<24 || v == 1<<24-1 || v == math.MaxUint32
	}
	decode := evid.Engine{Name: "decode", Replay: replayOf("decode", execDecode), Search: func(r *evid.Run) {
		hi := uint64(1 << 24)
		if r.Thorough() {
			hi = 1 << 32
		}
		parallelRange(0, hi, func(a, b uint64) {
			var nt int64
			for v := a; v < b; v++ {
				if f := evid.SafeExec("decode", execDecode, decCase{uint32(v)}); f != nil {
					r.Fail(f)
					break
				}
				if nontrivialDec(v) {
					nt++
				}
			}
			r.Eval(int64(b - a))
			r.AddDistinct(nt)
		})
		if !r.Thorough() {
			// out-of-domain samples beyond 2^24: edges and a stride through the 32-bit space
			var n int64
			for _, v := range []uint64{1 << 24, 1<<24 + 1, 1<<24 + 8, 1<<25 - 1, 1 << 28, 1<<31 - 1, 1 << 31, math.MaxUint32 - 1, math.MaxUint32} {
				r.Fail(evid.SafeExec("decode", execDecode, decCase{uint32(v)}))
				n++
			}
			for v := uint64(1 << 24); v < 1<<32; v += 65521 {
				r.Fail(evid.SafeExec("decode", execDecode, decCase{uint32(v)}))
				n++
			}
			r.Eval(n)
			r.AddDistinct(n)
		}
		r.Sample("decode", decCase{0xfffff8})
		r.Sample("decode", decCase{0x100000})
		r.Class("decode/values", int64(hi))
	}}
	encode := evid.Engine{Name: "encode", Replay: replayOf("encode", execEncode), Search: func(r *evid.Run) {
		parallelRange(0, 1<<20, func(a, b uint64) {
			var nt int64
			for num := a; num < b; num++ {
				for szx := 0; szx < 8; szx++ {
					for _, more := range []bool{false, true} {
						if f := evid.SafeExec("encode", execEncode, encCase{szx, int64(num), more}); f != nil {
							r.Fail(f)
							return
						}
					}
				}
				if num >= 1<<16 || num == 0 {
					nt += 16
				}
			}
			r.Eval(int64(b-a) * 16)
			r.AddDistinct(nt)
		})
		// outside the domain
		var n int64
		nums := []int64{-1, -2, math.MinInt64, 1 << 20, 1<<20 + 1, 1<<20 + 7, 1 << 24, 1 << 28, 1<<28 + 5, 1 << 32, 1<<32 + 1, 1 << 36, 1 << 60, math.MaxInt64, math.MaxInt64 - 1, 0, 1, 1<<20 - 1, 1<<20 - 8, 0xffff7, 0xffff8}
		for szx := 0; szx < 256; szx++ {
			for _, num := range nums {
				for _, more := range []bool{false, true} {
					r.Fail(evid.SafeExec("encode", execEncode, encCase{szx, num, more}))
					n++
				}
			}
		}
		r.Eval(n)
		r.AddDistinct(n)
		r.Sample("encode", encCase{7, 1<<20 - 1, true})
		r.Sample("encode", encCase{8, 0, false})
		r.Sample("encode", encCase{0, 1 << 20, false})
	}}
	size := evid.Engine{Name: "size", Replay: replayOf("size", execSize), Search: func(r *evid.Run) {
		for s := 0; s < 256; s++ {
			r.Fail(evid.SafeExec("size", execSize, sizeCase{s}))
		}
		r.Eval(256)
		r.AddDistinct(256)
		r.Sample("size", sizeCase{7})
	}}
	bert := evid.Engine{Name: "bert", Replay: replayOf("bert", execBert), Search: func(r *evid.Run) {
		// every maximum message size 1152..70000 in the thorough tier, all 1024-boundaries +-1 and a stride in quick
		var maxes []uint32
		if r.Thorough() {
			for m := uint32(0); m <= 70000; m++ {
				maxes = append(maxes, m)
			}
		} else {
			seen := map[uint32]bool{}
			add := func(m uint32) {
				if m <= 70000 && !seen[m] {
					seen[m] = true
					maxes = append(maxes, m)
				}
			}
			for k := uint32(1); k <= 68; k++ {
				add(k*1024 - 1)
				add(k * 1024)
				add(k*1024 + 1)
			}
			for m := uint32(1152); m <= 70000; m += 97 {
				add(m)
			}
			add(1152)
			add(70000)
			for _, m := range []uint32{0, 1, 15, 16, 512, 1000, 1023, 1024, 1025, 1100, 1151} {
				add(m)
			}
		}
		var mu sync.Mutex
		idx := 0
		var wg sync.WaitGroup
		for w := 0; w < runtime.GOMAXPROCS(0); w++ {
			wg.Add(1)
			go func() {
				defer wg.Done()
				for {
					mu.Lock()
					i := idx
					idx++
					mu.Unlock()
					if i >= len(maxes) {
						return
					}
					m := maxes[i]
					unit := int(m) / 1024 * 1024
					for _, dir := range []string{"up", "down"} {
						for _, b := range []int{1, 1023, 1024, 1025, unit - 1, unit, unit + 1, unit + 1024, 2*unit + 3} {
							if b < 1 || (m < 1152 && b <= 1024) {
								continue
							}
							c := bertCase{Max: m, Body: b, Dir: dir}
							if f := evid.SafeExec("bert", execBert, c); f != nil {
								r.Fail(f)
								return
							}
							r.Eval(1)
							if b > unit {
								r.AddDistinct(1)
							}
						}
						// the same engine after a BERT operation with another maximum message size
						if m >= 1152 {
							for _, prev := range []uint32{1152, 5*1024 + 7, 65536 + 500} {
								if prev/1024 == m/1024 {
									continue
								}
								for _, pd := range []string{"up", "down"} {
									c := bertCase{Max: m, Body: 2*unit + 3, Dir: dir, Prev: prev, PrevDir: pd}
									if f := evid.SafeExec("bert", execBert, c); f != nil {
										r.Fail(f)
										return
									}
									r.Eval(1)
									r.AddDistinct(1)
									r.Class("bert/after-another-maximum-message-size", 1)
								}
							}
						}
					}
				}
			}()
		}
		wg.Wait()
		r.Class("bert/max-message-sizes", int64(len(maxes)))
		r.Sample("bert", bertCase{Max: 1152, Body: 3000, Dir: "up"})
		r.Sample("bert", bertCase{Max: 65536 + 500, Body: 200000, Dir: "down"})
		r.Sample("bert", bertCase{Max: 2048, Body: 4099, Dir: "up", Prev: 65536 + 500, PrevDir: "down"})
	}}
	r.SetExhaustive()
	r.Main(evid.Meta{
		Rule:        "exhaustive enumeration: every 24-bit option value (every 32-bit decoder input in the thorough tier) through DecodeBlockOption, every (szx 0-7, num < 2^20, more) triple and a grid of out-of-domain arguments through EncodeBlockOption, SZX.Size for 0-255, first BERT block for max message sizes 0-70000 (below 1152, where RFC 8323 does not allow BERT, only the bound: a multiple of 1024 not above the maximum) through BlockWise.Do/Handle, on a fresh engine and on one that has carried out a BERT operation with another maximum message size before; oracle = specification functions written from RFC 7959 2.2; non-trivial = block number >= 2^16 or at a domain edge / out-of-domain argument / BERT body larger than one block; all enumerated cases are distinct by construction",
		Assumptions: []string{"the specification functions in c19_test.go transcribe RFC 7959 section 2.2 correctly", "BERT sizing is observed through BlockWise.Do (upload) and BlockWise.Handle of a GET (download), first block only"},
		Floor:       1000,
	}, decode, encode, size, bert)
}
