package c18

import (
	"time"

	"github.com/plgd-dev/go-coap/v3/net/monitor/inactivity"
)

// newKeepAliveMonitor wires a KeepAlive to an inactivity monitor the way options.WithKeepAlive does.
func newKeepAliveMonitor[C inactivity.Conn](period time.Duration, ka *inactivity.KeepAlive[C]) *inactivity.Monitor[C] {
	return kaWire(period, ka)
}
