// C18 — inactivity and keep-alive monitors close exactly the dead connections.
package c18

import (
	"context"
	"encoding/json"
	"errors"
	"fmt"
	"math"
	"os"
	"sync"
	"testing"
	"time"

	"github.com/plgd-dev/go-coap/v3/message/pool"
	"github.com/plgd-dev/go-coap/v3/net/monitor/inactivity"
	"github.com/plgd-dev/go-coap/v3/net/responsewriter"
	"github.com/plgd-dev/go-coap/v3/options"
	"github.com/plgd-dev/go-coap/v3/tcp"
	tcpClient "github.com/plgd-dev/go-coap/v3/tcp/client"
	"github.com/plgd-dev/go-coap/v3/udp"
	udpClient "github.com/plgd-dev/go-coap/v3/udp/client"
	"pgregory.net/rapid"

	"verif/bubble"
	"verif/endpoints"
	"verif/evid"
	"verif/memnet"
	"verif/peer"
	"verif/refcodec"
	"verif/udpsrv"
	"verif/wire"
)

type Ev struct {
	Kind  string `json:"kind"` // msg | peerping | emptyack | emptymsg | pong | tick | failtick
	GapMs int    `json:"gapMs"`
	Back  int    `json:"back,omitempty"` // pong: 0 = the current ping, 1 = the one before, ...
}

type Scenario struct {
	Target     string `json:"target"` // raw-inact | raw-ka | udp-inact | udp-ka | tcp-inact | tcp-ka
	PeriodMs   int    `json:"periodMs"`
	MaxRetries int    `json:"maxRetries"`
	Events     []Ev   `json:"events"`
	// HoldHandler (connections): receive queue of size 0 and a handler that does not return before the
	// end of the scenario: every later request stays in the receiver, which has taken note of it all
	// the same ("a message was received")
	HoldHandler bool `json:"holdHandler,omitempty"`
	// Never: the monitor is configured with the largest duration there is (the usual way to say
	// "no timeout"); the gaps of the events are those of PeriodMs. Nothing is ever closed or pinged.
	Never bool `json:"never,omitempty"`
	// AgeDays: the connection (the monitor) is this many days old when the examined events begin: it
	// was created, nothing ticked for that long, then a message arrived - and from there the events run
	AgeDays int `json:"ageDays,omitempty"`
}

type fakeConn struct{ ctx context.Context }

func (f *fakeConn) Context() context.Context { return f.ctx }
func (f *fakeConn) Close() error             { return nil }

// subject is the thing under test behind a uniform event interface.
type subject struct {
	tick   func()
	recv   func()
	pong   func(pingIdx int) bool // answer ping number pingIdx (0-based, in sending order)
	pings  func() int             // pings put on the wire so far
	closed func() bool
	stop   func()
	// failNext makes the next ping the monitor tries to send fail in the write (nothing reaches the wire)
	failNext func(on bool)
}

type histRec struct {
	kind       string
	t          time.Duration
	pingsSoFar int // pings on the wire after the event
	closedNow  bool
	pongIdx    int
	failed     bool // a tick whose ping, if one was attempted, failed in the write
}

func Exec(t *testing.T, sc Scenario, r *evid.Run) *evid.Failure {
	period := time.Duration(sc.PeriodMs) * time.Millisecond
	if sc.Never {
		period = time.Duration(math.MaxInt64)
	}
	kaTimeout := period
	if !sc.Never {
		kaTimeout = period * time.Duration(sc.MaxRetries+1)
	}
	isKA := sc.Target == "raw-ka" || sc.Target == "udp-ka" || sc.Target == "tcp-ka"
	var hist []histRec
	var created time.Duration
	res := bubble.Run(t, 60*time.Second, nil, func() {
		start := time.Now()
		var mu sync.Mutex
		closedFlag := false
		markClosed := func() { mu.Lock(); closedFlag = true; mu.Unlock() }
		isClosed := func() bool { mu.Lock(); defer mu.Unlock(); return closedFlag }
		var s subject
		recvKind := "msg"
		switch sc.Target {
		case "raw-inact":
			fc := &fakeConn{context.Background()}
			m := inactivity.New(period, func(*fakeConn) { markClosed() })
			s = subject{tick: func() {
				if !isClosed() {
					m.CheckInactivity(time.Now(), fc)
				}
			}, recv: m.Notify, pong: func(int) bool { return false }, pings: func() int { return 0 }, closed: isClosed, stop: func() {}, failNext: func(bool) {}}
		case "raw-ka":
			fc := &fakeConn{context.Background()}
			var pongs []func()
			cancelled := map[int]bool{}
			var m *inactivity.Monitor[*fakeConn]
			failPing := false
			ka := inactivity.NewKeepAlive(uint32(sc.MaxRetries), func(*fakeConn) { markClosed() }, func(cc *fakeConn, receivePong func()) (func(), error) {
				if failPing {
					failPing = false
					return nil, errors.New("write failed")
				}
				idx := len(pongs)
				pongs = append(pongs, receivePong)
				return func() { cancelled[idx] = true }, nil
			})
			m = newKeepAliveMonitor(period, ka)
			s = subject{tick: func() {
				if !isClosed() {
					m.CheckInactivity(time.Now(), fc)
				}
			}, recv: m.Notify, pong: func(i int) bool {
				if i < 0 || i >= len(pongs) {
					return false
				}
				// a pong is a received message; the connection's ping handler runs only while the ping is not cancelled
				m.Notify()
				if !cancelled[i] {
					pongs[i]()
				}
				return true
			}, pings: func() int { return len(pongs) }, closed: isClosed, stop: func() {}, failNext: func(on bool) { failPing = on }}
		default:
			var tk endpoints.Ticker
			var w wire.Wire
			var pingsSeen []refcodec.Msg
			var closeConn func()
			var failNext func(on bool)
			holdGate := make(chan struct{})
			queueSize := 16
			if sc.HoldHandler {
				queueSize = 0
			}
			hold := func(r *pool.Message) {
				// only a request is held (empty acknowledgements and resets reach the handler too)
				if sc.HoldHandler && r.Code() >= 1 && r.Code() <= 31 {
					<-holdGate
				}
			}
			var done <-chan struct{}
			nextMID := 50000
			scan := func() {
				for _, m := range w.FromLib() {
					if w.Datagram() && m.Type == peer.CON && m.Code == 0 {
						pingsSeen = append(pingsSeen, m)
					}
					if !w.Datagram() && m.Code == 226 {
						pingsSeen = append(pingsSeen, m)
					}
				}
			}
			if sc.Target == "udp-inact" || sc.Target == "udp-ka" {
				link := memnet.NewPacketLink(memnet.LinkCfg{LatencyMs: 1})
				onInactive := func(cc *udpClient.Conn) { markClosed(); _ = cc.Close() }
				var mon udp.Option = options.WithInactivityMonitor(period, onInactive)
				if isKA {
					mon = options.WithKeepAlive(uint32(sc.MaxRetries), kaTimeout, onInactive)
				}
				cc := endpoints.UDP(link.A, []udp.Option{
					options.WithMessagePool(pool.New(8, 2048)), options.WithPeriodicRunner(tk.Runner()),
					options.WithBlockwise(false, 6, time.Second), mon,
					options.WithTransmission(1, time.Hour, 10),
					options.WithErrors(func(e error) {
						if os.Getenv("VERIF_DEBUG") != "" {
							fmt.Println("  conn error:", e)
						}
					}),
					options.WithHandlerFunc(udpClient.HandlerFunc(func(_ *responsewriter.ResponseWriter[*udpClient.Conn], r *pool.Message) { hold(r) })),
					options.WithReceivedMessageQueueSize(queueSize),
				}...)
				w = wire.UDP(link)
				closeConn = func() { _ = cc.Close() }
				done = cc.Done()
				failNext = func(on bool) { link.A.FailNextWrites(map[bool]int{true: 1, false: 0}[on]) }
			} else {
				link := memnet.NewStreamLink(memnet.StreamCfg{})
				onInactive := func(cc *tcpClient.Conn) { markClosed(); _ = cc.Close() }
				var mon tcp.Option = options.WithInactivityMonitor(period, onInactive)
				if isKA {
					mon = options.WithKeepAlive(uint32(sc.MaxRetries), kaTimeout, onInactive)
				}
				cc, err := endpoints.TCP(link.A, []tcp.Option{
					options.WithMessagePool(pool.New(8, 2048)), options.WithPeriodicRunner(tk.Runner()),
					options.WithBlockwise(false, 6, time.Second), mon, options.WithCloseSocket(),
					options.WithHandlerFunc(tcpClient.HandlerFunc(func(_ *responsewriter.ResponseWriter[*tcpClient.Conn], r *pool.Message) { hold(r) })),
					options.WithReceivedMessageQueueSize(queueSize),
				}...)
				if err != nil {
					panic(err)
				}
				w = wire.TCP(link)
				closeConn = func() { _ = cc.Close(); _ = link.B.Close() }
				done = cc.Done()
				failNext = func(on bool) { link.A.FailNextWrites(map[bool]int{true: 1, false: 0}[on]) }
			}
			s = subject{
				tick: func() { tk.Tick(); bubble.Wait(); scan() },
				recv: func() {
					// any message from the peer counts: a request, a CoAP ping, a bare acknowledgement / a signal
					nextMID++
					var m refcodec.Msg
					switch recvKind {
					case "peerping":
						m = refcodec.Msg{Type: peer.CON, MID: nextMID & 0xffff}
						if !w.Datagram() {
							m = refcodec.Msg{Code: 226, Token: []byte{0x18, byte(nextMID)}}
						}
					case "emptymsg":
						// stream: an Empty message (code 0.00), which RFC 8323 3.4 tells the receiver to
						// ignore and some peers send as their keep-alive; datagram: a reset that answers
						// nothing of ours. Ignored or not, it is a message received from the peer.
						m = refcodec.Msg{Type: peer.RST, MID: nextMID & 0xffff}
						if !w.Datagram() {
							m = refcodec.Msg{}
						}
					case "emptyack":
						m = refcodec.Msg{Type: peer.ACK, MID: nextMID & 0xffff}
						if !w.Datagram() {
							m = refcodec.Msg{Code: 225, Token: []byte{0x18, byte(nextMID)}}
						}
					default:
						m = refcodec.Msg{Type: peer.NON, MID: nextMID & 0xffff, Code: 2, Token: []byte{0x18, byte(nextMID)}, Opts: peer.PathOpts("x")}
					}
					w.ToLib(m)
					bubble.Wait()
					_ = w.FromLib() // the answer to the peer's ping is not one of our pings
				},
				pong: func(i int) bool {
					scan()
					if i < 0 || i >= len(pingsSeen) {
						return false
					}
					p := pingsSeen[i]
					if w.Datagram() {
						w.ToLib(refcodec.Msg{Type: peer.RST, MID: p.MID})
					} else {
						w.ToLib(refcodec.Msg{Code: 227, Token: p.Token})
					}
					bubble.Wait()
					scan()
					return true
				},
				pings: func() int { scan(); return len(pingsSeen) },
				// closed by the monitor's callback - or by anything else in the library (a connection
				// that closes itself without the monitor having decided so is judged by the same rules)
				closed: func() bool {
					if isClosed() {
						return true
					}
					select {
					case <-done:
						return true
					default:
						return false
					}
				},
				stop:     func() { close(holdGate); closeConn() },
				failNext: func(on bool) { failNext(on) },
			}
			bubble.Wait()
			scan()
		}
		if sc.AgeDays > 0 {
			time.Sleep(time.Duration(sc.AgeDays) * 24 * time.Hour)
			bubble.Wait()
			recvKind = "emptyack" // (not a request: HoldHandler scenarios count those)
			s.recv()
			bubble.Wait()
		}
		created = time.Since(start)
		for _, e := range sc.Events {
			if s.closed() {
				break
			}
			time.Sleep(time.Duration(e.GapMs) * time.Millisecond)
			bubble.Wait()
			rec := histRec{kind: e.Kind, t: time.Since(start)}
			switch e.Kind {
			case "tick":
				s.tick()
			case "failtick": // a tick whose ping (if it sends one) fails in the write
				s.failNext(true)
				s.tick()
				s.failNext(false)
				rec.kind, rec.failed = "tick", true
			case "msg", "peerping", "emptyack", "emptymsg":
				recvKind = e.Kind
				s.recv()
				rec.kind = "msg"
			case "pong":
				idx := s.pings() - 1 - e.Back
				rec.pongIdx = idx
				if !s.pong(idx) {
					rec.kind = "nop"
				}
			}
			bubble.Wait()
			rec.pingsSoFar = s.pings()
			rec.closedNow = s.closed()
			hist = append(hist, rec)
			if os.Getenv("VERIF_DEBUG") != "" {
				fmt.Printf("  %v %s pings=%d closed=%v (monitor callback ran: %v)\n", rec.t, rec.kind, rec.pingsSoFar, rec.closedNow, isClosed())
			}
		}
		s.stop()
		bubble.Wait()
	})
	if res.Panic != "" {
		return evid.Failf("monitor/panic", sc, "panic in scenario: %s", res.Panic)
	}
	if res.Deadlock {
		return evid.Failf("monitor/deadlock", sc, "all goroutines blocked while the scenario was still running")
	}
	r.Class("teardown_leaks", b2i(res.Leaked))

	if sc.Never {
		for i, h := range hist {
			if h.closedNow {
				return evid.Failf("monitor/closed-without-timeout", sc, "event %d (%s at %v): the connection was closed although the monitor was configured with the maximum duration (no timeout)", i, h.kind, h.t)
			}
			if h.pingsSoFar > 0 {
				return evid.Failf("monitor/ping-without-timeout", sc, "event %d (%s at %v): %d pings were sent although the monitor was configured with the maximum duration", i, h.kind, h.t, h.pingsSoFar)
			}
		}
		return nil
	}
	// ---- oracle: replay the history on the model ----------------------------------------------------
	lastRecv := created // the monitor starts with "activity now"
	pingsAtReset := 0
	failedAttempts := 0 // pings since the last reset that were attempted but failed in the write
	closedSeen := false
	silentTicksOnly := true
	lastMsg := created
	prevT := created
	maxGap := time.Duration(0)
	for i, h := range hist {
		if closedSeen {
			break
		}
		inactive := false
		switch h.kind {
		case "nop":
			silentTicksOnly = false
		case "msg", "pong":
			if h.closedNow {
				return evid.Failf("monitor/closed-on-receive", sc, "event %d (%s at %v) closed the connection: a received message must never do that", i, h.kind, h.t)
			}
			lastRecv = h.t
			pingsAtReset = h.pingsSoFar
			failedAttempts = 0
			silentTicksOnly = false
			lastMsg = h.t
		case "tick":
			inactive = h.t > lastRecv+period
			maxGap = max(maxGap, h.t-prevT)
			if !isKA {
				if h.closedNow != inactive {
					key := "monitor/inactivity-missed"
					if h.closedNow {
						key = "monitor/closed-while-active"
					}
					return evid.Failf(key, sc, "tick %d at %v: last message received at %v, period %v => inactive=%v, but closed=%v", i, h.t, lastRecv, period, inactive, h.closedNow)
				}
			} else if h.closedNow {
				// pings that went unanswered since the last reset (the closing tick itself sends none)
				unanswered := h.pingsSoFar - pingsAtReset + failedAttempts
				if !inactive {
					return evid.Failf("monitor/ka-closed-while-active", sc, "tick %d at %v closed the connection although a message was received at %v, less than a period (%v) ago", i, h.t, lastRecv, period)
				}
				if unanswered < sc.MaxRetries {
					return evid.Failf("monitor/ka-closed-early", sc, "tick %d at %v closed the connection after only %d unanswered ping(s) since the last received message/pong at %v; maxRetries is %d", i, h.t, unanswered, lastRecv, sc.MaxRetries)
				}
			}
		}
		if h.kind == "tick" && h.failed && inactive && isKA && !h.closedNow {
			failedAttempts++ // an inactive keep-alive tick attempts a ping; this one failed in the write
		}
		prevT = h.t
		if h.closedNow {
			closedSeen = true
		}
	}
	// liveness for a totally silent peer with ticks at least once per period
	if isKA && silentTicksOnly && len(hist) > 0 && maxGap <= period && !closedSeen {
		last := hist[len(hist)-1].t
		if last > lastMsg+time.Duration(sc.MaxRetries+2)*period+maxGap {
			return evid.Failf("monitor/ka-never-closes", sc, "the peer is silent since %v, ticks come every <= %v, but at %v (> (maxRetries+2) x period later) the connection is still open", lastMsg, maxGap, last)
		}
	}
	return nil
}

func b2i(b bool) int64 {
	if b {
		return 1
	}
	return 0
}

func gen(t *rapid.T) Scenario {
	sc := Scenario{
		Target:     rapid.SampledFrom([]string{"raw-inact", "raw-ka", "raw-ka", "udp-inact", "udp-ka", "udp-ka", "tcp-inact", "tcp-ka", "tcp-ka"}).Draw(t, "target"),
		PeriodMs:   rapid.SampledFrom([]int{100, 1000, 4000}).Draw(t, "period"),
		MaxRetries: rapid.IntRange(0, 4).Draw(t, "maxRetries"),
	}
	sc.HoldHandler = sc.Target[:3] != "raw" && rapid.IntRange(0, 3).Draw(t, "hold") == 0
	sc.Never = rapid.IntRange(0, 9).Draw(t, "never") == 0
	if rapid.IntRange(0, 7).Draw(t, "aged") == 0 {
		sc.AgeDays = rapid.SampledFrom([]int{1, 24, 25, 49, 50, 99, 100, 1000, 40000}).Draw(t, "age")
	}
	p := sc.PeriodMs
	gaps := []int{1, p / 3, p / 2, p - 1, p + 1, p + p/2, 2*p + 1, 5*p + 3}
	n := rapid.IntRange(1, 16).Draw(t, "nev")
	silent := rapid.IntRange(0, 4).Draw(t, "silent") == 0
	for i := 0; i < n; i++ {
		e := Ev{Kind: rapid.SampledFrom([]string{"tick", "tick", "tick", "tick", "tick", "failtick", "msg", "peerping", "emptyack", "emptymsg", "pong", "pong"}).Draw(t, "kind"), GapMs: rapid.SampledFrom(gaps).Draw(t, "gap")}
		if silent {
			e.Kind = "tick"
			e.GapMs = rapid.SampledFrom([]int{p / 3, p / 2, p - 1}).Draw(t, "sgap")
		}
		if e.Kind == "pong" {
			e.Back = rapid.SampledFrom([]int{0, 0, 0, 1, 2}).Draw(t, "back")
		}
		sc.Events = append(sc.Events, e)
	}
	if silent {
		// enough ticks to cross (maxRetries + 2) periods
		need := (sc.MaxRetries+3)*p/(p/3) + 2
		for len(sc.Events) < need {
			sc.Events = append(sc.Events, Ev{Kind: "tick", GapMs: p / 3})
		}
	}
	if sc.HoldHandler {
		// the first request occupies the handler for good; the next message of any kind stays in the
		// receiver (which has taken note of it), after that the receiver reads nothing any more, so
		// nothing further counts as received: only ticks follow
		var evs []Ev
		held, after := false, 0
		for _, e := range sc.Events {
			isTick := e.Kind == "tick" || e.Kind == "failtick"
			if held && !isTick {
				if after >= 1 {
					continue
				}
				after++
			}
			if e.Kind == "msg" {
				held = true
			}
			evs = append(evs, e)
		}
		sc.Events = evs
	}
	return sc
}

func nonTrivial(sc Scenario) bool {
	// traffic or a pong between two ticks of one period, or a pong for a superseded ping
	sinceTick := 0
	for _, e := range sc.Events {
		switch e.Kind {
		case "tick":
			sinceTick = 0
		default:
			sinceTick += e.GapMs
			if sinceTick < sc.PeriodMs {
				return true
			}
			if e.Kind == "pong" && e.Back > 0 {
				return true
			}
		}
	}
	return false
}

func TestCheck(t *testing.T) {
	r := evid.New(t, "C18")
	eng := evid.RapidEngine("monitor", evid.RapidOpts{Quick: 20000, Thorough: 400000, Crashy: true}, gen, func(sc Scenario) *evid.Failure {
		f := Exec(t, sc, r)
		if f == nil {
			key := ""
			if nonTrivial(sc) {
				b, _ := json.Marshal(sc)
				key = string(b)
			}
			cls := []string{"monitor/target=" + sc.Target, fmt.Sprintf("monitor/maxRetries=%d", sc.MaxRetries)}
			if sc.AgeDays > 0 {
				cls = append(cls, "monitor/connection-aged-1-to-40000-days-first")
			}
			r.Case("monitor", key, func() any { return sc }, cls...)
		}
		return f
	})
	r.Main(evid.Meta{
		Rule:        "event lists over {message received, pong for the current or a superseded ping, housekeeping tick, housekeeping tick whose ping fails in the write} with virtual gaps around the period (1 ms, p/3, p/2, p-1, p+1, 1.5p, 2p+1, 5p+3; never exactly on it) (in an eighth of the cases on a monitor that is 1-40000 days old when they begin) against the bare inactivity.Monitor / KeepAlive and against datagram and stream connections configured with WithInactivityMonitor / WithKeepAlive (maxRetries 0-4) in a synctest bubble, the scripted peer answering pings on the wire (in a quarter of the connection scenarios the handler never returns and the receive queue has size 0, so that later requests stay in the receiver); oracle: inactivity monitor closes at a tick iff that tick is later than last receipt + period; keep-alive may close only at an inactive tick and only if at least maxRetries pings were attempted (put on the wire unanswered, or failed in the write) since the last received message/pong; a received message never closes; a totally silent peer with ticks every <= period is closed within (maxRetries+2) periods. Non-trivial = traffic or a pong falls between two ticks of one period, or a pong for a superseded ping; distinct by scenario. servers: a tcp / dtls server on an in-memory listener configured once with WithInactivityMonitor or WithKeepAlive (maxRetries 1-3), 2-4 scripted peers that stay silent, answer every ping, or send a request every half period, ticks every half period; oracle per connection: a silent peer is closed (keep-alive: not before maxRetries pings went out on its own wire; inactivity: not before one period), a talking or ping-answering peer is never closed - whatever the other connections of the server do; non-trivial = peers of at least two kinds. " + udpsrv.Rule,
		Assumptions: []string{"the literal off-by-one of 'more than the configured number of pings' is not asserted: closing after maxRetries unanswered pings plus one further inactive tick is accepted (DESIGN.md 3/C18)", "a pong for a superseded ping counts as a received message"},
		Floor:       500,
	}, eng, serversEngine(t, r), udpsrv.Engine(r, []string{"keepalive"}, 6, 150))
}
