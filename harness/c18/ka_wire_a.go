package c18

import (
	"time"

	"github.com/plgd-dev/go-coap/v3/net/monitor/inactivity"
)

func kaWire[C inactivity.Conn](period time.Duration, ka *inactivity.KeepAlive[C]) *inactivity.Monitor[C] {
	return inactivity.NewWithKeepAlive(period, ka)
}
