package c18

// Engine "servers": the monitors of a *server's* connections are independent of each other.
// A tcp / dtls server on an in-memory listener is configured with WithInactivityMonitor or
// WithKeepAlive once; 2-4 scripted peers connect and behave differently (silent, answering
// pings, talking). What happens on one connection must not change when another is closed.

import (
	"encoding/json"
	"fmt"
	"sync"
	"testing"
	"time"

	dtlsServer "github.com/plgd-dev/go-coap/v3/dtls/server"
	"github.com/plgd-dev/go-coap/v3/message"
	"github.com/plgd-dev/go-coap/v3/message/codes"
	"github.com/plgd-dev/go-coap/v3/message/pool"
	"github.com/plgd-dev/go-coap/v3/net/responsewriter"
	"github.com/plgd-dev/go-coap/v3/options"
	tcpClient "github.com/plgd-dev/go-coap/v3/tcp/client"
	tcpServer "github.com/plgd-dev/go-coap/v3/tcp/server"
	udpClient "github.com/plgd-dev/go-coap/v3/udp/client"
	"pgregory.net/rapid"

	"verif/bubble"
	"verif/evid"
	"verif/memnet"
	"verif/peer"
	"verif/refcodec"
	"verif/srvsim"
)

type srvScenario struct {
	Kind       string   `json:"kind"` // tcp | dtls
	KeepAlive  bool     `json:"keepAlive"`
	PeriodMs   int      `json:"periodMs"`
	MaxRetries int      `json:"maxRetries"`
	Peers      []string `json:"peers"` // silent | ponger | talker
}

type srvPeer struct {
	beh    string
	stream *memnet.StreamLink
	packet *memnet.PacketLink
	pings  int // pings the server put on this peer's wire
	buf    []byte
	nextID int
}

func (p *srvPeer) send(m refcodec.Msg) {
	if p.stream != nil {
		_, _ = p.stream.A.Write(peer.Frame(m))
		return
	}
	p.packet.A.Send(peer.Datagram(m))
}

// take returns what the server has sent to this peer since the last call.
func (p *srvPeer) take() []refcodec.Msg {
	if p.stream != nil {
		p.buf = append(p.buf, p.stream.A.TakeAll()...)
		msgs, rest, _ := peer.ParseFrames(p.buf)
		p.buf = rest
		return msgs
	}
	var out []refcodec.Msg
	for _, d := range p.packet.A.Drain() {
		if m, ok := peer.ParseDatagram(d); ok {
			out = append(out, m)
		}
	}
	return out
}

func execServers(t *testing.T, sc srvScenario) *evid.Failure {
	var fail *evid.Failure
	period := time.Duration(sc.PeriodMs) * time.Millisecond
	res := bubble.Run(t, 60*time.Second, nil, func() {
		var mu sync.Mutex
		inactive := map[string]time.Duration{} // remote name -> when onInactive fired
		start := time.Now()
		var srv *srvsim.Server
		if sc.Kind == "tcp" {
			onInactive := func(cc *tcpClient.Conn) {
				mu.Lock()
				inactive[cc.RemoteAddr().String()] = time.Since(start)
				mu.Unlock()
				_ = cc.Close()
			}
			var mon tcpServer.Option = options.WithInactivityMonitor(period, onInactive)
			if sc.KeepAlive {
				mon = options.WithKeepAlive(uint32(sc.MaxRetries), period*time.Duration(sc.MaxRetries+1), onInactive)
			}
			srv = srvsim.StartTCP(func(w *responsewriter.ResponseWriter[*tcpClient.Conn], r *pool.Message) {
				_ = w.SetResponse(codes.Content, message.TextPlain, nil)
			}, mon)
		} else {
			onInactive := func(cc *udpClient.Conn) {
				mu.Lock()
				inactive[cc.RemoteAddr().String()] = time.Since(start)
				mu.Unlock()
				_ = cc.Close()
			}
			var mon dtlsServer.Option = options.WithInactivityMonitor(period, onInactive)
			if sc.KeepAlive {
				mon = options.WithKeepAlive(uint32(sc.MaxRetries), period*time.Duration(sc.MaxRetries+1), onInactive)
			}
			srv = srvsim.StartDTLS(func(w *responsewriter.ResponseWriter[*udpClient.Conn], r *pool.Message) {
				_ = w.SetResponse(codes.Content, message.TextPlain, nil)
			}, mon, options.WithTransmission(1, time.Hour, 10))
		}
		peers := make([]*srvPeer, len(sc.Peers))
		for i, b := range sc.Peers {
			p := &srvPeer{beh: b, nextID: 100 * (i + 1)}
			name := fmt.Sprintf("peer-%d", i)
			if sc.Kind == "tcp" {
				p.stream = srv.ConnectStream(name, memnet.StreamCfg{})
			} else {
				p.packet = srv.ConnectPacket(name, memnet.LinkCfg{LatencyMs: 1})
			}
			peers[i] = p
		}
		bubble.Settle(5 * time.Millisecond)
		for _, p := range peers {
			_ = p.take() // the server's CSM
		}
		// serve: every peer reacts to what the server sent, then half a period passes, then a tick
		react := func() {
			for _, p := range peers {
				for _, m := range p.take() {
					isPing := (sc.Kind == "tcp" && m.Code == 226) || (sc.Kind != "tcp" && m.Code == 0 && m.Type == peer.CON)
					if !isPing {
						continue
					}
					p.pings++
					if p.beh == "ponger" {
						if sc.Kind == "tcp" {
							p.send(refcodec.Msg{Code: 227, Token: m.Token})
						} else {
							p.send(refcodec.Msg{Type: peer.RST, MID: m.MID})
						}
					}
				}
				if p.beh == "talker" {
					p.nextID++
					rq := refcodec.Msg{Code: 1, Token: []byte{0x18, byte(p.nextID)}, Opts: peer.PathOpts("t")}
					if sc.Kind != "tcp" {
						rq.Type, rq.MID = peer.NON, p.nextID&0xffff
					}
					p.send(rq)
				}
			}
		}
		steps := 2*(sc.MaxRetries+4) + 2
		if !sc.KeepAlive {
			steps = 8
		}
		for k := 0; k < steps; k++ {
			react()
			bubble.Settle(period/2 + time.Millisecond)
			srv.Tick.Tick()
			bubble.Settle(3 * time.Millisecond)
		}
		react()
		end := time.Since(start)
		mu.Lock()
		for i, p := range peers {
			name := fmt.Sprintf("peer-%d", i)
			at, closed := inactive[name]
			switch p.beh {
			case "silent":
				if !closed {
					fail = evid.Failf("servers/dead-connection-kept", sc, "%s never sent anything, yet after %v (period %v, %d pings on its wire) the server's monitor has not closed it; other peers: %v", name, end, period, p.pings, sc.Peers)
				} else if sc.KeepAlive && p.pings < sc.MaxRetries {
					fail = evid.Failf("servers/closed-before-its-own-pings", sc, "%s was closed at %v after only %d pings on its own wire (maxRetries %d); other peers: %v", name, at, p.pings, sc.MaxRetries, sc.Peers)
				} else if !sc.KeepAlive && at < period {
					fail = evid.Failf("servers/closed-early", sc, "%s was closed at %v, before one period (%v) of silence", name, at, period)
				}
			case "talker":
				if closed {
					fail = evid.Failf("servers/live-connection-closed", sc, "%s sent a request every half period, yet the monitor closed it at %v; other peers: %v", name, at, sc.Peers)
				}
			case "ponger":
				if closed && sc.KeepAlive {
					fail = evid.Failf("servers/live-connection-closed", sc, "%s answered every ping (%d), yet the monitor closed it at %v; other peers: %v", name, p.pings, at, sc.Peers)
				}
			}
			if fail != nil {
				break
			}
		}
		mu.Unlock()
		srv.Stop()
		for _, p := range peers {
			if p.stream != nil {
				_ = p.stream.A.Close()
			} else {
				_ = p.packet.A.Close()
			}
		}
		bubble.Settle(time.Second)
	})
	if fail != nil {
		return fail
	}
	if res.Panic != "" {
		return evid.Failf("servers/panic", sc, "panic in scenario: %s", res.Panic)
	}
	if res.Deadlock {
		return evid.Failf("servers/deadlock", sc, "all goroutines blocked while the scenario was still running")
	}
	return nil
}

func genServers(t *rapid.T) srvScenario {
	sc := srvScenario{
		Kind:       rapid.SampledFrom([]string{"tcp", "dtls"}).Draw(t, "kind"),
		KeepAlive:  rapid.IntRange(0, 3).Draw(t, "ka") > 0,
		PeriodMs:   rapid.SampledFrom([]int{100, 400, 1000}).Draw(t, "period"),
		MaxRetries: rapid.IntRange(1, 3).Draw(t, "retries"),
	}
	n := rapid.IntRange(2, 4).Draw(t, "npeers")
	behs := []string{"silent", "talker"}
	if sc.KeepAlive {
		behs = []string{"silent", "silent", "ponger", "talker"}
	}
	for i := 0; i < n; i++ {
		sc.Peers = append(sc.Peers, rapid.SampledFrom(behs).Draw(t, "beh"))
	}
	return sc
}

func serversEngine(t *testing.T, r *evid.Run) evid.Engine {
	return evid.RapidEngine("servers", evid.RapidOpts{Quick: 600, Thorough: 20000, Crashy: true}, genServers, func(sc srvScenario) *evid.Failure {
		f := execServers(t, sc)
		if f == nil {
			key := ""
			kinds := map[string]bool{}
			for _, b := range sc.Peers {
				kinds[b] = true
			}
			if len(kinds) >= 2 { // connections of one server that must be treated differently
				b, _ := json.Marshal(sc)
				key = string(b)
			}
			cls := []string{"servers/" + sc.Kind}
			if sc.KeepAlive {
				cls = append(cls, "servers/keep-alive")
			}
			r.Case("servers", key, func() any { return sc }, cls...)
		}
		return f
	})
}
