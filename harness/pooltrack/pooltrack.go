//go:build verif

// Package pooltrack is the life-cycle monitor for pooled messages (DESIGN.md 3/C12, hook H1):
// per-object state machine (acquired -> released), poison on release, poison verification on
// re-acquisition and at the end of the run.
package pooltrack

import (
	"fmt"
	"runtime"
	"strings"
	"sync"

	"github.com/plgd-dev/go-coap/v3/message/pool"
)

const Poison = 0xD7

type objState struct {
	released    bool
	pooled      bool
	fingerprint uint64
	releasedAt  string // stack of the release
}

// Tracker watches one pool.
type Tracker struct {
	mu         sync.Mutex
	objs       map[*pool.Message]*objState
	violations []string
	Releases   int64
	Recycles   int64
	Dropped    int64
}

var (
	regMu    sync.RWMutex
	registry = map[*pool.Pool]*Tracker{}
	once     sync.Once
)

type observer struct{}

func lookup(p *pool.Pool) *Tracker {
	regMu.RLock()
	defer regMu.RUnlock()
	return registry[p]
}

func stack() string {
	pc := make([]uintptr, 14)
	n := runtime.Callers(4, pc)
	frames := runtime.CallersFrames(pc[:n])
	var sb strings.Builder
	for {
		f, more := frames.Next()
		if strings.Contains(f.Function, "go-coap") || strings.Contains(f.Function, "verif/") {
			fmt.Fprintf(&sb, "    %s:%d\n", f.Function, f.Line)
		}
		if !more {
			break
		}
	}
	return sb.String()
}

func (observer) Release(p *pool.Pool, m *pool.Message) {
	t := lookup(p)
	if t == nil {
		return
	}
	t.mu.Lock()
	defer t.mu.Unlock()
	t.Releases++
	st := t.objs[m]
	if st == nil {
		st = &objState{}
		t.objs[m] = st
	}
	if st.released {
		t.violations = append(t.violations, fmt.Sprintf("double release: a message was returned to the pool twice without being re-acquired\n  second release at:\n%s  first release at:\n%s", stack(), st.releasedAt))
		return
	}
	st.released, st.pooled = true, false
	st.fingerprint = m.VerifFingerprint()
	st.releasedAt = stack()
}

func (observer) Pooled(p *pool.Pool, m *pool.Message) {
	t := lookup(p)
	if t == nil {
		return
	}
	t.mu.Lock()
	defer t.mu.Unlock()
	if st := t.objs[m]; st != nil {
		st.pooled = true
	}
	m.VerifPoison(Poison)
}

func (observer) Acquire(p *pool.Pool, m *pool.Message) {
	t := lookup(p)
	if t == nil {
		return
	}
	t.mu.Lock()
	defer t.mu.Unlock()
	t.Recycles++
	st := t.objs[m]
	if st == nil {
		return // released before the tracker was attached
	}
	if !st.released {
		t.violations = append(t.violations, "a message was handed out by the pool while its previous holder had not released it")
		return
	}
	if st.pooled {
		if what := m.VerifCheckPoison(Poison); what != "" {
			t.violations = append(t.violations, fmt.Sprintf("write after release: the %s of a pooled message changed between its release and its next acquisition\n  released at:\n%s", what, st.releasedAt))
		}
	}
	st.released, st.pooled = false, false
}

// Attach starts tracking p.
func Attach(p *pool.Pool) *Tracker {
	once.Do(func() { pool.SetVerifObserver(observer{}) })
	t := &Tracker{objs: map[*pool.Message]*objState{}}
	regMu.Lock()
	registry[p] = t
	regMu.Unlock()
	return t
}

// Finish runs the end-of-run sweep, detaches the tracker and returns the violations.
func (t *Tracker) Finish(p *pool.Pool) []string {
	regMu.Lock()
	delete(registry, p)
	regMu.Unlock()
	t.mu.Lock()
	defer t.mu.Unlock()
	for m, st := range t.objs {
		if !st.released {
			continue
		}
		if st.pooled {
			if what := m.VerifCheckPoison(Poison); what != "" {
				t.violations = append(t.violations, fmt.Sprintf("write after release: the %s of a pooled message changed after its release\n  released at:\n%s", what, st.releasedAt))
			}
		} else {
			t.Dropped++
			if m.VerifFingerprint() != st.fingerprint {
				t.violations = append(t.violations, fmt.Sprintf("write after release: a released message (not kept by the full pool) changed afterwards\n  released at:\n%s", st.releasedAt))
			}
		}
	}
	return t.violations
}

// Violations so far.
func (t *Tracker) Violations() []string {
	t.mu.Lock()
	defer t.mu.Unlock()
	return append([]string(nil), t.violations...)
}
