// C20 — No-Response suppression follows RFC 7967 for every option value and response code.
package c20

import (
	"bytes"
	"context"
	"encoding/json"
	"testing"

	"github.com/plgd-dev/go-coap/v3/message"
	"github.com/plgd-dev/go-coap/v3/message/codes"
	"github.com/plgd-dev/go-coap/v3/message/noresponse"
	"github.com/plgd-dev/go-coap/v3/message/pool"
	"github.com/plgd-dev/go-coap/v3/net/responsewriter"

	"verif/evid"
	"verif/udpsrv"
)

// specSuppressed is RFC 7967 section 2.1: bit value 2 = not interested in 2.xx, 8 = 4.xx,
// 16 = 5.xx. No other bit and no other class is defined to suppress anything.
func specSuppressed(value uint32, code int) bool {
	switch code >> 5 {
	case 2:
		return value&2 != 0
	case 4:
		return value&8 != 0
	case 5:
		return value&16 != 0
	}
	return false
}

type tableCase struct {
	Value uint32 `json:"value"`
	Code  int    `json:"code"`
	// Shape: which other options the request carries next to No-Response (258): 0 none,
	// 1 lower-numbered ones (Uri-Path, Accept), 2 higher-numbered ones (Request-Tag 292, an
	// unknown elective option 65000), 3 both
	Shape int `json:"shape,omitempty"`
	// Mutate > 0: the writer is created from the options of a pooled request message (as every
	// connection does: responsewriter.New(resp, cc, req.Options()...)), and the handler changes the
	// request before it sets the response: 1 AddQuery, 2 SetAccept, 3 an option above 258 added,
	// 4 Uri-Path removed, 5 a path of three segments set. The request *as received* decides.
	Mutate int `json:"mutate,omitempty"`
}

type relClient struct{}

func (relClient) ReleaseMessage(*pool.Message) {}

func execTable(c tableCase) *evid.Failure {
	want := specSuppressed(c.Value, c.Code)
	err := noresponse.IsNoResponseCode(codes.Code(c.Code), c.Value)
	if (err != nil) != want {
		return evid.Failf("table/is-no-response-code", c, "IsNoResponseCode(code=%d.%02d, value=%d) suppressed=%v, RFC 7967 says %v", c.Code>>5, c.Code&31, c.Value, err != nil, want)
	}
	// the response writer, as a handler sees it: the request carried No-Response = value
	buf := make([]byte, 8)
	nr, _, e := message.Options{}.SetUint32(buf, message.NoResponse, c.Value)
	if e != nil {
		return evid.Failf("table/harness", c, "cannot build option: %v", e)
	}
	var opts message.Options // in ascending option-number order, as a decoded request has them
	if c.Shape&1 != 0 {
		opts = append(opts, message.Option{ID: message.URIPath, Value: []byte("nr")}, message.Option{ID: message.Accept, Value: []byte{0}})
	}
	opts = append(opts, nr...)
	if c.Shape&2 != 0 {
		opts = append(opts, message.Option{ID: 292, Value: []byte{0xA1}}, message.Option{ID: 65000, Value: []byte("v")})
	}
	resp := pool.NewMessage(context.Background())
	w := responsewriter.New(resp, relClient{}, opts...)
	if c.Mutate > 0 {
		req := pool.NewMessage(context.Background())
		req.SetCode(codes.GET)
		req.ResetOptionsTo(opts)
		w = responsewriter.New(resp, relClient{}, req.Options()...)
		switch c.Mutate {
		case 1:
			req.AddQuery("a=b")
		case 2:
			req.SetAccept(message.AppJSON)
		case 3:
			req.AddOptionBytes(65001, []byte("late"))
		case 4:
			req.Remove(message.URIPath)
		case 5:
			req.MustSetPath("/one/two/three")
		}
	}
	err = w.SetResponse(codes.Code(c.Code), message.TextPlain, bytes.NewReader([]byte("x")),
		message.Option{ID: message.ETag, Value: []byte{0xE2, 0x01}}, message.Option{ID: message.MaxAge, Value: []byte{60}})
	if (err != nil) != want {
		return evid.Failf("table/set-response", c, "ResponseWriter.SetResponse(code=%d.%02d) with No-Response=%d refused=%v, RFC 7967 says %v", c.Code>>5, c.Code&31, c.Value, err != nil, want)
	}
	if err != nil && (w.Message().Code() != codes.Empty || w.Message().Body() != nil || len(w.Message().Options()) != 0 || w.Message().IsModified()) {
		return evid.Failf("table/refused-but-set", c, "SetResponse was refused but the response message was touched (code %v, %d options, modified=%v): it would be put on the wire", w.Message().Code(), len(w.Message().Options()), w.Message().IsModified())
	}
	if err == nil && w.Message().Code() != codes.Code(c.Code) {
		return evid.Failf("table/accepted-not-set", c, "SetResponse was accepted but the response code is %v", w.Message().Code())
	}
	// without the option nothing is ever refused
	w2 := responsewriter.New(pool.NewMessage(context.Background()), relClient{})
	if err := w2.SetResponse(codes.Code(c.Code), message.TextPlain, nil); err != nil {
		return evid.Failf("table/no-option-refused", c, "SetResponse refused although the request has no No-Response option: %v", err)
	}
	return nil
}

func tableEngine() evid.Engine {
	return evid.Engine{Name: "table",
		Replay: func(raw json.RawMessage) *evid.Failure {
			var c tableCase
			if err := json.Unmarshal(raw, &c); err != nil {
				return &evid.Failure{Key: "replay/decode", Msg: err.Error()}
			}
			return evid.SafeExec("table", execTable, c)
		},
		Search: func(r *evid.Run) {
			var values []uint32
			for v := uint32(0); v < 64; v++ {
				values = append(values, v)
			}
			// arbitrary larger values: every single high bit, alone and combined with each meaningful subset
			for bit := 6; bit < 32; bit++ {
				for _, low := range []uint32{0, 2, 8, 16, 26, 63, 1, 4, 32} {
					values = append(values, 1<<uint(bit)|low)
				}
			}
			values = append(values, 0xffffffff, 0xfffffffd, 0xffffffe5, 0x7fffffff, 255, 256, 65535, 65536, 1<<24-1)
			for _, v := range values {
				for code := 0; code < 256; code++ {
					for shape := 0; shape < 4+20; shape++ {
						c := tableCase{Value: v, Code: code, Shape: shape}
						if shape >= 4 {
							c.Shape, c.Mutate = (shape-4)%4, (shape-4)/4+1
							if v >= 64 || (code>>5 < 2 && code != 0) {
								continue // mutations: the meaningful values and the response classes
							}
						}
						if f := evid.SafeExec("table", execTable, c); f != nil {
							r.Fail(f)
						}
						nt := v != 0 && code>>5 >= 2 && code>>5 <= 5
						r.Eval(1)
						if nt {
							r.AddDistinct(1)
						}
					}
				}
			}
			r.Class("table/values", int64(len(values)))
			r.Sample("table", tableCase{Value: 2, Code: int(codes.Continue)})
			r.Sample("table", tableCase{Value: 8, Code: int(codes.RequestEntityIncomplete), Shape: 2})
			r.Sample("table", tableCase{Value: 26, Code: 0xa0, Shape: 3})
			r.Sample("table", tableCase{Value: 2, Code: 69, Shape: 1, Mutate: 1})
		},
	}
}

func TestCheck(t *testing.T) {
	testingT = t
	r := evid.New(t, "C20")
	r.SetExhaustive()
	engines := []evid.Engine{tableEngine()}
	engines = append(engines, e2eEngines()...)
	engines = append(engines, udpsrv.Engine(r, []string{"twolocal-nr"}, 4, 100), pairEngine(r))
	r.Main(evid.Meta{
		Rule:        "table: every No-Response value 0-63 and a grid of larger values (each high bit alone and combined with the meaningful subsets, 2^32-1, ...) x all 256 codes x 4 request shapes (No-Response alone, behind lower-numbered options, in front of higher-numbered ones such as Request-Tag 292 and an unknown elective option, both) through IsNoResponseCode and ResponseWriter.SetResponse against the RFC 7967 class rule, for values 0-63 also with a writer created from a pooled request's own options and a handler that changes the request (query added, Accept set, a higher option added, path removed or replaced) before it sets the response; non-trivial = value != 0 and code class 2.xx-5.xx (distinct by construction). e2e: generated (value, code, CON/NON, transport, optional higher-numbered elective options behind No-Response, a quarter of the datagrams delivered twice) requests to a library endpoint on the in-memory network whose handler is the harness's, the endpoint's built-in one (no handler configured: 4.04) or an empty router's default, oracle on the wire log; non-trivial = value != 0 and a response code, distinct by (transport, type, value, code). blockwise: No-Response together with block-wise bodies - two library endpoints (pairsim) on a fault-free in-memory network, SZX pairs 0-6, 1-3 POST/PUT/GET/DELETE exchanges with request and response bodies around the block size and a No-Response value; the handler answers 2.04/2.05, so the caller must get the complete response exactly when bit 2 is clear and no successful response when it is set, and the request body reaches the handler once and whole either way; non-trivial = value != 0 and a multi-block body",
		Assumptions: []string{"RFC 7967 section 2.1 defines only bits 2, 8 and 16; all other bits suppress nothing"},
		Floor:       1000,
	}, engines...)
}
