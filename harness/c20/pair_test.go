package c20

import (
	"fmt"

	"pgregory.net/rapid"

	"verif/evid"
	"verif/memnet"
	"verif/pairsim"
)

// Engine "blockwise": No-Response together with a second feature of the library - block-wise request
// and response bodies - between two library endpoints on a fault-free in-memory network (pairsim).
// The handler answers 2.04 / 2.05 with a body of the requested size, so the response is of class 2.xx:
// it is withheld exactly when the request's No-Response value has bit 2 set.
func genPair(t *rapid.T) pairsim.Scenario {
	sc := pairsim.Scenario{Transport: rapid.SampledFrom([]string{"udp", "tcp"}).Draw(t, "transport"), TickMs: 500, SettleMs: 8000}
	szx := rapid.IntRange(0, 6)
	sc.Cli = pairsim.EndCfg{SZX: szx.Draw(t, "cszx"), Blockwise: true, Queue: 16}
	sc.Srv = pairsim.EndCfg{SZX: szx.Draw(t, "sszx"), Blockwise: true, Queue: 16}
	if sc.Transport == "tcp" {
		sc.Cli.MaxMsg, sc.Srv.MaxMsg = 4096, 4096
	}
	if rapid.IntRange(0, 2).Draw(t, "srvrole") == 0 {
		sc.Srv.Role = "server"
	}
	sc.Link = memnet.LinkCfg{LatencyMs: 1}
	cs, ss := 16<<sc.Cli.SZX, 16<<sc.Srv.SZX
	size := func(label string, s int) int {
		return rapid.SampledFrom([]int{0, 1, s - 1, s, s + 1, 2*s + 1, 3*s + 5}).Draw(t, label)
	}
	n := rapid.IntRange(1, 3).Draw(t, "n")
	for i := 0; i < n; i++ {
		op := pairsim.Op{Kind: rapid.SampledFrom([]string{"post", "put", "get", "delete"}).Draw(t, "kind"), DeadlineMs: 6000}
		if op.Kind == "post" || op.Kind == "put" {
			op.Up = size("up", cs)
		}
		op.Down = size("down", ss)
		op.NoResp = rapid.SampledFrom([]int{0, 2, 8, 16, 26, 24, 10, 18, 1, 4, 32, 127}).Draw(t, "noresp")
		op.ETag = rapid.Bool().Draw(t, "etag")
		sc.Ops = append(sc.Ops, op)
	}
	return sc
}

func pairEngine(r *evid.Run) evid.Engine {
	return evid.RapidEngine("blockwise", evid.RapidOpts{Quick: 2500, Thorough: 60000, Crashy: true}, genPair, func(sc pairsim.Scenario) *evid.Failure {
		tr := pairsim.Run(testingT, sc, false)
		if tr.Panic != "" {
			return evid.Failf("blockwise/panic", sc, "panic: %s", tr.Panic)
		}
		if tr.Deadlock {
			return evid.Failf("blockwise/deadlock", sc, "all goroutines blocked while the scenario was still running")
		}
		bs := min(16<<sc.Cli.SZX, 16<<sc.Srv.SZX)
		for i, op := range sc.Ops {
			o := tr.Ops[i]
			if !o.Returned {
				return evid.Failf("blockwise/call-hangs", sc, "operation %d never returned", i)
			}
			success := o.Err == "" && o.Code >= 64 && o.Code < 96
			suppressed := op.NoResp&2 != 0
			switch {
			case suppressed && success:
				return evid.Failf("blockwise/suppressed-response-delivered", sc, "operation %d (%s, %d up / %d down, No-Response %d): the caller received a %d response of %d bytes although class 2.xx is marked as not of interest", i, op.Kind, op.Up, op.Down, op.NoResp, o.Code, o.BodyLen)
			case !suppressed && !success:
				return evid.Failf("blockwise/response-dropped", sc, "operation %d (%s, %d up / %d down, No-Response %d) on a fault-free link ended with code %d err %q although class 2.xx is of interest; client errors %.200q, server errors %.200q", i, op.Kind, op.Up, op.Down, op.NoResp, o.Code, o.Err, tr.CliErrs, tr.SrvErrs)
			case !suppressed && !o.BodyOK:
				return evid.Failf("blockwise/response-body-differs", sc, "operation %d: response body of %d bytes is not the %d-byte body the handler supplied", i, o.BodyLen, op.Down)
			}
			// the request, block-wise or not, reaches the handler once and whole - No-Response is about
			// the final response, the transfer of the request body does not depend on it
			inv, ok := 0, true
			for _, h := range tr.Handler {
				if h.Op == i && h.Side == "srv" && h.Method >= 1 && h.Method <= 4 {
					inv++
					ok = ok && h.BodyOK && h.OptsOK
				}
			}
			if !ok {
				return evid.Failf("blockwise/request-body-differs", sc, "operation %d (No-Response %d): the request reached the handler with a different body or without its options", i, op.NoResp)
			}
			if inv != 1 && !(inv > 1 && op.Up <= bs) {
				return evid.Failf("blockwise/handler-count", sc, "operation %d (%s, %d up, No-Response %d): the handler saw the request %d times", i, op.Kind, op.Up, op.NoResp, inv)
			}
			key := ""
			if op.NoResp != 0 && (op.Up > bs || op.Down > bs) {
				key = fmt.Sprint(sc.Transport, sc.Cli.SZX, sc.Srv.SZX, sc.Srv.Role, op.Kind, op.Up, op.Down, op.NoResp)
			}
			cls := []string{"blockwise/" + sc.Transport}
			if suppressed {
				cls = append(cls, "blockwise/suppressed")
			}
			if op.Up > bs {
				cls = append(cls, "blockwise/multi-block-request")
			}
			if op.Down > bs {
				cls = append(cls, "blockwise/multi-block-response")
			}
			r.Case("blockwise", key, func() any { return sc }, cls...)
		}
		return nil
	})
}
