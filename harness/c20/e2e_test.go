package c20

import (
	"bytes"
	"encoding/json"
	"fmt"
	"sort"
	"sync"
	"testing"
	"time"

	"github.com/plgd-dev/go-coap/v3/message"
	"github.com/plgd-dev/go-coap/v3/message/codes"
	"github.com/plgd-dev/go-coap/v3/message/pool"
	"github.com/plgd-dev/go-coap/v3/mux"
	"github.com/plgd-dev/go-coap/v3/net/responsewriter"
	"github.com/plgd-dev/go-coap/v3/options"
	tcpClient "github.com/plgd-dev/go-coap/v3/tcp/client"
	udpClient "github.com/plgd-dev/go-coap/v3/udp/client"
	"pgregory.net/rapid"

	"verif/bubble"
	"verif/endpoints"
	"verif/evid"
	"verif/memnet"
	"verif/peer"
	"verif/refcodec"
	"verif/roles"
	"verif/wire"
)

// One request of the end-to-end engine.
type e2eReq struct {
	Con      bool   `json:"con"`
	Method   int    `json:"method"`   // 1..4
	ValueLen int    `json:"valueLen"` // length of the No-Response option value: 0, 1 (legal) or 2 (illegal: the option is dropped on receipt); -1 = no option
	Value    uint32 `json:"value"`
	Code     int    `json:"code"` // what the handler answers
	// Extra: elective options numbered above 258 that follow No-Response in the request
	Extra []int `json:"extra,omitempty"`
	// Lower: options of other features that the same request carries in front of No-Response:
	// 6 Observe = register (empty value), -6 Observe = deregister (value 1), 17 Accept, 15 Uri-Query,
	// 23 Block2 (block 0, 64 bytes), 60 Size1. None of them changes what RFC 7967 says about the response.
	Lower []int `json:"lower,omitempty"`
	// Dup (datagram): the same datagram is delivered a second time; what was suppressed for the
	// first copy stays suppressed for the duplicate
	Dup bool `json:"dup,omitempty"`
}

type e2eScenario struct {
	Transport string   `json:"transport"` // udp | tcp
	Reqs      []e2eReq `json:"reqs"`
	// Handler: "" the harness's handler (answers the code the request asks for); "default" no handler
	// option at all (the endpoint's built-in handler answers requests with 4.04); "mux" an empty
	// router (its default handler answers 4.04)
	Handler string `json:"handler,omitempty"`
	// Role: "" a client connection; "server" the connection a tcp / dtls server creates for an accepted peer
	Role string `json:"role,omitempty"`
}

var testingT *testing.T

var e2eEngines func() []evid.Engine

func execE2E(r *evid.Run) func(sc e2eScenario) *evid.Failure {
	return func(sc e2eScenario) *evid.Failure {
		var fail *evid.Failure
		var mu sync.Mutex
		setResponseErr := map[int]error{}
		res := bubble.Run(testingT, 60*time.Second, nil, func() {
			var tk endpoints.Ticker
			var w wire.Wire
			var closeConn func()
			stopRole := func() {}
			handle := func(setResponse func(code codes.Code) error, rq *pool.Message) {
				b, _ := rq.ReadBody()
				if len(b) != 3 || b[0] != 0x20 {
					return
				}
				err := setResponse(codes.Code(b[2]))
				mu.Lock()
				setResponseErr[int(b[1])] = err
				mu.Unlock()
			}
			if sc.Transport == "udp" {
				link := memnet.NewPacketLink(memnet.LinkCfg{LatencyMs: 1})
				uopts := []any{
					options.WithMessagePool(pool.New(8, 2048)), options.WithPeriodicRunner(tk.Runner()),
					options.WithBlockwise(false, 6, time.Second),
				}
				switch sc.Handler {
				case "default":
				case "mux":
					uopts = append(uopts, options.WithMux(mux.NewRouter()))
				default:
					uopts = append(uopts, options.WithHandlerFunc(udpClient.HandlerFunc(func(rw *responsewriter.ResponseWriter[*udpClient.Conn], rq *pool.Message) {
						handle(func(c codes.Code) error {
							return rw.SetResponse(c, message.TextPlain, bytes.NewReader([]byte("x")), message.Option{ID: message.ETag, Value: []byte{0xE2, 0x02}})
						}, rq)
					})))
				}
				cc, stop, err := roles.Packet(sc.Role, link, bubble.Wait, uopts...)
				if err != nil {
					panic(err)
				}
				stopRole = stop
				w = wire.UDP(link)
				closeConn = func() { _ = cc.Close() }
			} else {
				link := memnet.NewStreamLink(memnet.StreamCfg{})
				topts := []any{
					options.WithMessagePool(pool.New(8, 2048)), options.WithPeriodicRunner(tk.Runner()),
					options.WithBlockwise(false, 6, time.Second), options.WithCloseSocket(),
				}
				switch sc.Handler {
				case "default":
				case "mux":
					topts = append(topts, options.WithMux(mux.NewRouter()))
				default:
					topts = append(topts, options.WithHandlerFunc(tcpClient.HandlerFunc(func(rw *responsewriter.ResponseWriter[*tcpClient.Conn], rq *pool.Message) {
						handle(func(c codes.Code) error {
							return rw.SetResponse(c, message.TextPlain, bytes.NewReader([]byte("x")), message.Option{ID: message.ETag, Value: []byte{0xE2, 0x02}})
						}, rq)
					})))
				}
				cc, stop, err := roles.Stream(sc.Role, link, bubble.Wait, topts...)
				stopRole = stop
				if err != nil {
					panic(err)
				}
				w = wire.TCP(link)
				closeConn = func() { _ = cc.Close(); _ = link.B.Close() }
			}
			bubble.Wait()
			_ = w.FromLib()
			for i, q := range sc.Reqs {
				m := refcodec.Msg{Code: q.Method, Token: []byte{0x20, byte(i)}, MID: 1000 + i, Payload: []byte{0x20, byte(i), byte(q.Code)},
					Opts: peer.PathOpts("nr")}
				if !q.Con {
					m.Type = peer.NON
				}
				if q.ValueLen >= 0 {
					v := make([]byte, q.ValueLen)
					for k := range v {
						v[len(v)-1-k] = byte(q.Value >> (8 * uint(k)))
					}
					m.Opts = append(m.Opts, peer.Opt(258, v))
				}
				for _, x := range q.Extra {
					m.Opts = append(m.Opts, peer.Opt(x, []byte{0xA1}))
				}
				for _, x := range q.Lower {
					switch x {
					case 6:
						m.Opts = append(m.Opts, peer.Opt(6, nil))
					case -6:
						m.Opts = append(m.Opts, peer.Opt(6, []byte{1}))
					case 17:
						m.Opts = append(m.Opts, peer.Opt(17, nil))
					case 15:
						m.Opts = append(m.Opts, peer.Opt(15, []byte("a=b")))
					case 23:
						m.Opts = append(m.Opts, peer.Opt(23, []byte{2}))
					case 60:
						m.Opts = append(m.Opts, peer.Opt(60, []byte{3}))
					}
				}
				sort.SliceStable(m.Opts, func(a, b int) bool { return m.Opts[a].Num < m.Opts[b].Num })
				w.ToLib(m)
				bubble.Wait()
				out := w.FromLib()
				// what the option means after decoding: a value of illegal length is dropped (documented leniency)
				effective := uint32(0)
				if q.ValueLen == 1 {
					effective = q.Value & 0xff
				}
				wantCode, wantPayload := q.Code, "x"
				if sc.Handler != "" {
					wantCode, wantPayload = int(codes.NotFound), ""
				}
				suppressed := specSuppressed(effective, wantCode)
				mu.Lock()
				serr, ran := setResponseErr[i]
				mu.Unlock()
				desc := fmt.Sprintf("request %d (%s, con=%v, No-Response len %d value %d, handler %q answers %d.%02d)", i, sc.Transport, q.Con, q.ValueLen, q.Value, sc.Handler, wantCode>>5, wantCode&31)
				if sc.Handler != "" {
					ran, serr = true, nil
					if suppressed {
						serr = fmt.Errorf("suppressed")
					}
				}
				if !ran {
					fail = evid.Failf("e2e/handler-not-run", sc, "%s: the handler did not run", desc)
					return
				}
				if (serr != nil) != suppressed {
					fail = evid.Failf("e2e/set-response", sc, "%s: SetResponse refused=%v, RFC 7967 says suppressed=%v", desc, serr != nil, suppressed)
					return
				}
				copies := 1
				if q.Dup && w.Datagram() {
					copies = 2
				}
				for copyNo := 0; copyNo < copies; copyNo++ {
					if copyNo > 0 {
						desc += " [duplicate delivery]"
						w.ToLib(m)
						bubble.Wait()
						out = w.FromLib()
					}
					var responses, acks []refcodec.Msg
					for _, o := range out {
						switch {
						case o.Code != 0:
							responses = append(responses, o)
						case w.Datagram() && o.Type == peer.ACK && o.MID == m.MID && len(o.Token) == 0 && len(o.Opts) == 0 && len(o.Payload) == 0:
							acks = append(acks, o) // a bare acknowledgement
						default:
							fail = evid.Failf("e2e/unexpected-message", sc, "%s: unexpected message on the wire %+v", desc, o)
							return
						}
					}
					if suppressed {
						if len(responses) != 0 {
							fail = evid.Failf("e2e/suppressed-response-on-wire", sc, "%s: the response is suppressed but %+v was put on the wire", desc, responses[0])
							return
						}
						wantAcks := 0
						if w.Datagram() && q.Con {
							wantAcks = 1
						}
						if len(acks) != wantAcks {
							fail = evid.Failf("e2e/bare-ack", sc, "%s: %d bare acknowledgements on the wire, want %d", desc, len(acks), wantAcks)
							return
						}
						continue
					}
					if len(responses) != 1 || len(acks) != 0 {
						fail = evid.Failf("e2e/response-dropped", sc, "%s: the response is not suppressed but the wire shows %d responses and %d bare ACKs", desc, len(responses), len(acks))
						return
					}
					rp := responses[0]
					if rp.Code != wantCode || !bytes.Equal(rp.Token, m.Token) || string(rp.Payload) != wantPayload {
						fail = evid.Failf("e2e/wrong-response", sc, "%s: response on the wire %+v", desc, rp)
						return
					}
					if w.Datagram() && q.Con && (rp.Type != peer.ACK || rp.MID != m.MID) {
						fail = evid.Failf("e2e/not-piggybacked", sc, "%s: response type %d MID %d", desc, rp.Type, rp.MID)
						return
					}
				}
			}
			closeConn()
			stopRole()
			bubble.Wait()
		})
		if res.Panic != "" {
			return evid.Failf("e2e/panic", sc, "panic in scenario: %s", res.Panic)
		}
		if res.Deadlock {
			return evid.Failf("e2e/deadlock", sc, "all goroutines blocked while the scenario was still running")
		}
		if fail == nil {
			for _, q := range sc.Reqs {
				key := ""
				if q.ValueLen == 1 && q.Value != 0 {
					key = fmt.Sprint(sc.Transport, q.Con, q.Value, q.Code, sc.Handler, sc.Role)
				}
				cls := []string{"e2e/" + sc.Transport}
				if sc.Handler != "" {
					cls = append(cls, "e2e/built-in-handler-"+sc.Handler)
				}
				if sc.Role == "server" {
					cls = append(cls, "e2e/connection-created-by-a-server")
				}
				if len(q.Extra) > 0 && q.ValueLen >= 0 {
					cls = append(cls, "e2e/option-behind-no-response")
				}
				if len(q.Lower) > 0 && q.ValueLen >= 0 {
					cls = append(cls, "e2e/other-feature-in-front-of-no-response")
				}
				r.Case("e2e", key, func() any { return sc }, cls...)
			}
		}
		return fail
	}
}

func genE2E(t *rapid.T) e2eScenario {
	sc := e2eScenario{Transport: rapid.SampledFrom([]string{"udp", "tcp"}).Draw(t, "transport")}
	sc.Handler = rapid.SampledFrom([]string{"", "", "", "default", "mux"}).Draw(t, "handler")
	if rapid.IntRange(0, 2).Draw(t, "role") == 0 {
		sc.Role = "server"
	}
	n := rapid.IntRange(1, 6).Draw(t, "n")
	for i := 0; i < n; i++ {
		q := e2eReq{
			Con:      rapid.Bool().Draw(t, "con"),
			Method:   rapid.IntRange(1, 4).Draw(t, "method"),
			ValueLen: rapid.SampledFrom([]int{1, 1, 1, 1, 0, 2, -1}).Draw(t, "vlen"),
			Value:    uint32(rapid.OneOf(rapid.IntRange(0, 63), rapid.IntRange(0, 255), rapid.SampledFrom([]int{2, 8, 16, 26, 24, 10, 18, 255, 258, 0x1a1a})).Draw(t, "value")),
			Code:     rapid.OneOf(rapid.IntRange(64, 191), rapid.SampledFrom([]int{65, 69, 95, 128, 132, 136, 157, 160, 165, 191, 64, 96, 192, 224})).Draw(t, "code"),
		}
		q.Extra = rapid.SampledFrom([][]int{nil, nil, {292}, {65000}, {292, 65000}}).Draw(t, "extra")
		q.Dup = rapid.IntRange(0, 3).Draw(t, "dup") == 0
		q.Lower = rapid.SampledFrom([][]int{nil, nil, nil, {6}, {6}, {-6}, {17}, {15}, {23}, {60}, {6, 17}, {6, 15, 60}}).Draw(t, "lower")
		sc.Reqs = append(sc.Reqs, q)
	}
	return sc
}

func init() {
	e2eEngines = func() []evid.Engine {
		var r *evid.Run
		e := evid.RapidEngine("e2e", evid.RapidOpts{Quick: 12000, Thorough: 200000, Crashy: true}, genE2E, func(sc e2eScenario) *evid.Failure {
			return execE2E(r)(sc)
		})
		search := e.Search
		e.Search = func(run *evid.Run) { r = run; search(run) }
		replay := e.Replay
		e.Replay = func(raw json.RawMessage) *evid.Failure {
			if r == nil {
				r = evid.New(testingT, "C20-replay")
			}
			return replay(raw)
		}
		return []evid.Engine{e}
	}
}
