package c20

import "verif/evid"

// e2eEngines is filled in by e2e_bubble_test.go once the in-memory network exists.
var e2eEngines = func() []evid.Engine { return nil }
