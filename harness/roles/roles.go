// Package roles builds the library connection an engine examines in one of the roles a connection
// can have: created by a client constructor (tcp.Client / the dtls.Client wiring on a datagram
// link), or created by a *server* for an accepted peer (tcp.NewServer / dtls.NewServer serving an
// in-memory listener). The connection type is the same in both roles; what differs is the code that
// carries the configured values (limits, sizes, timeouts, monitors, handlers, pools) from the
// options to the connection. An engine passes one option list; every option that applies to the
// role is applied (the option types of the library implement the Apply method of each constructor
// they are meant for).
package roles

import (
	"fmt"
	"sync"
	"time"

	"github.com/plgd-dev/go-coap/v3/dtls"
	dtlsServer "github.com/plgd-dev/go-coap/v3/dtls/server"
	coapNet "github.com/plgd-dev/go-coap/v3/net"
	"github.com/plgd-dev/go-coap/v3/options"
	"github.com/plgd-dev/go-coap/v3/tcp"
	tcpClient "github.com/plgd-dev/go-coap/v3/tcp/client"
	tcpServer "github.com/plgd-dev/go-coap/v3/tcp/server"
	"github.com/plgd-dev/go-coap/v3/udp"
	udpClient "github.com/plgd-dev/go-coap/v3/udp/client"

	"verif/endpoints"
	"verif/memnet"
)

// TCPServerCfg edits a stream server's configuration directly (for fields without a public option).
type TCPServerCfg func(cfg *tcpServer.Config)

func (f TCPServerCfg) TCPServerApply(cfg *tcpServer.Config) { f(cfg) }

// DTLSServerCfg likewise for the DTLS server.
type DTLSServerCfg func(cfg *dtlsServer.Config)

func (f DTLSServerCfg) DTLSServerApply(cfg *dtlsServer.Config) { f(cfg) }

// Stream returns a stream connection of the given role ("" or "client": tcp.Client; "server": the
// connection a tcp.NewServer creates for an accepted peer) whose socket is link.A; the scripted
// peer (or the other library endpoint) owns link.B. stop ends the server (no-op for a client).
// wait is called while the server accepts the connection (bubble.Wait in a bubble).
func Stream(role string, link *memnet.StreamLink, wait func(), opts ...any) (cc *tcpClient.Conn, stop func(), err error) {
	return StreamEnd(role, link.A, wait, opts...)
}

// StreamEnd is Stream for an arbitrary end of a link.
func StreamEnd(role string, end *memnet.StreamEnd, wait func(), opts ...any) (cc *tcpClient.Conn, stop func(), err error) {
	if role == "" || role == "client" {
		var co []tcp.Option
		for _, o := range opts {
			if v, ok := o.(tcp.Option); ok {
				co = append(co, v)
			}
		}
		cc, err = tcp.Client(end, co...)
		return cc, func() {}, err
	}
	// (a server's default configuration closes idle connections; the engines own the clock, so
	// unless they configure a monitor themselves there is none, as for a client)
	so := []tcpServer.Option{options.WithInactivityMonitor(100000*time.Hour, func(*tcpClient.Conn) {})}
	for _, o := range opts {
		if v, ok := o.(tcpServer.Option); ok {
			so = append(so, v)
		}
	}
	var mu sync.Mutex
	var got *tcpClient.Conn
	so = append(so, options.WithOnNewConn(func(c *tcpClient.Conn) { mu.Lock(); got = c; mu.Unlock() }))
	l := memnet.NewListener(coapNet.ErrListenerIsClosed)
	srv := tcp.NewServer(so...)
	done := make(chan struct{})
	go func() { _ = srv.Serve(l); close(done) }()
	end.SetAddrs("server", "peer")
	if !l.Connect(end) {
		srv.Stop()
		return nil, nil, fmt.Errorf("listener closed")
	}
	for i := 0; i < 200; i++ {
		wait()
		mu.Lock()
		c := got
		mu.Unlock()
		if c != nil {
			var once sync.Once
			return c, func() { once.Do(func() { srv.Stop(); <-done }) }, nil
		}
		time.Sleep(time.Millisecond)
	}
	srv.Stop()
	return nil, nil, fmt.Errorf("the server did not report the accepted connection")
}

// Packet is the datagram counterpart: "" / "client" is the dtls.Client wiring (endpoints.UDP),
// "server" the connection a dtls.NewServer creates for an accepted peer on link.A.
func Packet(role string, link *memnet.PacketLink, wait func(), opts ...any) (cc *udpClient.Conn, stop func(), err error) {
	return PacketEnd(role, link.A, wait, opts...)
}

// PacketEnd is Packet for an arbitrary end of a link.
func PacketEnd(role string, end *memnet.PacketEnd, wait func(), opts ...any) (cc *udpClient.Conn, stop func(), err error) {
	if role == "" || role == "client" {
		var co []udp.Option
		for _, o := range opts {
			if v, ok := o.(udp.Option); ok {
				co = append(co, v)
			}
		}
		return endpoints.UDP(end, co...), func() {}, nil
	}
	so := []dtlsServer.Option{options.WithInactivityMonitor(100000*time.Hour, func(*udpClient.Conn) {})}
	for _, o := range opts {
		if v, ok := o.(dtlsServer.Option); ok {
			so = append(so, v)
		}
	}
	var mu sync.Mutex
	var got *udpClient.Conn
	so = append(so, options.WithOnNewConn(func(c *udpClient.Conn) { mu.Lock(); got = c; mu.Unlock() }))
	l := memnet.NewListener(coapNet.ErrListenerIsClosed)
	srv := dtls.NewServer(so...)
	done := make(chan struct{})
	go func() { _ = srv.Serve(l); close(done) }()
	end.SetAddrs("server", "peer")
	if !l.Connect(end) {
		srv.Stop()
		return nil, nil, fmt.Errorf("listener closed")
	}
	for i := 0; i < 200; i++ {
		wait()
		mu.Lock()
		c := got
		mu.Unlock()
		if c != nil {
			var once sync.Once
			return c, func() { once.Do(func() { srv.Stop(); <-done }) }, nil
		}
		time.Sleep(time.Millisecond)
	}
	srv.Stop()
	return nil, nil, fmt.Errorf("the server did not report the accepted connection")
}
