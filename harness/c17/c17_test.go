// C17 — the router dispatches to a longest matching route, else the default handler.
package c17

import (
	"context"
	"encoding/json"
	"fmt"
	"io"
	"strings"
	"sync"
	"sync/atomic"
	"testing"
	"time"
	"unicode/utf8"

	"github.com/plgd-dev/go-coap/v3/message"
	"github.com/plgd-dev/go-coap/v3/message/codes"
	"github.com/plgd-dev/go-coap/v3/message/pool"
	"github.com/plgd-dev/go-coap/v3/mux"
	"github.com/plgd-dev/go-coap/v3/net/responsewriter"
	udpClient "github.com/plgd-dev/go-coap/v3/udp/client"
	"pgregory.net/rapid"

	"verif/evid"
)

// ---- the pattern language, as documented (gorilla-style templates) -----------------------------
//
// A pattern is a sequence of literal text and {name} / {name:class} variables. A literal
// matches itself (no metacharacter has a meaning), a variable matches a non-empty run of
// characters other than '/' by default, or whatever its class says. A pattern matches a path
// only if it matches the entire path.

type Part struct {
	Lit   string `json:"lit,omitempty"`
	Var   string `json:"var,omitempty"`
	Class string `json:"class,omitempty"` // "", "[0-9]+", "[a-z]+", ".*", "[^/]+"
}

type Pattern []Part

func (p Pattern) String() string {
	var sb strings.Builder
	for _, x := range p {
		switch {
		case x.Var == "":
			sb.WriteString(x.Lit)
		case x.Class == "":
			sb.WriteString("{" + x.Var + "}")
		default:
			sb.WriteString("{" + x.Var + ":" + x.Class + "}")
		}
	}
	return sb.String()
}

// rune-wise view of the path: invalid UTF-8 bytes are single characters (as Go's regexp sees them)
type ch struct {
	r     rune
	valid bool
	off   int
}

func runes(s string) []ch {
	var out []ch
	for i := 0; i < len(s); {
		r, w := utf8.DecodeRuneInString(s[i:])
		out = append(out, ch{r, !(r == utf8.RuneError && w == 1), i})
		i += w
	}
	return out
}

func classOK(class string, c ch) bool {
	switch class {
	case "", "[^/]+":
		return !(c.valid && c.r == '/')
	case "[0-9]+":
		return c.valid && c.r >= '0' && c.r <= '9'
	case "[a-z]+":
		return c.valid && c.r >= 'a' && c.r <= 'z'
	case ".*":
		return !(c.valid && c.r == '\n')
	}
	return false
}

func classMin(class string) int {
	if class == ".*" {
		return 0
	}
	return 1
}

// matches: does the pattern match the entire path? (backtracking, existence of a match)
func matches(p Pattern, path string) bool {
	rs := runes(path)
	var rec func(pi, pos int) bool
	rec = func(pi, pos int) bool {
		if pi == len(p) {
			return pos == len(rs)
		}
		part := p[pi]
		if part.Var == "" {
			lr := runes(part.Lit)
			if pos+len(lr) > len(rs) {
				return false
			}
			for i, c := range lr {
				if !rs[pos+i].valid || rs[pos+i].r != c.r {
					return false
				}
			}
			return rec(pi+1, pos+len(lr))
		}
		// variable: every admissible length
		n := 0
		for {
			if n >= classMin(part.Class) && rec(pi+1, pos+n) {
				return true
			}
			if pos+n >= len(rs) || !classOK(part.Class, rs[pos+n]) {
				return false
			}
			n++
		}
	}
	return rec(0, 0)
}

func validVar(class, v string) bool {
	rs := runes(v)
	if len(rs) < classMin(class) {
		return false
	}
	for _, c := range rs {
		if !classOK(class, c) {
			return false
		}
	}
	return true
}

// ---- scenario --------------------------------------------------------------------------------------

type Scenario struct {
	Patterns    []Pattern `json:"patterns"`
	Default     bool      `json:"default"` // install an own default handler
	Middlewares int       `json:"middlewares"`
	Segments    []string  `json:"segments"` // Uri-Path option values of the request ("" allowed)
	NoPath      bool      `json:"nopath"`   // request without any Uri-Path option
	// Again: indices of patterns that are registered a second time, with another handler (the later
	// registration is the one in force); Removed: indices of patterns removed again with HandleRemove
	// before the request (a pattern in both lists is removed after its second registration)
	Again   []int `json:"again,omitempty"`
	Removed []int `json:"removed,omitempty"`
	// Adapter: the request reaches the router the way a connection delivers it - through the
	// function mux.ToHandler makes of the router (what options.WithMux installs) - and not by a
	// direct call of ServeCOAP; Prev: requests (their path segments; nil = no path) that went through
	// the same adapter before the examined one
	Adapter bool       `json:"adapter,omitempty"`
	Prev    [][]string `json:"prev,omitempty"`
	// Steps: a history on the same router between the set-up above and the examined request -
	// requests that are dispatched, patterns registered again (the newest registration is the one in
	// force), removed, registered for the first time, middlewares added - in a generated order: the
	// routing table changes after the router has already served requests
	Steps []Step `json:"steps,omitempty"`
}

type Step struct {
	Kind string   `json:"kind"`           // req | again | remove | use
	I    int      `json:"i,omitempty"`    // again/remove: index into Patterns
	Segs []string `json:"segs,omitempty"` // req: the path segments (nil = no path)
}

type fakeWriter struct{ msg *pool.Message }

func (w *fakeWriter) SetResponse(code codes.Code, cf message.MediaType, d io.ReadSeeker, opts ...message.Option) error {
	w.msg.SetCode(code)
	return nil
}
func (w *fakeWriter) Conn() mux.Conn             { return nil }
func (w *fakeWriter) SetMessage(m *pool.Message) { w.msg = m }
func (w *fakeWriter) Message() *pool.Message     { return w.msg }

type call struct {
	who      string // pattern string or "<default>"
	gen      int    // which registration of the pattern this handler belongs to (1 or 2)
	vars     map[string]string
	template string
	path     string
}

func request(segs []string, noPath bool) *mux.Message {
	m := pool.NewMessage(context.Background())
	m.SetCode(codes.GET)
	if !noPath {
		for _, s := range segs {
			m.AddOptionBytes(message.URIPath, []byte(s))
		}
	}
	return &mux.Message{Message: m, RouteParams: new(mux.RouteParams)}
}

func pathOf(sc Scenario) string {
	if sc.NoPath || len(sc.Segments) == 0 {
		return "/" // no Uri-Path option: the root
	}
	return "/" + strings.Join(sc.Segments, "/")
}

func Exec(sc Scenario) *evid.Failure {
	r := mux.NewRouter()
	r.SetErrorHandler(func(error) {})
	var calls []call
	var order []string
	byPattern := map[string]Pattern{}
	inForce := map[string]int{}
	register := func(p Pattern, gen int) *evid.Failure {
		ps := p.String()
		byPattern[filter(ps)] = p
		inForce[filter(ps)] = gen
		err := r.Handle(ps, mux.HandlerFunc(func(w mux.ResponseWriter, req *mux.Message) {
			vars := map[string]string{}
			for k, v := range req.RouteParams.Vars {
				vars[k] = v
			}
			calls = append(calls, call{ps, gen, vars, req.RouteParams.PathTemplate, req.RouteParams.Path})
			order = append(order, "handler")
		}))
		if err != nil {
			return evid.Failf("route/handle-refused", sc, "Handle(%q) refused a valid pattern: %v", ps, err)
		}
		return nil
	}
	for _, p := range sc.Patterns {
		if f := register(p, 1); f != nil {
			return f
		}
	}
	for _, i := range sc.Again {
		if i < len(sc.Patterns) {
			if f := register(sc.Patterns[i], 2); f != nil {
				return f
			}
		}
	}
	for _, i := range sc.Removed {
		if i < len(sc.Patterns) {
			ps := sc.Patterns[i].String()
			if _, ok := byPattern[filter(ps)]; !ok {
				continue
			}
			if err := r.HandleRemove(ps); err != nil {
				return evid.Failf("route/remove-refused", sc, "HandleRemove(%q) of a registered pattern failed: %v", ps, err)
			}
			delete(byPattern, filter(ps))
		}
	}
	if sc.Default {
		r.DefaultHandle(mux.HandlerFunc(func(w mux.ResponseWriter, req *mux.Message) {
			calls = append(calls, call{who: "<default>"})
			order = append(order, "handler")
		}))
	}
	nmw := 0
	use := func() {
		name := fmt.Sprintf("mw%d", nmw)
		nmw++
		r.Use(func(next mux.Handler) mux.Handler {
			return mux.HandlerFunc(func(w mux.ResponseWriter, req *mux.Message) {
				order = append(order, name+">")
				next.ServeCOAP(w, req)
				order = append(order, "<"+name)
			})
		})
	}
	for i := 0; i < sc.Middlewares; i++ {
		use()
	}
	w := &fakeWriter{msg: pool.NewMessage(context.Background())}
	h := mux.ToHandler[*udpClient.Conn](r)
	if sc.Adapter {
		for _, segs := range sc.Prev {
			h(responsewriter.New[*udpClient.Conn](pool.NewMessage(context.Background()), nil), request(segs, segs == nil).Message)
		}
	}
	gens := map[int]int{}
	for _, st := range sc.Steps {
		switch st.Kind {
		case "req":
			if sc.Adapter {
				h(responsewriter.New[*udpClient.Conn](pool.NewMessage(context.Background()), nil), request(st.Segs, st.Segs == nil).Message)
			} else {
				r.ServeCOAP(&fakeWriter{msg: pool.NewMessage(context.Background())}, request(st.Segs, st.Segs == nil))
			}
		case "again":
			if st.I < len(sc.Patterns) {
				gens[st.I]++
				if f := register(sc.Patterns[st.I], 2+gens[st.I]); f != nil {
					return f
				}
			}
		case "remove":
			if st.I < len(sc.Patterns) {
				ps := sc.Patterns[st.I].String()
				if _, ok := byPattern[filter(ps)]; ok {
					if err := r.HandleRemove(ps); err != nil {
						return evid.Failf("route/remove-refused", sc, "HandleRemove(%q) of a registered pattern failed: %v", ps, err)
					}
					delete(byPattern, filter(ps))
				}
			}
		case "use":
			use()
		}
	}
	calls, order = nil, nil
	if sc.Adapter {
		h(responsewriter.New[*udpClient.Conn](w.msg, nil), request(sc.Segments, sc.NoPath).Message)
	} else {
		r.ServeCOAP(w, request(sc.Segments, sc.NoPath))
	}

	path := pathOf(sc)
	// reference: the set of matching patterns
	var matching []string
	longest := 0
	for ps, p := range byPattern {
		if matches(patternForMatch(p, ps), path) {
			matching = append(matching, ps)
			longest = max(longest, len(ps))
		}
	}
	if !sc.Default {
		// the built-in default handler answers 4.04; it is observable through the writer only
		if len(calls) == 0 && w.msg.Code() == codes.NotFound {
			calls = append(calls, call{who: "<default>"})
			// the built-in handler cannot log itself: it ran inside however many middlewares were entered
			k := min(nmw, len(order)/2)
			order = append(order[:k:k], append([]string{"handler"}, order[k:]...)...)
		}
	}
	if len(calls) != 1 {
		return evid.Failf("route/invocations", sc, "path %q: %d handler invocations %v, want exactly one (matching: %q)", path, len(calls), calls, matching)
	}
	c := calls[0]
	if len(matching) == 0 {
		if c.who != "<default>" {
			return evid.Failf("route/dispatched-to-non-matching", sc, "path %q matches no pattern but was dispatched to %q", path, c.who)
		}
	} else {
		if c.who == "<default>" {
			return evid.Failf("route/default-despite-match", sc, "path %q matches %q but the default handler ran", path, matching)
		}
		ok := false
		for _, m := range matching {
			if filter(c.who) == m {
				ok = true
			}
		}
		if !ok {
			return evid.Failf("route/dispatched-to-non-matching", sc, "path %q dispatched to %q, which does not match it (matching: %q)", path, c.who, matching)
		}
		if len(filter(c.who)) != longest {
			return evid.Failf("route/not-longest", sc, "path %q dispatched to %q (length %d) although a matching pattern of length %d exists: %q", path, c.who, len(filter(c.who)), longest, matching)
		}
		if c.gen != inForce[filter(c.who)] {
			return evid.Failf("route/stale-handler", sc, "path %q was dispatched to the handler of registration %d of pattern %q; registration %d is the one in force", path, c.gen, c.who, inForce[filter(c.who)])
		}
		if c.template != filter(c.who) {
			return evid.Failf("route/template", sc, "PathTemplate = %q, handler pattern %q", c.template, c.who)
		}
		if c.path != path {
			return evid.Failf("route/params-path", sc, "RouteParams.Path = %q, request path %q", c.path, path)
		}
		// variables: valid w.r.t. the pattern — substituting them reproduces the path, each satisfies its class
		p := patternForMatch(byPattern[filter(c.who)], filter(c.who))
		var sb strings.Builder
		for _, part := range p {
			if part.Var == "" {
				sb.WriteString(part.Lit)
				continue
			}
			v, ok := c.vars[part.Var]
			if !ok {
				return evid.Failf("route/var-missing", sc, "variable %q of pattern %q not passed to the handler (vars %v)", part.Var, c.who, c.vars)
			}
			if !validVar(part.Class, v) {
				return evid.Failf("route/var-class", sc, "variable %q = %q does not satisfy its class %q", part.Var, v, part.Class)
			}
			sb.WriteString(v)
		}
		if sb.String() != path {
			return evid.Failf("route/vars-not-substrings", sc, "substituting the variables %v into %q gives %q, the path is %q", c.vars, c.who, sb.String(), path)
		}
		nvars := 0
		for _, part := range p {
			if part.Var != "" {
				nvars++
			}
		}
		if len(c.vars) != nvars {
			return evid.Failf("route/extra-vars", sc, "handler got %d variables %v, pattern %q has %d", len(c.vars), c.vars, c.who, nvars)
		}
	}
	// middlewares: outermost first, in registration order
	var want []string
	for i := 0; i < nmw; i++ {
		want = append(want, fmt.Sprintf("mw%d>", i))
	}
	want = append(want, "handler")
	for i := nmw - 1; i >= 0; i-- {
		want = append(want, fmt.Sprintf("<mw%d", i))
	}
	if strings.Join(order, " ") != strings.Join(want, " ") {
		return evid.Failf("route/middleware-order", sc, "execution order %v, want %v", order, want)
	}
	return nil
}

// filter mirrors the documented treatment of the empty pattern ("" means "/").
func filter(p string) string {
	if p == "" {
		return "/"
	}
	return p
}

func patternForMatch(p Pattern, registered string) Pattern {
	if len(p) == 0 || (len(p) == 1 && p[0].Var == "" && p[0].Lit == "") {
		return Pattern{{Lit: registered}}
	}
	return p
}

// ---- generator -----------------------------------------------------------------------------------------

var litAlphabet = []string{"a", "b", "ab", "x", "1", "42", ".", "+", "*", "?", "(", ")", "[", "]", "|", "^", "$", "\\", "a.b", "a+", "é", "世", "-", "_", "%2F", ":", "\n"}
var classes = []string{"", "", "[0-9]+", "[a-z]+", ".*", "[^/]+"}

func genPattern(t *rapid.T) Pattern {
	switch rapid.IntRange(0, 14).Draw(t, "special") {
	case 0:
		return Pattern{{Lit: ""}}
	case 1:
		return Pattern{{Lit: "/"}}
	}
	nseg := rapid.IntRange(1, 4).Draw(t, "nseg")
	var p Pattern
	vn := 0
	for s := 0; s < nseg; s++ {
		p = append(p, Part{Lit: "/"})
		nparts := rapid.SampledFrom([]int{1, 1, 1, 2, 3}).Draw(t, "nparts")
		lastVar := false
		for k := 0; k < nparts; k++ {
			if rapid.IntRange(0, 2).Draw(t, "isvar") == 0 && !lastVar {
				// (names differ between patterns of the same shape: what a handler is given are the
				// names of *its* pattern)
				p = append(p, Part{Var: fmt.Sprintf("%s%d", rapid.SampledFrom([]string{"v", "id", "name", "deviceID", "userID", "x"}).Draw(t, "varname"), vn), Class: rapid.SampledFrom(classes).Draw(t, "class")})
				vn++
				lastVar = true
			} else {
				p = append(p, Part{Lit: rapid.SampledFrom(litAlphabet).Draw(t, "lit")})
				lastVar = false
			}
		}
	}
	if rapid.IntRange(0, 9).Draw(t, "trailing") == 0 {
		p = append(p, Part{Lit: "/"})
	}
	// merge adjacent literals so that String() and the part list agree after a JSON round-trip
	var out Pattern
	for _, x := range p {
		if x.Var == "" && len(out) > 0 && out[len(out)-1].Var == "" {
			out[len(out)-1].Lit += x.Lit
		} else {
			out = append(out, x)
		}
	}
	return out
}

func instantiate(t *rapid.T, p Pattern) string {
	var sb strings.Builder
	for _, x := range p {
		if x.Var == "" {
			sb.WriteString(x.Lit)
			continue
		}
		switch x.Class {
		case "[0-9]+":
			sb.WriteString(rapid.SampledFrom([]string{"0", "7", "42", "007"}).Draw(t, "iv"))
		case "[a-z]+":
			sb.WriteString(rapid.SampledFrom([]string{"a", "z", "abc"}).Draw(t, "iv"))
		case ".*":
			sb.WriteString(rapid.SampledFrom([]string{"", "x", "a/b", "42", "a.b"}).Draw(t, "iv"))
		default:
			sb.WriteString(rapid.SampledFrom([]string{"a", "42", "a.b", "x+y", "é", "\xff", "ab"}).Draw(t, "iv"))
		}
	}
	return sb.String()
}

func genScenario(t *rapid.T) (sc Scenario) {
	sc = genDirect(t)
	defer func() {
		// a history between the set-up and the examined request (a third of the scenarios)
		if rapid.IntRange(0, 2).Draw(t, "history") != 0 {
			return
		}
		n := rapid.IntRange(1, 6).Draw(t, "nsteps")
		for i := 0; i < n; i++ {
			st := Step{Kind: rapid.SampledFrom([]string{"req", "req", "req", "again", "again", "remove", "use"}).Draw(t, "stepkind")}
			switch st.Kind {
			case "req":
				// mostly the examined request itself or an instance of a pattern: what a router that
				// remembers earlier decisions would remember
				switch rapid.IntRange(0, 3).Draw(t, "stepreq") {
				case 0:
					st.Segs = []string{"nothing", "registered", "here"}
				case 1:
					if path := strings.TrimPrefix(instantiate(t, sc.Patterns[rapid.IntRange(0, len(sc.Patterns)-1).Draw(t, "stepwhich")]), "/"); path != "" {
						st.Segs = strings.Split(path, "/")
					}
				default:
					if !sc.NoPath {
						st.Segs = append([]string{}, sc.Segments...)
					}
				}
			case "again", "remove":
				st.I = rapid.IntRange(0, len(sc.Patterns)-1).Draw(t, "stepi")
			}
			sc.Steps = append(sc.Steps, st)
		}
	}()
	if rapid.IntRange(0, 2).Draw(t, "adapter") == 0 {
		sc.Adapter = true
		n := rapid.IntRange(0, 3).Draw(t, "nprev")
		for i := 0; i < n; i++ {
			path := "/nothing/registered/here"
			if rapid.IntRange(0, 3).Draw(t, "prevkind") > 0 {
				path = instantiate(t, sc.Patterns[rapid.IntRange(0, len(sc.Patterns)-1).Draw(t, "prevwhich")])
			}
			path = strings.TrimPrefix(path, "/")
			if path == "" {
				sc.Prev = append(sc.Prev, nil)
			} else {
				sc.Prev = append(sc.Prev, strings.Split(path, "/"))
			}
		}
	}
	return sc
}

func genDirect(t *rapid.T) Scenario {
	sc := Scenario{Default: rapid.Bool().Draw(t, "default"), Middlewares: rapid.IntRange(0, 3).Draw(t, "mw")}
	n := rapid.IntRange(1, 6).Draw(t, "npat")
	seen := map[string]bool{}
	for i := 0; i < n; i++ {
		var p Pattern
		if i > 0 && rapid.IntRange(0, 3).Draw(t, "derive") == 0 {
			// derive from an earlier pattern: prefix, or swap a variable for a literal (overlaps, equal lengths)
			base := sc.Patterns[rapid.IntRange(0, len(sc.Patterns)-1).Draw(t, "base")]
			p = append(Pattern{}, base[:rapid.IntRange(1, len(base)).Draw(t, "cutp")]...)
			if rapid.IntRange(0, 3).Draw(t, "rename") == 0 {
				// the same shape under other variable names
				p = append(Pattern{}, base...)
				for k := range p {
					if p[k].Var != "" {
						p[k].Var = "r" + p[k].Var
					}
				}
			} else if rapid.Bool().Draw(t, "ext") {
				p = append(p, Part{Lit: "/" + rapid.SampledFrom(litAlphabet).Draw(t, "lit")})
			}
			var out Pattern
			for _, x := range p {
				if x.Var == "" && len(out) > 0 && out[len(out)-1].Var == "" {
					out[len(out)-1].Lit += x.Lit
				} else {
					out = append(out, x)
				}
			}
			p = out
		} else {
			p = genPattern(t)
		}
		if s := filter(p.String()); !seen[s] {
			seen[s] = true
			sc.Patterns = append(sc.Patterns, p)
		}
	}
	if rapid.IntRange(0, 3).Draw(t, "rereg") == 0 {
		sc.Again = rapid.SliceOfNDistinct(rapid.IntRange(0, len(sc.Patterns)-1), 1, len(sc.Patterns), rapid.ID[int]).Draw(t, "again")
	}
	if len(sc.Patterns) > 1 && rapid.IntRange(0, 5).Draw(t, "remove") == 0 {
		sc.Removed = rapid.SliceOfNDistinct(rapid.IntRange(0, len(sc.Patterns)-1), 1, len(sc.Patterns)-1, rapid.ID[int]).Draw(t, "removed")
	}
	var path string
	switch rapid.IntRange(0, 9).Draw(t, "pathkind") {
	case 0:
		sc.NoPath = true
		return sc
	case 1, 2, 3, 4, 5: // an instance of one of the patterns
		path = instantiate(t, sc.Patterns[rapid.IntRange(0, len(sc.Patterns)-1).Draw(t, "which")])
	case 6, 7: // a mutated instance
		path = instantiate(t, sc.Patterns[rapid.IntRange(0, len(sc.Patterns)-1).Draw(t, "which")])
		if len(path) > 0 {
			pos := rapid.IntRange(0, len(path)-1).Draw(t, "mpos")
			switch rapid.IntRange(0, 2).Draw(t, "mkind") {
			case 0:
				path = path[:pos] + path[pos+1:]
			case 1:
				path = path[:pos] + rapid.SampledFrom([]string{"/", "x", ".", "0", "\xfe"}).Draw(t, "ins") + path[pos:]
			case 2:
				path = path[:pos]
			}
		}
	default:
		k := rapid.IntRange(0, 4).Draw(t, "nrand")
		for i := 0; i < k; i++ {
			path += "/" + rapid.SampledFrom([]string{"a", "b", "42", "", "a.b", "x", "\xff\xfe", "é"}).Draw(t, "rseg")
		}
	}
	// a request carries the path as Uri-Path options: one per segment behind the leading slash
	path = strings.TrimPrefix(path, "/")
	if path == "" {
		if rapid.Bool().Draw(t, "emptyseg") {
			sc.Segments = []string{""}
		} else {
			sc.NoPath = true
		}
		return sc
	}
	sc.Segments = strings.Split(path, "/")
	return sc
}

func nonTrivial(sc Scenario) bool {
	path := pathOf(sc)
	n := 0
	meta := false
	for _, p := range sc.Patterns {
		ps := filter(p.String())
		if matches(patternForMatch(p, ps), path) {
			n++
			for _, part := range p {
				if part.Var == "" && strings.ContainsAny(part.Lit, ".+*?()[]|^$\\") {
					meta = true
				}
			}
		}
	}
	return n >= 2 || meta
}

// ---- concurrent phase (run under -race) ------------------------------------------------------------------

func concurrentEngine() evid.Engine {
	return evid.Engine{Name: "concurrent",
		Replay: func(json.RawMessage) *evid.Failure { return nil },
		Search: func(r *evid.Run) {
			d := 6 * time.Second
			if r.Thorough() {
				d = 60 * time.Second
			}
			router := mux.NewRouter()
			router.SetErrorHandler(func(error) {})
			var bad atomic.Pointer[evid.Failure]
			var dispatched, defaults atomic.Int64
			mk := func(p Pattern) mux.Handler {
				ps := filter(p.String())
				return mux.HandlerFunc(func(w mux.ResponseWriter, req *mux.Message) {
					dispatched.Add(1)
					path, _ := req.Options().Path()
					if path == "" {
						path = "/"
					}
					if !matches(patternForMatch(p, ps), path) {
						bad.CompareAndSwap(nil, evid.Failf("concurrent/dispatched-to-non-matching", map[string]any{"pattern": ps, "path": path}, "path %q was dispatched to pattern %q, which does not match it", path, ps))
					}
				})
			}
			stable := []Pattern{
				{{Lit: "/stable/a"}},
				{{Lit: "/stable/"}, {Var: "id", Class: "[0-9]+"}},
				{{Lit: "/s.t/"}, {Var: "x"}},
			}
			stablePaths := [][]string{{"stable", "a"}, {"stable", "123"}, {"s.t", "q"}}
			for _, p := range stable {
				_ = router.Handle(p.String(), mk(p))
			}
			churn := []Pattern{
				{{Lit: "/churn/a"}},
				{{Lit: "/churn/"}, {Var: "v"}},
				{{Lit: "/churn/"}, {Var: "v", Class: "[a-z]+"}, {Lit: "/x"}},
				{{Lit: "/stable/a/b"}},
				{{Lit: "/"}, {Var: "any", Class: ".*"}, {Lit: "/zz"}},
			}
			churnPaths := [][]string{{"churn", "a"}, {"churn", "q", "x"}, {"stable", "a", "b"}, {"k", "zz"}, {"nomatch"}}
			router.DefaultHandle(mux.HandlerFunc(func(w mux.ResponseWriter, req *mux.Message) {
				defaults.Add(1)
				path, _ := req.Options().Path()
				for i, sp := range stablePaths {
					if path == "/"+strings.Join(sp, "/") {
						bad.CompareAndSwap(nil, evid.Failf("concurrent/default-despite-stable-route", map[string]any{"path": path}, "path %q is matched by the stable route %q, which is registered during the whole run, but reached the default handler", path, stable[i].String()))
					}
				}
			}))
			stop := make(chan struct{})
			var wg sync.WaitGroup
			for g := 0; g < 4; g++ { // mutators
				wg.Add(1)
				go func(g int) {
					defer wg.Done()
					i := g
					for {
						select {
						case <-stop:
							return
						default:
						}
						p := churn[i%len(churn)]
						if i%3 == 0 {
							_ = router.HandleRemove(p.String())
						} else {
							_ = router.Handle(p.String(), mk(p))
						}
						if i%17 == 0 {
							router.DefaultHandle(mux.HandlerFunc(func(w mux.ResponseWriter, req *mux.Message) {
								defaults.Add(1)
								path, _ := req.Options().Path()
								for k, sp := range stablePaths {
									if path == "/"+strings.Join(sp, "/") {
										bad.CompareAndSwap(nil, evid.Failf("concurrent/default-despite-stable-route", map[string]any{"path": path}, "path %q matched by stable route %q reached the default handler", path, stable[k].String()))
									}
								}
							}))
						}
						_ = router.GetRoutes()
						i++
					}
				}(g)
			}
			for g := 0; g < 8; g++ { // dispatchers
				wg.Add(1)
				go func(g int) {
					defer wg.Done()
					i := g
					for {
						select {
						case <-stop:
							return
						default:
						}
						var segs []string
						if i%2 == 0 {
							segs = stablePaths[i/2%len(stablePaths)]
						} else {
							segs = churnPaths[i/2%len(churnPaths)]
						}
						w := &fakeWriter{msg: pool.NewMessage(context.Background())}
						router.ServeCOAP(w, request(segs, false))
						i++
					}
				}(g)
			}
			time.Sleep(d)
			close(stop)
			wg.Wait()
			if f := bad.Load(); f != nil {
				f.Engine = "concurrent"
				r.Fail(f)
			}
			r.Eval(dispatched.Load() + defaults.Load())
			r.Class("concurrent/dispatches", dispatched.Load())
			r.Class("concurrent/defaults", defaults.Load())
			r.Note("concurrent_phase", fmt.Sprintf("4 goroutines calling Handle/HandleRemove/DefaultHandle/GetRoutes and 8 dispatching for %v under the race detector; 3 stable routes", d))
		}}
}

func TestCheck(t *testing.T) {
	r := evid.New(t, "C17")
	seq := evid.RapidEngine("dispatch", evid.RapidOpts{Quick: 20000, Thorough: 1000000}, genScenario, func(sc Scenario) *evid.Failure {
		f := Exec(sc)
		if f == nil {
			key := ""
			if nonTrivial(sc) {
				b, _ := json.Marshal(sc)
				key = string(b)
			}
			cls := "dispatch/path=instance"
			if sc.NoPath {
				cls = "dispatch/path=none"
			}
			clss := []string{cls}
			if sc.Adapter {
				clss = append(clss, fmt.Sprintf("dispatch/through-the-connection-adapter/earlier-requests=%d", len(sc.Prev)))
			}
			r.Case("dispatch", key, func() any { return sc }, clss...)
		}
		return f
	})
	r.Main(evid.Meta{
		Rule:        "1-6 patterns from a segment grammar (literals with regexp metacharacters and multi-byte runes, {v}, {v:[0-9]+}, {v:[a-z]+}, {v:.*}, {v:[^/]+}, several variables per segment, derived overlapping/prefix patterns, \"\" and \"/\") and a request path (instance of a pattern, mutated instance, random segments incl. empty and non-UTF-8 ones, or none); oracle: a hand-written backtracking matcher gives the set of patterns matching the entire path; patterns may be registered a second time with another handler (the later one is in force) or removed again before the request; in a third of the cases the request goes through the function mux.ToHandler makes of the router (what a connection calls), after 0-3 earlier requests through the same function; exactly one invocation, default iff the set is empty, else a member of maximal length, variables valid (substitution reproduces the path, classes satisfied, none besides the pattern's own), PathTemplate, middleware order. Non-trivial = >= 2 patterns match or the matching literal contains a metacharacter; distinct by scenario. Concurrent phase under -race: Handle/HandleRemove/DefaultHandle vs ServeCOAP with stable routes",
		Assumptions: []string{"patterns are valid UTF-8 without U+FFFD and without capturing groups (documented restriction); Router.Use is not called concurrently with dispatch", "ties between equally long matching patterns may be resolved either way"},
		Floor:       1000,
	}, seq, concurrentEngine())
}
