// Package wire gives the scripted peer one interface over both in-memory transports.
package wire

import (
	"verif/memnet"
	"verif/peer"
	"verif/refcodec"
)

// Wire is the peer's view of a link whose other end is a library endpoint.
type Wire interface {
	// ToLib delivers one message to the library endpoint immediately.
	ToLib(m refcodec.Msg)
	// FromLib returns the messages the library wrote since the last call.
	FromLib() []refcodec.Msg
	Datagram() bool
	Bad() bool // the library wrote something undecodable
}

type udpWire struct {
	link *memnet.PacketLink
	seen int
	bad  bool
}

// UDP: the library owns link.A, the peer injects into A and reads A's writes from the log.
func UDP(link *memnet.PacketLink) Wire { return &udpWire{link: link} }

func (w *udpWire) ToLib(m refcodec.Msg) { w.link.A.Inject(peer.Datagram(m)) }
func (w *udpWire) Datagram() bool       { return true }
func (w *udpWire) Bad() bool            { return w.bad }
func (w *udpWire) FromLib() []refcodec.Msg {
	sent := w.link.Sent(0)
	var out []refcodec.Msg
	for ; w.seen < len(sent); w.seen++ {
		m, ok := peer.ParseDatagram(sent[w.seen])
		if !ok {
			w.bad = true
			continue
		}
		out = append(out, m)
	}
	return out
}

type tcpWire struct {
	link *memnet.StreamLink
	buf  []byte
	bad  bool
}

// TCP: the library owns link.A, the peer writes to and reads from link.B.
func TCP(link *memnet.StreamLink) Wire { return &tcpWire{link: link} }

func (w *tcpWire) ToLib(m refcodec.Msg) { _, _ = w.link.B.Write(peer.Frame(m)) }
func (w *tcpWire) Datagram() bool       { return false }
func (w *tcpWire) Bad() bool            { return w.bad }
func (w *tcpWire) FromLib() []refcodec.Msg {
	w.buf = append(w.buf, w.link.B.TakeAll()...)
	msgs, rest, bad := peer.ParseFrames(w.buf)
	if bad {
		w.bad = true
		rest = nil
	}
	w.buf = append([]byte(nil), rest...)
	return msgs
}

// Respond builds the peer's answer to a request: piggy-backed on an ACK for a confirmable
// datagram request, a NON for a non-confirmable one, a plain frame on a stream.
func Respond(w Wire, req refcodec.Msg, code int, opts []refcodec.Opt, payload []byte, nextMID *int) refcodec.Msg {
	m := refcodec.Msg{Code: code, Token: req.Token, Opts: opts, Payload: payload}
	if w.Datagram() {
		if req.Type == peer.CON {
			m.Type, m.MID = peer.ACK, req.MID
		} else {
			*nextMID++
			m.Type, m.MID = peer.NON, *nextMID&0xffff
		}
	}
	return m
}
