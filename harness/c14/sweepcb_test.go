package c14

// Engine "sweepcb": the expiry sweep with on-expire callbacks that themselves work on the cache
// (what the block-wise layer's callbacks do: they delete entries of a second cache, and a user's
// callback may store, delete or prolong entries of the same one). Sequential and deterministic apart
// from the order in which the sweep visits the keys. Statement clauses: "callbacks run against the
// value actually in the map, and the expiry sweep never removes or replaces an entry that has not
// expired".
//
// Reference: the sweep visits the keys that were present when it started in SOME order; at each
// visit, if the key still holds the element it held at the start and that element is expired *now*,
// the element is removed and then its callback runs (the callback's action takes effect on the
// map at once). The observed outcome (final content, callback log with what each callback found)
// must be the outcome of the reference for at least one visiting order.

import (
	"encoding/json"
	"fmt"
	"sort"
	"strings"
	"time"

	"github.com/plgd-dev/go-coap/v3/pkg/cache"
	"pgregory.net/rapid"

	"verif/evid"
)

type cbElem struct {
	State  string `json:"state"`            // live | expired | never | absent
	Action string `json:"action,omitempty"` // what its on-expire callback does: "" | prolong | store-live | store-expired | delete
	Target int    `json:"target,omitempty"` // index of the key the action works on
}

type cbScenario struct {
	Elems  []cbElem `json:"elems"`  // one per key k0..k3
	Sweeps int      `json:"sweeps"` // 1-2 consecutive sweeps
}

// ---- reference ------------------------------------------------------------------------------------------------

type refElem struct {
	id      int // identity: index of the scenario element, or 100+n for elements stored by callbacks
	expired bool
	action  string
	target  int
	silent  bool // stored by a callback: its own on-expire callback does nothing
}

type refState struct {
	m    map[int]*refElem // key index -> element
	log  []string
	next int
	// iteration state of the sweep in progress (Go's rules for a map that changes while it is
	// ranged over): a key that is in the map from the start of the sweep to its visit is visited
	// exactly once and shows its current element; a key removed before its visit is not visited; a
	// key created during the sweep (also: removed and created again) may be visited or skipped
	visited  map[int]bool
	optional map[int]bool
}

func (r *refState) clone() *refState {
	c := &refState{m: map[int]*refElem{}, log: append([]string(nil), r.log...), next: r.next, visited: map[int]bool{}, optional: map[int]bool{}}
	for k, e := range r.m {
		ce := *e
		c.m[k] = &ce
	}
	for k := range r.visited {
		c.visited[k] = true
	}
	for k := range r.optional {
		c.optional[k] = true
	}
	return c
}

func (r *refState) remove(k int) {
	delete(r.m, k)
	delete(r.visited, k)
	delete(r.optional, k)
}

func (r *refState) store(k int, e *refElem) {
	if _, ok := r.m[k]; !ok {
		r.optional[k] = true // created during the sweep
		delete(r.visited, k)
	}
	r.m[k] = e
}

func (r *refState) runCallback(e *refElem) {
	if e.silent {
		return
	}
	switch e.action {
	case "":
		r.log = append(r.log, fmt.Sprintf("cb%d", e.id))
	case "prolong":
		t, ok := r.m[e.target]
		if ok {
			t.expired = false
		}
		r.log = append(r.log, fmt.Sprintf("cb%d:prolong(k%d)=%v", e.id, e.target, ok))
	case "delete":
		_, ok := r.m[e.target]
		r.remove(e.target)
		r.log = append(r.log, fmt.Sprintf("cb%d:delete(k%d)=%v", e.id, e.target, ok))
	case "store-live", "store-expired":
		r.next++
		r.store(e.target, &refElem{id: 100 + r.next, expired: e.action == "store-expired", silent: true})
		r.log = append(r.log, fmt.Sprintf("cb%d:%s(k%d)", e.id, e.action, e.target))
	}
}

func (r *refState) outcome() string {
	var keys []int
	for k := range r.m {
		keys = append(keys, k)
	}
	sort.Ints(keys)
	var sb strings.Builder
	for _, k := range keys {
		fmt.Fprintf(&sb, "k%d=e%d ", k, r.m[k].id)
	}
	return sb.String() + "| " + strings.Join(r.log, " ")
}

// refSweep returns the outcomes of one sweep from state r for every visiting order the rules allow.
func refSweep(r *refState) []*refState {
	var out []*refState
	seen := map[string]bool{}
	var rec func(st *refState)
	rec = func(st *refState) {
		var must, may []int
		for k := range st.m {
			if st.visited[k] {
				continue
			}
			if st.optional[k] {
				may = append(may, k)
			} else {
				must = append(must, k)
			}
		}
		if len(must) == 0 {
			if k := st.outcome(); !seen[k] {
				seen[k] = true
				out = append(out, st)
			}
		}
		sort.Ints(must)
		sort.Ints(may)
		for _, k := range append(must, may...) {
			c := st.clone()
			c.visited[k] = true
			if e := c.m[k]; e.expired {
				// removed (the key still holds the element that was found expired), then the callback
				c.remove(k)
				c.runCallback(e)
			}
			rec(c)
		}
	}
	start := r.clone()
	start.visited, start.optional = map[int]bool{}, map[int]bool{}
	rec(start)
	return out
}

// ---- subject ----------------------------------------------------------------------------------------------------

func execSweepCb(sc cbScenario) (fail *evid.Failure) {
	defer func() {
		if p := recover(); p != nil {
			fail = evid.Failf("sweepcb/panic", sc, "panic during the sweep: %v", p)
		}
	}()
	now := time.Now()
	c := cache.NewCache[int, int]()
	var log []string
	next := 0
	until := func(state string) time.Time {
		switch state {
		case "expired", "store-expired":
			return now.Add(-time.Hour)
		case "never":
			return time.Time{}
		}
		return now.Add(time.Hour)
	}
	ref := &refState{m: map[int]*refElem{}, visited: map[int]bool{}, optional: map[int]bool{}}
	for i, e := range sc.Elems {
		if e.State == "absent" {
			continue
		}
		i, e := i, e
		onExpire := func(id int) {
			switch e.Action {
			case "":
				log = append(log, fmt.Sprintf("cb%d", id))
			case "prolong":
				_, ok := c.Map.LoadWithFunc(e.Target, func(t *cache.Element[int]) *cache.Element[int] {
					t.ValidUntil.Store(now.Add(time.Hour))
					return t
				})
				log = append(log, fmt.Sprintf("cb%d:prolong(k%d)=%v", id, e.Target, ok))
			case "delete":
				_, ok := c.LoadAndDelete(e.Target)
				log = append(log, fmt.Sprintf("cb%d:delete(k%d)=%v", id, e.Target, ok))
			case "store-live", "store-expired":
				next++
				c.Store(e.Target, cache.NewElement(100+next, until(e.Action), nil))
				log = append(log, fmt.Sprintf("cb%d:%s(k%d)", id, e.Action, e.Target))
			}
		}
		c.Store(i, cache.NewElement(i, until(e.State), onExpire))
		ref.m[i] = &refElem{id: i, expired: e.State == "expired", action: e.Action, target: e.Target}
	}
	states := []*refState{ref}
	for s := 0; s < sc.Sweeps; s++ {
		c.CheckExpirations(now)
		var nextStates []*refState
		seen := map[string]bool{}
		for _, st := range states {
			for _, o := range refSweep(st) {
				if k := o.outcome(); !seen[k] {
					seen[k] = true
					nextStates = append(nextStates, o)
				}
			}
		}
		states = nextStates
		// observed
		var keys []int
		c.Range(func(k int, _ *cache.Element[int]) bool { keys = append(keys, k); return true })
		sort.Ints(keys)
		var sb strings.Builder
		for _, k := range keys {
			e, _ := c.Map.Load(k)
			fmt.Fprintf(&sb, "k%d=e%d ", k, e.Data())
		}
		got := sb.String() + "| " + strings.Join(log, " ")
		var match []*refState
		for _, st := range states {
			if st.outcome() == got {
				match = append(match, st)
			}
		}
		if len(match) == 0 {
			var want []string
			for _, st := range states {
				want = append(want, st.outcome())
			}
			sort.Strings(want)
			if len(want) > 6 {
				want = append(want[:6], "...")
			}
			return evid.Failf("sweepcb/outcome", sc, "after sweep %d the cache and the callback log are [%s]; no visiting order of a sweep that removes exactly the entries that are expired when it looks at them gives that (possible: %s)", s+1, got, strings.Join(want, " || "))
		}
		states = match
	}
	return nil
}

func genSweepCb(t *rapid.T) cbScenario {
	n := rapid.IntRange(2, 4).Draw(t, "nkeys")
	sc := cbScenario{Sweeps: rapid.IntRange(1, 2).Draw(t, "sweeps")}
	for i := 0; i < n; i++ {
		e := cbElem{State: rapid.SampledFrom([]string{"expired", "expired", "expired", "live", "never", "absent"}).Draw(t, "state")}
		if e.State == "expired" {
			e.Action = rapid.SampledFrom([]string{"", "prolong", "prolong", "store-live", "store-expired", "delete"}).Draw(t, "action")
			e.Target = rapid.IntRange(0, n-1).Draw(t, "target")
		}
		sc.Elems = append(sc.Elems, e)
	}
	return sc
}

func cbNonTrivial(sc cbScenario) bool {
	// a callback works on another key that is itself expired at the start
	for i, e := range sc.Elems {
		if e.State == "expired" && e.Action != "" && e.Target != i && sc.Elems[e.Target].State == "expired" {
			return true
		}
	}
	return false
}

func sweepCbEngine(r *evid.Run) evid.Engine {
	e := evid.RapidEngine("sweepcb", evid.RapidOpts{Quick: 20000, Thorough: 300000}, genSweepCb, func(sc cbScenario) *evid.Failure {
		f := execSweepCb(sc)
		if f == nil {
			key := ""
			if cbNonTrivial(sc) {
				b, _ := json.Marshal(sc)
				key = string(b)
			}
			r.Case("sweepcb", key, func() any { return sc })
		}
		return f
	})
	// exhaustive part: every configuration of 2 keys, and of 3 keys with all of them expired
	search := e.Search
	e.Search = func(r *evid.Run) {
		states := []string{"expired", "live", "never", "absent"}
		actions := []string{"", "prolong", "store-live", "store-expired", "delete"}
		var confs int64
		var rec func(n int, elems []cbElem, onlyExpired bool) bool
		rec = func(n int, elems []cbElem, onlyExpired bool) bool {
			if len(elems) == n {
				for sweeps := 1; sweeps <= 2; sweeps++ {
					sc := cbScenario{Elems: append([]cbElem(nil), elems...), Sweeps: sweeps}
					if f := evid.SafeExec("sweepcb", execSweepCb, sc); f != nil {
						r.Fail(f)
						if !r.IsKnown(f) {
							return false
						}
					}
					confs++
				}
				return true
			}
			for _, s := range states {
				if onlyExpired && s != "expired" {
					continue
				}
				if s != "expired" {
					if !rec(n, append(elems, cbElem{State: s}), onlyExpired) {
						return false
					}
					continue
				}
				for _, a := range actions {
					targets := n
					if a == "" {
						targets = 1
					}
					for tg := 0; tg < targets; tg++ {
						if !rec(n, append(elems, cbElem{State: s, Action: a, Target: tg}), onlyExpired) {
							return false
						}
					}
				}
			}
			return true
		}
		if rec(2, nil, false) && rec(3, nil, true) {
			r.Eval(confs)
			r.AddDistinct(confs)
			r.Note("sweepcb_exhaustive_subdomain", fmt.Sprintf("all %d configurations of 2 keys (any state, any callback action) and of 3 expired keys (any callback action), 1 and 2 sweeps", confs))
		}
		search(r)
	}
	return e
}
