package c14

import (
	"encoding/json"
	"fmt"
	"sort"
	"sync"
	"sync/atomic"
	"testing"

	"github.com/anishathalye/porcupine"
	"github.com/plgd-dev/go-coap/v3/pkg/cache"
	"pgregory.net/rapid"

	"verif/evid"
)

var model = keyModel()

// ---- engine 1: sequential model-based runs of the complete API --------------------------------------------

type seqScenario struct {
	Ops []Op `json:"ops"`
}

var mapKinds = []string{"Store", "StoreWithFunc", "Load", "LoadOrStore", "Replace", "Delete", "LoadAndDelete", "LoadWithFunc", "LoadOrStoreWithFunc", "ReplaceWithFunc", "DeleteWithFunc", "LoadAndDeleteWithFunc", "Range", "Range2", "CopyData", "Length", "LoadAndDeleteAll"}
var cacheKinds = []string{"CStore", "CLoad", "CLoadOrStore", "CDelete", "CLoadAndDelete", "CSweep", "CRange", "CRawLoad"}

func isCacheKind(k string) bool {
	for _, c := range cacheKinds {
		if c == k {
			return true
		}
	}
	return false
}

func genOp(t *rapid.T, kinds []string, keys []string) Op {
	op := Op{Kind: rapid.SampledFrom(kinds).Draw(t, "kind")}
	if !wholeMapOp(op.Kind) && op.Kind != "CSweep" {
		op.Key = rapid.SampledFrom(keys).Draw(t, "key")
	}
	switch op.Kind {
	case "Store", "StoreWithFunc", "LoadOrStore", "Replace", "LoadOrStoreWithFunc", "CStore", "CLoadOrStore":
		op.Val = rapid.IntRange(1, 9).Draw(t, "val")
	case "ReplaceWithFunc":
		op.Val = rapid.SampledFrom([]int{-1, 1, 2, 3}).Draw(t, "val")
	}
	if op.Kind == "CStore" || op.Kind == "CLoadOrStore" {
		op.Exp = rapid.Bool().Draw(t, "exp")
		op.Never = !op.Exp && rapid.IntRange(0, 2).Draw(t, "never") == 0
	}
	return op
}

func execSeq(sc seqScenario) *evid.Failure {
	keys := []string{"a", "b", "c"}
	s := newSubject(keys)
	mstate := map[string]kstate{} // map target
	cstate := map[string]kstate{} // cache target
	// results that are maps of their own (CopyData, LoadAndDeleteAll) belong to the caller: they do not
	// change when the map is operated on later, and writing to them does not change the map
	type kept struct {
		step int
		kind string
		m    map[string]int
		snap string
	}
	var retained []kept
	for i, op := range sc.Ops {
		o := s.do(op)
		if (op.Kind == "CopyData" || op.Kind == "LoadAndDeleteAll") && o.Panic == "" {
			retained = append(retained, kept{i, op.Kind, o.Pairs, fmt.Sprint(o.Pairs)})
		}
		for _, k := range retained {
			if k.step < i && fmt.Sprint(k.m) != k.snap {
				return evid.Failf("seq/result-changed-later", sc, "the result of step %d (%s) was %s when it was returned and reads %v after step %d (%+v): it is still connected to the map", k.step, k.kind, k.snap, k.m, i, op)
			}
		}
		if o.Panic != "" {
			return evid.Failf("seq/panic", sc, "step %d %+v panicked: %s", i, op, o.Panic)
		}
		target := mstate
		if isCacheKind(op.Kind) {
			target = cstate
		}
		fail := func(format string, args ...any) *evid.Failure {
			return evid.Failf("seq/"+op.Kind, sc, "step %d %+v -> %+v: %s", i, op, o, fmt.Sprintf(format, args...))
		}
		pairsOf := func(st map[string]kstate) map[string]int {
			m := map[string]int{}
			for k, v := range st {
				if v.Present {
					m[k] = v.V
				}
			}
			return m
		}
		switch op.Kind {
		case "Range", "Range2", "CopyData", "CRange":
			if want := pairsOf(target); fmt.Sprint(want) != fmt.Sprint(o.Pairs) {
				return fail("content %v, model %v", o.Pairs, want)
			}
		case "Length":
			if want := len(pairsOf(target)); o.Length != want {
				return fail("length %d, model %d", o.Length, want)
			}
		case "LoadAndDeleteAll":
			if want := pairsOf(target); fmt.Sprint(want) != fmt.Sprint(o.Pairs) {
				return fail("content %v, model %v", o.Pairs, want)
			}
			for k := range target {
				delete(target, k)
			}
		case "CSweep":
			// sequentially a sweep removes exactly the expired elements
			for k, v := range target {
				if v.Present && v.Exp {
					delete(target, k)
				}
			}
		default:
			next := stepKey(target[op.Key], kin{Op: op}, o)
			if len(next) == 0 {
				return fail("not allowed by the sequential specification in state %+v", target[op.Key])
			}
			target[op.Key] = next[0].(kstate)
		}
		// full comparison of the cache content after every step
		for _, k := range keys {
			if e, ok := s.c.Map.Load(k); ok != cstate[k].Present || (ok && e.Data() != cstate[k].V) {
				return fail("after the step the cache holds (%v present=%v) for %q, model %+v", e, ok, k, cstate[k])
			}
			if v, ok := s.m.Load(k); ok != mstate[k].Present || (ok && v != mstate[k].V) {
				return fail("after the step the map holds (%v,%v) for %q, model %+v", v, ok, k, mstate[k])
			}
		}
	}
	for _, k := range retained {
		k.m["zz"] = 99
		if v, ok := s.m.Load("zz"); ok {
			return evid.Failf("seq/result-aliases-the-map", sc, "writing to the result of step %d (%s) stored %d under a new key of the map itself", k.step, k.kind, v)
		}
	}
	return nil
}

// ---- engine 2: deterministic schedules at critical-section granularity ---------------------------------------

type schedScenario struct {
	Workers [][]Op `json:"workers"`
}

type sworker struct {
	ops     []Op
	resume  chan struct{}
	yielded chan string
}

var curWorker atomic.Pointer[sworker]

func init() {
	cache.VerifYield = func(site string) {
		if w := curWorker.Load(); w != nil {
			w.yielded <- site
			<-w.resume
		}
	}
}

type decision struct {
	chosen   int
	runnable []int
}

// runSchedule executes the scenario following prefix (then always the lowest runnable worker).
func runSchedule(sc schedScenario, prefix []int) (hist []hrec, trace []decision) {
	keys := []string{"a", "b", "x", "y"}
	s := newSubject(keys)
	var clock int64
	var hmu sync.Mutex
	workers := make([]*sworker, len(sc.Workers))
	done := make([]bool, len(workers))
	for i, ops := range sc.Workers {
		w := &sworker{ops: ops, resume: make(chan struct{}), yielded: make(chan string)}
		workers[i] = w
		go func(i int) {
			<-w.resume
			for j, op := range w.ops {
				call := atomic.AddInt64(&clock, 1)
				o := s.do(op)
				ret := atomic.AddInt64(&clock, 1)
				hmu.Lock()
				hist = append(hist, hrec{worker: i, op: op, call: call, ret: ret, out: o})
				hmu.Unlock()
				if j < len(w.ops)-1 {
					w.yielded <- "op"
					<-w.resume
				}
			}
			w.yielded <- "done"
		}(i)
	}
	s.yield = func(site string) {
		if w := curWorker.Load(); w != nil {
			w.yielded <- site
			<-w.resume
		}
	}
	for step := 0; ; step++ {
		var runnable []int
		for i := range workers {
			if !done[i] && len(workers[i].ops) > 0 {
				runnable = append(runnable, i)
			}
		}
		if len(runnable) == 0 {
			break
		}
		choice := runnable[0]
		if step < len(prefix) {
			// Go's map iteration order is random, so a replayed prefix can diverge when an
			// iterating operation is involved: follow the prefix only while it is feasible
			for _, x := range runnable {
				if x == prefix[step] {
					choice = x
				}
			}
		}
		trace = append(trace, decision{choice, runnable})
		w := workers[choice]
		curWorker.Store(w)
		w.resume <- struct{}{}
		if site := <-w.yielded; site == "done" {
			done[choice] = true
		}
		curWorker.Store(nil)
	}
	// final read-out, sequential
	for _, k := range keys {
		kind := "Load"
		if k == "x" || k == "y" {
			kind = "CRawLoad"
		}
		op := Op{Kind: kind, Key: k}
		call := atomic.AddInt64(&clock, 1)
		o := s.do(op)
		ret := atomic.AddInt64(&clock, 1)
		hist = append(hist, hrec{worker: 99, op: op, call: call, ret: ret, out: o})
	}
	sort.SliceStable(hist, func(a, b int) bool { return hist[a].call < hist[b].call })
	return hist, trace
}

func panicIn(hist []hrec) string {
	for _, h := range hist {
		if h.out.Panic != "" {
			return fmt.Sprintf("worker %d: %+v panicked: %s", h.worker, h.op, h.out.Panic)
		}
	}
	return ""
}

type schedStats struct {
	schedules   int64
	overlapping int64
	truncated   int64
}

func execSched(sc schedScenario, st *schedStats) *evid.Failure {
	const maxSchedules = 4000
	stack := [][]int{{}}
	n := 0
	for len(stack) > 0 {
		prefix := stack[len(stack)-1]
		stack = stack[:len(stack)-1]
		hist, trace := runSchedule(sc, prefix)
		n++
		if st != nil {
			atomic.AddInt64(&st.schedules, 1)
		}
		if msg := panicIn(hist); msg != "" {
			var order []int
			for _, d := range trace {
				order = append(order, d.chosen)
			}
			return evid.Failf("sched/panic", map[string]any{"workers": sc.Workers, "schedule": order}, "schedule %v: %s", order, msg)
		}
		if msg := checkHistory(hist, []string{"a", "b", "x", "y"}, model); msg != "" {
			var order []int
			for _, d := range trace {
				order = append(order, d.chosen)
			}
			return evid.Failf("sched/not-linearizable", map[string]any{"workers": sc.Workers, "schedule": order}, "schedule %v: %s", order, msg)
		}
		for i := len(prefix); i < len(trace); i++ {
			for _, alt := range trace[i].runnable {
				if alt != trace[i].chosen {
					p := make([]int, 0, i+1)
					for _, d := range trace[:i] {
						p = append(p, d.chosen)
					}
					stack = append(stack, append(p, alt))
				}
			}
		}
		if n >= maxSchedules {
			if st != nil {
				atomic.AddInt64(&st.truncated, 1)
			}
			break
		}
	}
	return nil
}

var schedKinds = []string{"CStore", "CLoad", "CLoadOrStore", "CDelete", "CSweep", "CSweep", "CRange", "CLoadAndDelete", "Range", "Store", "LoadOrStore", "Delete"}

func genSched(t *rapid.T) schedScenario {
	var sc schedScenario
	nw := rapid.IntRange(2, 3).Draw(t, "workers")
	for w := 0; w < nw; w++ {
		var ops []Op
		n := rapid.IntRange(1, 3).Draw(t, "nops")
		if nw == 3 && n == 3 {
			n = 2
		}
		for i := 0; i < n; i++ {
			op := genOp(t, schedKinds, []string{"x"})
			if op.Key != "" {
				if isCacheKind(op.Kind) {
					op.Key = rapid.SampledFrom([]string{"x", "x", "y"}).Draw(t, "ckey")
				} else {
					op.Key = rapid.SampledFrom([]string{"a", "b"}).Draw(t, "mkey")
				}
			}
			ops = append(ops, op)
		}
		sc.Workers = append(sc.Workers, ops)
	}
	return sc
}

func schedNonTrivial(sc schedScenario) bool {
	// >= 2 operations of different workers on one key with >= 1 write, or a sweep next to a write
	type info struct{ workers, writes int }
	per := map[string]*info{}
	sweepers := 0
	for _, ops := range sc.Workers {
		seen := map[string]bool{}
		sw := false
		for _, op := range ops {
			if op.Kind == "CSweep" {
				sw = true
				continue
			}
			if op.Key == "" {
				continue
			}
			if per[op.Key] == nil {
				per[op.Key] = &info{}
			}
			if !seen[op.Key] {
				seen[op.Key] = true
				per[op.Key].workers++
			}
			switch op.Kind {
			case "CLoad", "Load":
			default:
				per[op.Key].writes++
			}
		}
		if sw {
			sweepers++
		}
	}
	for k, i := range per {
		if i.writes >= 1 && (i.workers >= 2 || (sweepers >= 1 && (k == "x" || k == "y"))) {
			return true
		}
	}
	return false
}

// exhaustive small configurations: 2 workers x <= 2 ops x one cache key
func exhaustiveSched(r *evid.Run, st *schedStats) {
	alphabet := []Op{
		{Kind: "CLoadOrStore", Key: "x", Val: 1}, {Kind: "CLoadOrStore", Key: "x", Val: 2, Exp: true},
		{Kind: "CStore", Key: "x", Val: 3, Exp: true}, {Kind: "CStore", Key: "x", Val: 4},
		{Kind: "CLoad", Key: "x"}, {Kind: "CDelete", Key: "x"}, {Kind: "CSweep"},
	}
	var lists [][]Op
	for _, a := range alphabet {
		lists = append(lists, []Op{a})
		for _, b := range alphabet {
			lists = append(lists, []Op{a, b})
		}
	}
	var confs int64
	for _, w0 := range lists {
		for _, w1 := range lists {
			sc := schedScenario{Workers: [][]Op{w0, w1}}
			if f := evid.SafeExec("sched", func(s schedScenario) *evid.Failure { return execSched(s, st) }, sc); f != nil {
				r.Fail(f)
				if !r.IsKnown(f) {
					return
				}
			}
			confs++
		}
	}
	r.Eval(confs)
	r.AddDistinct(confs)
	r.Note("exhaustive_subdomain", fmt.Sprintf("all %d configurations of 2 workers x 1-2 operations over a 7-operation cache alphabet on one key, every schedule of each", confs))
}

// ---- engine 3: stress histories with real goroutines ------------------------------------------------------------------

type stressScenario struct {
	Workers [][]Op `json:"workers"`
	Reps    int    `json:"reps"`
}

func execStress(sc stressScenario) *evid.Failure {
	keys := []string{"a", "b", "x", "y"}
	for rep := 0; rep < sc.Reps; rep++ {
		s := newSubject(keys)
		var clock int64
		hists := make([][]hrec, len(sc.Workers))
		var ready, wg sync.WaitGroup
		start := make(chan struct{})
		for i, ops := range sc.Workers {
			ready.Add(1)
			wg.Add(1)
			go func(i int, ops []Op) {
				defer wg.Done()
				ready.Done()
				<-start
				for _, op := range ops {
					call := atomic.AddInt64(&clock, 1)
					o := s.do(op)
					ret := atomic.AddInt64(&clock, 1)
					hists[i] = append(hists[i], hrec{worker: i, op: op, call: call, ret: ret, out: o})
				}
			}(i, ops)
		}
		ready.Wait()
		close(start)
		wg.Wait()
		var hist []hrec
		for _, h := range hists {
			hist = append(hist, h...)
		}
		for _, k := range keys {
			kind := "Load"
			if k == "x" || k == "y" {
				kind = "CRawLoad"
			}
			op := Op{Kind: kind, Key: k}
			call := atomic.AddInt64(&clock, 1)
			o := s.do(op)
			ret := atomic.AddInt64(&clock, 1)
			hist = append(hist, hrec{worker: 99, op: op, call: call, ret: ret, out: o})
		}
		if msg := panicIn(hist); msg != "" {
			return evid.Failf("stress/panic", sc, "repetition %d: %s", rep, msg)
		}
		if msg := checkHistory(hist, keys, model); msg != "" {
			return evid.Failf("stress/not-linearizable", sc, "repetition %d: %s", rep, msg)
		}
	}
	return nil
}

var stressKinds = []string{"Store", "Load", "LoadOrStore", "LoadOrStore", "LoadOrStore", "Replace", "Delete", "LoadAndDelete", "LoadOrStoreWithFunc", "ReplaceWithFunc", "LoadAndDeleteWithFunc", "LoadWithFunc", "Range", "CLoadOrStore", "CLoadOrStore", "CStore", "CLoad", "CDelete", "CSweep"}

func genStress(reps int) func(t *rapid.T) stressScenario {
	return func(t *rapid.T) stressScenario {
		sc := stressScenario{Reps: reps}
		nw := rapid.SampledFrom([]int{2, 3, 4, 4, 8, 16}).Draw(t, "workers")
		same := rapid.IntRange(0, 2).Draw(t, "same") == 0 // all workers do the same kind of operation on one key
		var kind string
		if same {
			kind = rapid.SampledFrom([]string{"LoadOrStore", "LoadOrStore", "CLoadOrStore", "LoadOrStoreWithFunc"}).Draw(t, "samekind")
		}
		for w := 0; w < nw; w++ {
			var ops []Op
			n := rapid.IntRange(1, 3).Draw(t, "nops")
			for i := 0; i < n; i++ {
				var op Op
				if same {
					op = Op{Kind: kind, Key: "a", Val: w*10 + i + 1}
					if kind[0] == 'C' {
						op.Key = "x"
					}
				} else {
					op = genOp(t, stressKinds, []string{"a"})
					if op.Key != "" {
						if isCacheKind(op.Kind) {
							op.Key = rapid.SampledFrom([]string{"x", "x", "y"}).Draw(t, "ckey")
						} else {
							op.Key = rapid.SampledFrom([]string{"a", "a", "b"}).Draw(t, "mkey")
						}
					}
					if op.Val > 0 {
						op.Val += w * 10
					}
				}
				ops = append(ops, op)
			}
			sc.Workers = append(sc.Workers, ops)
		}
		return sc
	}
}

func TestCheck(t *testing.T) {
	r := evid.New(t, "C14")
	var st schedStats
	seq := evid.RapidEngine("seq", evid.RapidOpts{Quick: 20000, Thorough: 400000}, func(t *rapid.T) seqScenario {
		var sc seqScenario
		n := rapid.IntRange(1, 25).Draw(t, "n")
		for i := 0; i < n; i++ {
			sc.Ops = append(sc.Ops, genOp(t, append(append([]string{}, mapKinds...), cacheKinds...), []string{"a", "b", "c"}))
		}
		return sc
	}, func(sc seqScenario) *evid.Failure {
		f := execSeq(sc)
		if f == nil {
			r.Case("seq", "", nil)
		}
		return f
	})
	sched := evid.RapidEngine("sched", evid.RapidOpts{Quick: 1500, Thorough: 40000, Serial: true}, genSched, func(sc schedScenario) *evid.Failure {
		f := execSched(sc, &st)
		if f == nil {
			key := ""
			if schedNonTrivial(sc) {
				b, _ := json.Marshal(sc)
				key = string(b)
			}
			r.Case("sched", key, func() any { return sc })
		}
		return f
	})
	schedSearch := sched.Search
	sched.Search = func(r *evid.Run) {
		exhaustiveSched(r, &st)
		schedSearch(r)
		r.Class("sched/schedules-executed", st.schedules)
		r.Class("sched/scenarios-truncated-at-4000-schedules", st.truncated)
	}
	stress := evid.RapidEngine("stress", evid.RapidOpts{Quick: 400, Thorough: 20000}, genStress(200), func(sc stressScenario) *evid.Failure {
		f := execStress(sc)
		if f == nil {
			b, _ := json.Marshal(sc.Workers)
			r.Case("stress", string(b), func() any { return sc }, fmt.Sprintf("stress/workers=%d", len(sc.Workers)))
			r.Eval(int64(sc.Reps - 1))
		}
		return f
	})
	_ = porcupine.Ok
	r.Main(evid.Meta{
		Rule:        "seq: sequential runs of the complete Map and Cache API against a Go-map-with-expiry model, full content compared after every step. sched: 2-3 workers x 1-3 operations x 1-2 keys (cache load/store/load-or-store/delete/sweep/range and map operations) executed under a cooperative scheduler whose switching points are the operation boundaries, the harness callbacks that run unlocked (Range) and the verif scheduling point inside CheckExpirations; every schedule of each configuration is enumerated (DFS) and the history is checked against the per-key sequential specification with porcupine (sweep = nondeterministic 'may remove the key iff expired'; iterating operations with the weak specification of their documentation) plus a final read-out; all 2-worker configurations over a 7-operation alphabet are enumerated exhaustively. sweepcb: a sweep over 2-4 keys (expired, live, never expiring, absent) whose on-expire callbacks themselves prolong, store or delete entries of the same cache, 1-2 sweeps; the final content and the callback log (with what each callback found) must be the outcome of a reference sweep - visit the keys in some order, remove a key iff it still holds the element seen at the start and that element is expired at the visit, then run its callback - for at least one visiting order; all configurations of 2 keys and of 3 expired keys enumerated. drain: 1-4 goroutines storing distinct keys next to 2-4 goroutines calling LoadAndDeleteAll, 150 repetitions per pattern, then a final drain: every stored value comes out of exactly one drain. churn: 2-6 real goroutines on ONE long-lived map and cache, each running a generated cycle of 2-6 operations 200-20000 times (up to some 700000 operations and several hundred thousand removals on the same object); every worker owns a map key and a cache key nobody else writes and must observe the sequential specification on them, whatever the others do on their own keys, on the shared keys and with sweeps and iterations. stress: 2-16 real goroutines released together, 200 repetitions per pattern, call/return stamped with an atomic logical clock, checked with porcupine, under the race detector. Non-trivial = >= 2 workers touch one key with >= 1 write (or a sweep next to a write); distinct by configuration",
		Assumptions: []string{"switching only at critical-section boundaries is sound for the single-lock operations (they are atomic by construction) and complete for the multi-step ones only as far as a scheduling point exists between their sections", "stress histories cover only the interleavings the runtime produced"},
		Floor:       500,
	}, seq, sched, stress, sweepCbEngine(r), drainEngine(r), churnEngine(r), expiringEngine(r))
}
