package c14

// Engine "churn": long histories on ONE long-lived map and cache. The other engines use fresh
// objects and a handful of operations; a map that serves a connection for hours has seen hundreds
// of thousands of insertions and removals. 2-6 real goroutines each run a generated program (a
// cycle of 2-6 operations) thousands of times. Every worker owns one map key and one cache key that
// nobody else writes - so on its own keys a worker must observe exactly the sequential
// specification, whatever the others do on their keys and on the shared ones - and it churns shared
// keys, sweeps and iterates in between. (A sweep of another worker may remove an owner's expired
// element; the oracle therefore tracks the set of states the sequential specification allows.)

import (
	"encoding/json"
	"fmt"
	"sync"

	"pgregory.net/rapid"

	"verif/evid"
)

type churnOp struct {
	Op
	// Shared: the operation goes to a key every worker uses (unchecked apart from panics), else to
	// the worker's own key
	Shared bool `json:"shared,omitempty"`
}

type churnScenario struct {
	Programs [][]churnOp `json:"programs"`
	Iter     int         `json:"iter"` // how many times every worker runs its program
}

func churnSweeps(sc churnScenario) bool {
	for _, p := range sc.Programs {
		for _, op := range p {
			if op.Kind == "CSweep" {
				return true
			}
		}
	}
	return false
}

func execChurn(sc churnScenario) *evid.Failure {
	s := newSubject(nil)
	sweeps := churnSweeps(sc)
	fails := make([]*evid.Failure, len(sc.Programs))
	var wg sync.WaitGroup
	start := make(chan struct{})
	for w, prog := range sc.Programs {
		wg.Add(1)
		go func(w int, prog []churnOp) {
			defer wg.Done()
			<-start
			states := map[string][]kstate{"m": {{}}, "c": {{}}}
			for it := 0; it < sc.Iter; it++ {
				for idx, cop := range prog {
					op := cop.Op
					if op.Val > 0 {
						op.Val = 1 + (it*len(prog)+idx)%1000000 // a value no earlier operation of this worker used recently
					}
					target := "m"
					if isCacheKind(op.Kind) {
						target = "c"
					}
					if cop.Shared {
						op.Key = fmt.Sprintf("shared%d", idx%2)
					} else if !wholeMapOp(op.Kind) && op.Kind != "CSweep" {
						op.Key = fmt.Sprintf("own%d", w)
					}
					o := s.do(op)
					if o.Panic != "" {
						fails[w] = evid.Failf("churn/panic", sc, "worker %d, round %d, %+v panicked: %s", w, it, op, o.Panic)
						return
					}
					if cop.Shared || op.Key == "" {
						continue
					}
					var next []kstate
					add := func(k kstate) {
						for _, x := range next {
							if x == k {
								return
							}
						}
						next = append(next, k)
					}
					for _, st := range states[target] {
						for _, n := range stepKey(st, kin{Op: op}, o) {
							add(n.(kstate))
						}
					}
					if len(next) == 0 {
						fails[w] = evid.Failf("churn/owner-sees-foreign-effect", sc, "worker %d, round %d: %+v on its own key (written by nobody else) returned %+v, which the sequential specification does not allow in state(s) %+v", w, it, op, o, states[target])
						return
					}
					if sweeps && target == "c" { // a sweep of another worker may have removed an expired element since
						for _, k := range next {
							if k.Present && k.Exp {
								add(kstate{})
							}
						}
					}
					states[target] = next
				}
			}
		}(w, prog)
	}
	close(start)
	wg.Wait()
	for _, f := range fails {
		if f != nil {
			return f
		}
	}
	return nil
}

var churnOwnKinds = []string{"Store", "Store", "Load", "Load", "LoadOrStore", "Replace", "Delete", "Delete", "LoadAndDelete", "LoadWithFunc", "LoadOrStoreWithFunc", "ReplaceWithFunc", "DeleteWithFunc", "LoadAndDeleteWithFunc",
	"CStore", "CLoad", "CLoadOrStore", "CLoadOrStore", "CDelete", "CLoadAndDelete"}
var churnSharedKinds = []string{"Store", "Delete", "LoadAndDelete", "LoadOrStore", "ReplaceWithFunc", "CStore", "CDelete", "CLoadOrStore", "CSweep", "Range", "Length", "CopyData"}

func genChurn(t *rapid.T) churnScenario {
	sc := churnScenario{Iter: rapid.SampledFrom([]int{200, 2000, 2000, 20000}).Draw(t, "iter")}
	nw := rapid.IntRange(2, 6).Draw(t, "workers")
	for w := 0; w < nw; w++ {
		var prog []churnOp
		n := rapid.IntRange(2, 6).Draw(t, "nops")
		for i := 0; i < n; i++ {
			var cop churnOp
			if rapid.IntRange(0, 2).Draw(t, "shared") == 0 {
				cop = churnOp{Op: genOp(t, churnSharedKinds, []string{"k"}), Shared: true}
				if wholeMapOp(cop.Kind) || cop.Kind == "CSweep" {
					cop.Shared = false
				}
			} else {
				cop = churnOp{Op: genOp(t, churnOwnKinds, []string{"k"})}
			}
			cop.Never = false
			prog = append(prog, cop)
		}
		sc.Programs = append(sc.Programs, prog)
	}
	return sc
}

func churnNonTrivial(sc churnScenario) bool {
	writes, removals := 0, 0
	for _, p := range sc.Programs {
		for _, op := range p {
			switch op.Kind {
			case "Store", "Replace", "LoadOrStore", "CStore", "CLoadOrStore", "LoadOrStoreWithFunc":
				writes++
			case "Delete", "LoadAndDelete", "DeleteWithFunc", "LoadAndDeleteWithFunc", "CDelete", "CLoadAndDelete", "CSweep":
				removals++
			}
		}
	}
	return writes > 0 && removals > 0 && sc.Iter >= 2000
}

func churnEngine(r *evid.Run) evid.Engine {
	return evid.RapidEngine("churn", evid.RapidOpts{Quick: 150, Thorough: 3000}, genChurn, func(sc churnScenario) *evid.Failure {
		f := execChurn(sc)
		if f == nil {
			key := ""
			if churnNonTrivial(sc) {
				b, _ := json.Marshal(sc)
				key = string(b)
			}
			ops := 0
			for _, p := range sc.Programs {
				ops += len(p) * sc.Iter
			}
			cls := []string{fmt.Sprintf("churn/rounds=%d", sc.Iter)}
			if ops >= 100000 {
				cls = append(cls, "churn/at-least-100000-operations-on-one-object")
			}
			r.Case("churn", key, func() any { return sc }, cls...)
		}
		return f
	})
}
