package c14

// Engine "drain": LoadAndDeleteAll next to stores and to other drains, with real goroutines. The
// operation takes the whole content and leaves an empty map in one atomic step: every value that was
// stored comes out of exactly one drain (or of the final one) - never of two, never of none.

import (
	"encoding/json"
	"fmt"
	"sync"

	coapSync "github.com/plgd-dev/go-coap/v3/pkg/sync"
	"pgregory.net/rapid"

	"verif/evid"
)

type drainScenario struct {
	Storers   int `json:"storers"`
	PerStorer int `json:"perStorer"`
	Drainers  int `json:"drainers"`
	Drains    int `json:"drains"` // drains per drainer
	Reps      int `json:"reps"`
}

func execDrain(sc drainScenario) (fail *evid.Failure) {
	defer func() {
		if p := recover(); p != nil {
			fail = evid.Failf("drain/panic", sc, "panic: %v", p)
		}
	}()
	for rep := 0; rep < sc.Reps; rep++ {
		m := coapSync.NewMap[int, int]()
		var wg sync.WaitGroup
		start := make(chan struct{})
		results := make([][]map[int]int, sc.Drainers)
		for s := 0; s < sc.Storers; s++ {
			wg.Add(1)
			go func(s int) {
				defer wg.Done()
				<-start
				for k := 0; k < sc.PerStorer; k++ {
					m.Store(s*100+k, s*100+k)
				}
			}(s)
		}
		for d := 0; d < sc.Drainers; d++ {
			wg.Add(1)
			go func(d int) {
				defer wg.Done()
				<-start
				for k := 0; k < sc.Drains; k++ {
					results[d] = append(results[d], m.LoadAndDeleteAll())
				}
			}(d)
		}
		close(start)
		wg.Wait()
		final := m.LoadAndDeleteAll()
		seen := map[int]int{}
		for _, rs := range results {
			for _, r := range rs {
				for k := range r {
					seen[k]++
				}
			}
		}
		for k := range final {
			seen[k]++
		}
		for s := 0; s < sc.Storers; s++ {
			for k := 0; k < sc.PerStorer; k++ {
				if n := seen[s*100+k]; n != 1 {
					return evid.Failf("drain/not-exactly-once", sc, "repetition %d: the value stored under key %d came out of %d drains (%d storers x %d stores next to %d drainers x %d drains, then a final drain)", rep, s*100+k, n, sc.Storers, sc.PerStorer, sc.Drainers, sc.Drains)
				}
			}
		}
		if m.Length() != 0 {
			return evid.Failf("drain/not-empty", sc, "repetition %d: %d entries are in the map after the final drain", rep, m.Length())
		}
	}
	return nil
}

func drainEngine(r *evid.Run) evid.Engine {
	return evid.RapidEngine("drain", evid.RapidOpts{Quick: 240, Thorough: 12000}, func(t *rapid.T) drainScenario {
		return drainScenario{Storers: rapid.IntRange(1, 4).Draw(t, "storers"), PerStorer: rapid.IntRange(1, 8).Draw(t, "per"),
			Drainers: rapid.IntRange(2, 4).Draw(t, "drainers"), Drains: rapid.IntRange(1, 3).Draw(t, "drains"), Reps: 150}
	}, func(sc drainScenario) *evid.Failure {
		f := execDrain(sc)
		if f == nil {
			b, _ := json.Marshal(sc)
			r.Case("drain", string(b), func() any { return sc }, fmt.Sprintf("drain/drainers=%d", sc.Drainers))
			r.Eval(int64(sc.Reps - 1))
		}
		return f
	})
}
