package c14

// Engine "expiring": elements that expire WHILE operations on them are in progress (real goroutines,
// real time). The other engines store elements that are expired or not when they are stored; here the
// deadline of the element under a key falls into the run, and another operation keeps the table's
// lock for a while (a StoreWithFunc whose create function takes its time), so that store-if-absent
// calls on the key are called before the deadline and take effect after it.
//
// The oracle does not depend on timing. Every contender's own element never expires, and nothing else
// writes the key, so whatever the interleaving was: at most one contender reports having stored; the
// element in the table afterwards is that contender's element, or the old one if none stored; every
// contender that reports "loaded" got the old element or the stored one, never its own; and a
// contender that was called after another one had returned "stored" observes that value.

import (
	"encoding/json"
	"fmt"
	"sync"
	"time"

	"github.com/plgd-dev/go-coap/v3/pkg/cache"
	"pgregory.net/rapid"

	"verif/evid"
)

type expiringScenario struct {
	Contenders int   `json:"contenders"`
	TTLUs      int   `json:"ttlUs"`    // life of the old element from the start of a repetition
	HoldUs     int   `json:"holdUs"`   // how long the other operation keeps the lock
	StartUs    []int `json:"startUs"`  // when each contender calls, from the start
	HoldAtUs   int   `json:"holdAtUs"` // when the lock holder starts
	Sweep      bool  `json:"sweep"`    // an expiry sweep runs next to them
	Reps       int   `json:"reps"`
}

func execExpiring(sc expiringScenario) (fail *evid.Failure, interesting int) {
	defer func() {
		if p := recover(); p != nil {
			fail = evid.Failf("expiring/panic", sc, "panic: %v", p)
		}
	}()
	us := func(n int) time.Duration { return time.Duration(n) * time.Microsecond }
	for rep := 0; rep < sc.Reps; rep++ {
		c := cache.NewCache[int, int]()
		t0 := time.Now()
		old := cache.NewElement(-1, t0.Add(us(sc.TTLUs)), nil)
		c.Store(7, old)
		type res struct {
			actual       *cache.Element[int]
			loaded       bool
			called, done time.Time
		}
		out := make([]res, sc.Contenders)
		mine := make([]*cache.Element[int], sc.Contenders)
		var wg sync.WaitGroup
		wg.Add(1)
		go func() {
			defer wg.Done()
			time.Sleep(time.Until(t0.Add(us(sc.HoldAtUs))))
			c.StoreWithFunc(99, func() *cache.Element[int] {
				time.Sleep(us(sc.HoldUs))
				return cache.NewElement(99, time.Time{}, nil)
			})
		}()
		for i := 0; i < sc.Contenders; i++ {
			mine[i] = cache.NewElement(i, time.Time{}, nil)
			wg.Add(1)
			go func(i int) {
				defer wg.Done()
				time.Sleep(time.Until(t0.Add(us(sc.StartUs[i]))))
				out[i].called = time.Now()
				out[i].actual, out[i].loaded = c.LoadOrStore(7, mine[i])
				out[i].done = time.Now()
			}(i)
		}
		if sc.Sweep {
			wg.Add(1)
			go func() {
				defer wg.Done()
				time.Sleep(time.Until(t0.Add(us(sc.TTLUs))))
				c.CheckExpirations(time.Now())
			}()
		}
		wg.Wait()
		final, _ := c.Map.Load(7)
		stored := -1
		for i, o := range out {
			if !o.loaded {
				if stored >= 0 {
					return evid.Failf("expiring/two-stored", sc, "repetition %d: contenders %d and %d both report having stored under one key although neither element expires", rep, stored, i), interesting
				}
				stored = i
				if o.actual != mine[i] {
					return evid.Failf("expiring/stored-foreign", sc, "repetition %d: contender %d reports having stored but was handed an element that is not its own", rep, i), interesting
				}
			}
		}
		for i, o := range out {
			if !o.loaded {
				continue
			}
			if o.actual == mine[i] {
				return evid.Failf("expiring/loaded-own", sc, "repetition %d: contender %d reports that the key was present and was handed its own element", rep, i), interesting
			}
			if o.actual != old && (stored < 0 || o.actual != mine[stored]) {
				return evid.Failf("expiring/loaded-unknown", sc, "repetition %d: contender %d was handed an element that is neither the old one nor the one reported as stored", rep, i), interesting
			}
			// real-time order: called after the storing call had returned => observes the stored element
			if stored >= 0 && o.called.After(out[stored].done) && o.actual != mine[stored] {
				return evid.Failf("expiring/stale-after-store", sc, "repetition %d: contender %d was called after contender %d had returned from storing and still got the old element", rep, i, stored), interesting
			}
		}
		switch {
		case stored >= 0 && final != mine[stored]:
			return evid.Failf("expiring/table-differs", sc, "repetition %d: contender %d reports having stored, the table holds another element afterwards (nothing else writes the key)", rep, stored), interesting
		case stored < 0 && final != nil && final != old:
			who := -1
			for i := range mine {
				if final == mine[i] {
					who = i
				}
			}
			return evid.Failf("expiring/stored-unreported", sc, "repetition %d: no store-if-absent call reports having stored, yet the table holds the element of contender %d (its call returned loaded=%v): the old element expired while the call waited for the table's lock (old life %d us, lock held from %d us for %d us, called at %d us)", rep, who, out[max(who, 0)].loaded, sc.TTLUs, sc.HoldAtUs, sc.HoldUs, sc.StartUs[max(who, 0)]), interesting
		case stored < 0 && final == nil && !sc.Sweep:
			return evid.Failf("expiring/table-empty", sc, "repetition %d: the key vanished although nothing removes it", rep), interesting
		}
		// the window was hit when a call began before the deadline and ended after it
		for _, o := range out {
			if o.called.Before(t0.Add(us(sc.TTLUs))) && o.done.After(t0.Add(us(sc.TTLUs))) {
				interesting++
				break
			}
		}
	}
	return nil, interesting
}

func expiringEngine(r *evid.Run) evid.Engine {
	return evid.RapidEngine("expiring", evid.RapidOpts{Quick: 160, Thorough: 6000}, func(t *rapid.T) expiringScenario {
		sc := expiringScenario{Contenders: rapid.IntRange(1, 4).Draw(t, "contenders"), Reps: 6}
		sc.HoldAtUs = rapid.IntRange(0, 300).Draw(t, "holdAt")
		sc.HoldUs = rapid.IntRange(200, 3000).Draw(t, "hold")
		// mostly a deadline inside the time the lock is kept
		if rapid.IntRange(0, 4).Draw(t, "ttlkind") > 0 {
			sc.TTLUs = sc.HoldAtUs + rapid.IntRange(50, sc.HoldUs).Draw(t, "ttlin")
		} else {
			sc.TTLUs = rapid.IntRange(1, 4000).Draw(t, "ttl")
		}
		for i := 0; i < sc.Contenders; i++ {
			if rapid.IntRange(0, 3).Draw(t, "startkind") > 0 {
				// called while the lock is kept and before the deadline
				sc.StartUs = append(sc.StartUs, rapid.IntRange(sc.HoldAtUs, max(sc.HoldAtUs, min(sc.TTLUs, sc.HoldAtUs+sc.HoldUs)-20)).Draw(t, "startin"))
			} else {
				sc.StartUs = append(sc.StartUs, rapid.IntRange(0, 4000).Draw(t, "start"))
			}
		}
		sc.Sweep = rapid.IntRange(0, 3).Draw(t, "sweep") == 0
		return sc
	}, func(sc expiringScenario) *evid.Failure {
		f, hit := execExpiring(sc)
		if f == nil {
			key := ""
			if hit > 0 {
				b, _ := json.Marshal(sc)
				key = string(b)
			}
			r.Case("expiring", key, func() any { return sc }, fmt.Sprintf("expiring/contenders=%d", sc.Contenders))
			r.Class("expiring/repetitions-with-a-call-across-the-deadline", int64(hit))
			r.Eval(int64(sc.Reps - 1))
		}
		return f
	})
}
