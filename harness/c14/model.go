// C14 — the concurrent map and the expiring cache are linearizable.
package c14

import (
	"fmt"
	"runtime/debug"
	"time"

	"github.com/anishathalye/porcupine"
	"github.com/plgd-dev/go-coap/v3/pkg/cache"
	coapSync "github.com/plgd-dev/go-coap/v3/pkg/sync"
)

// Op is one operation of a worker. Target "m" = pkg/sync.Map[string,int], "c" = pkg/cache.Cache[string,int].
type Op struct {
	Kind string `json:"kind"`
	Key  string `json:"key,omitempty"`
	Val  int    `json:"val,omitempty"`
	Exp  bool   `json:"exp,omitempty"` // cache element already expired when stored
	// Never: the element is stored with the zero deadline, which means "never expires"
	Never bool `json:"never,omitempty"`
}

// out is the observable result of an operation.
type out struct {
	V      int
	OK     bool
	Pairs  map[string]int // Range / CopyData / LoadAndDeleteAll
	CbSaw  int            // value a callback observed (-1: not called)
	CbOK   bool
	Length int
	Panic  string // the operation panicked (never allowed)
}

// ---- sequential specification, per key ------------------------------------------------------------------

type kstate struct {
	Present bool
	V       int
	Exp     bool
}

type kin struct {
	Op    Op
	Sweep bool // per-key projection of CheckExpirations
}

// stepKey is the sequential specification of every per-key operation. Sweep is nondeterministic:
// it may remove the key if (and only if) the element is expired, or leave it alone.
func stepKey(st kstate, in kin, o out) []interface{} {
	if in.Sweep {
		res := []interface{}{st}
		if st.Present && st.Exp {
			res = append(res, kstate{})
		}
		return res
	}
	op := in.Op
	live := st.Present && !st.Exp
	one := func(ok bool, next kstate) []interface{} {
		if !ok {
			return nil
		}
		return []interface{}{next}
	}
	switch op.Kind {
	// ---- map
	case "Store", "StoreWithFunc":
		return one(true, kstate{true, op.Val, false})
	case "Load":
		return one(o.OK == st.Present && (!st.Present || o.V == st.V), st)
	case "LoadOrStore":
		if st.Present {
			return one(o.OK && o.V == st.V, st)
		}
		return one(!o.OK && o.V == op.Val, kstate{true, op.Val, false})
	case "Replace":
		return one(o.OK == st.Present && (!st.Present || o.V == st.V), kstate{true, op.Val, false})
	case "Delete":
		return one(true, kstate{})
	case "LoadAndDelete":
		return one(o.OK == st.Present && (!st.Present || o.V == st.V), kstate{})
	case "LoadWithFunc": // callback sees the value present; the map is unchanged; returns callback's result
		if st.Present {
			return one(o.OK && o.CbOK && o.CbSaw == st.V && o.V == st.V+1000, st)
		}
		return one(!o.OK && !o.CbOK, st)
	case "LoadOrStoreWithFunc":
		if st.Present {
			return one(o.OK && o.CbOK && o.CbSaw == st.V && o.V == st.V+1000, st)
		}
		return one(!o.OK && !o.CbOK && o.V == op.Val, kstate{true, op.Val, false})
	case "ReplaceWithFunc": // stores Val, or deletes when Val < 0; callback sees (old, ok)
		ok := o.OK == st.Present && o.CbOK == st.Present && (!st.Present || (o.V == st.V && o.CbSaw == st.V))
		if op.Val < 0 {
			return one(ok, kstate{})
		}
		return one(ok, kstate{true, op.Val, false})
	case "DeleteWithFunc":
		return one(o.CbOK == st.Present && (!st.Present || o.CbSaw == st.V), kstate{})
	case "LoadAndDeleteWithFunc":
		return one(o.OK == st.Present && o.CbOK == st.Present && (!st.Present || (o.CbSaw == st.V && o.V == st.V+1000)), kstate{})
	// ---- cache
	case "CStore":
		return one(true, kstate{true, op.Val, op.Exp})
	case "CLoad":
		if live {
			return one(o.OK && o.V == st.V, st)
		}
		return one(!o.OK, st)
	case "CLoadOrStore":
		if live {
			return one(o.OK && o.V == st.V, st)
		}
		return one(!o.OK && o.V == op.Val, kstate{true, op.Val, op.Exp})
	case "CDelete":
		return one(true, kstate{})
	case "CLoadAndDelete": // the raw map operation: returns the element even if it has expired
		return one(o.OK == st.Present && (!st.Present || o.V == st.V), kstate{})
	case "CRawLoad": // raw map Load (used by the final read-out): sees expired elements too
		return one(o.OK == st.Present && (!st.Present || o.V == st.V), st)
	}
	panic("unknown op " + op.Kind)
}

func keyModel() porcupine.Model {
	nm := porcupine.NondeterministicModel{
		Init: func() []interface{} { return []interface{}{kstate{}} },
		Step: func(state, input, output interface{}) []interface{} {
			return stepKey(state.(kstate), input.(kin), output.(out))
		},
		Equal: func(a, b interface{}) bool { return a.(kstate) == b.(kstate) },
		DescribeOperation: func(input, output interface{}) string {
			return fmt.Sprintf("%+v -> %+v", input, output)
		},
	}
	return nm.ToModel()
}

// ---- execution of one operation against the real objects -----------------------------------------------------

type subject struct {
	m    *coapSync.Map[string, int]
	c    *cache.Cache[string, int]
	now  time.Time
	keys []string
	// yield is called from harness-supplied callbacks that run unlocked (Range)
	yield func(site string)
}

func newSubject(keys []string) *subject {
	return &subject{m: coapSync.NewMap[string, int](), c: cache.NewCache[string, int](), now: time.Now(), keys: keys, yield: func(string) {}}
}

func (s *subject) elem(op Op) *cache.Element[int] {
	until := s.now.Add(time.Hour)
	if op.Exp {
		until = s.now.Add(-time.Hour)
	} else if op.Never {
		until = time.Time{}
	}
	return cache.NewElement(op.Val, until, nil)
}

// do runs one operation; a panic inside the library is turned into an outcome (the locks are
// released by the library's own deferred unlocks on the way up).
func (s *subject) do(op Op) (o out) {
	defer func() {
		if r := recover(); r != nil {
			o.Panic = fmt.Sprintf("%v\n%s", r, debug.Stack())
		}
	}()
	return s.doRaw(op)
}

func (s *subject) doRaw(op Op) out {
	o := out{CbSaw: -1}
	switch op.Kind {
	case "Store":
		s.m.Store(op.Key, op.Val)
	case "StoreWithFunc":
		s.m.StoreWithFunc(op.Key, func() int { return op.Val })
	case "Load":
		o.V, o.OK = s.m.Load(op.Key)
	case "LoadOrStore":
		o.V, o.OK = s.m.LoadOrStore(op.Key, op.Val)
	case "Replace":
		o.V, o.OK = s.m.Replace(op.Key, op.Val)
	case "Delete":
		s.m.Delete(op.Key)
	case "LoadAndDelete":
		o.V, o.OK = s.m.LoadAndDelete(op.Key)
	case "LoadWithFunc":
		o.V, o.OK = s.m.LoadWithFunc(op.Key, func(v int) int { o.CbSaw, o.CbOK = v, true; return v + 1000 })
	case "LoadOrStoreWithFunc":
		o.V, o.OK = s.m.LoadOrStoreWithFunc(op.Key, func(v int) int { o.CbSaw, o.CbOK = v, true; return v + 1000 }, func() int { return op.Val })
	case "ReplaceWithFunc":
		o.V, o.OK = s.m.ReplaceWithFunc(op.Key, func(old int, ok bool) (int, bool) {
			if ok {
				o.CbSaw, o.CbOK = old, true
			}
			return op.Val, op.Val < 0
		})
	case "DeleteWithFunc":
		s.m.DeleteWithFunc(op.Key, func(v int) { o.CbSaw, o.CbOK = v, true })
	case "LoadAndDeleteWithFunc":
		o.V, o.OK = s.m.LoadAndDeleteWithFunc(op.Key, func(v int) int { o.CbSaw, o.CbOK = v, true; return v + 1000 })
	case "Range":
		o.Pairs = map[string]int{}
		s.m.Range(func(k string, v int) bool { o.Pairs[k] = v; s.yield("Range"); return true })
	case "Range2":
		o.Pairs = map[string]int{}
		s.m.Range2(func(k string, v int) bool { o.Pairs[k] = v; return true })
	case "CopyData":
		o.Pairs = s.m.CopyData()
	case "Length":
		o.Length = s.m.Length()
	case "LoadAndDeleteAll":
		o.Pairs = s.m.LoadAndDeleteAll()
	case "CStore":
		s.c.Store(op.Key, s.elem(op))
	case "CLoad":
		if e := s.c.Load(op.Key); e != nil {
			o.V, o.OK = e.Data(), true
		}
	case "CLoadOrStore":
		e, loaded := s.c.LoadOrStore(op.Key, s.elem(op))
		o.V, o.OK = e.Data(), loaded
	case "CDelete":
		s.c.Delete(op.Key)
	case "CLoadAndDelete":
		if e, ok := s.c.LoadAndDelete(op.Key); ok {
			o.V, o.OK = e.Data(), true
		}
	case "CRawLoad":
		if e, ok := s.c.Map.Load(op.Key); ok {
			o.V, o.OK = e.Data(), true
		}
	case "CSweep":
		s.c.CheckExpirations(s.now)
	case "CRange":
		o.Pairs = map[string]int{}
		s.c.Range(func(k string, e *cache.Element[int]) bool { o.Pairs[k] = e.Data(); s.yield("CRange"); return true })
	default:
		panic("unknown op " + op.Kind)
	}
	return o
}

// ---- history -> porcupine ---------------------------------------------------------------------------------------

type hrec struct {
	worker int
	op     Op
	call   int64
	ret    int64
	out    out
}

// wholeMapOps are not per-key operations; they are checked with the weak specification their
// documentation gives (see checkWeak), not through the per-key model.
func wholeMapOp(k string) bool {
	switch k {
	case "Range", "Range2", "CopyData", "Length", "LoadAndDeleteAll", "CRange":
		return true
	}
	return false
}

// checkHistory decides linearizability per key. It returns a description of the first
// non-linearizable key, or "".
func checkHistory(h []hrec, keys []string, model porcupine.Model) string {
	for _, k := range keys {
		var ops []porcupine.Operation
		for _, r := range h {
			switch {
			case r.op.Kind == "CSweep":
				ops = append(ops, porcupine.Operation{ClientId: r.worker, Input: kin{Sweep: true}, Output: out{}, Call: r.call, Return: r.ret})
			case r.op.Kind == "LoadAndDeleteAll":
				// takes the whole content atomically: per key it is a LoadAndDelete
				v, ok := r.out.Pairs[k]
				ops = append(ops, porcupine.Operation{ClientId: r.worker, Input: kin{Op: Op{Kind: "LoadAndDelete", Key: k}}, Output: out{V: v, OK: ok, CbSaw: -1}, Call: r.call, Return: r.ret})
			case wholeMapOp(r.op.Kind):
			case r.op.Key == k:
				ops = append(ops, porcupine.Operation{ClientId: r.worker, Input: kin{Op: r.op}, Output: r.out, Call: r.call, Return: r.ret})
			}
		}
		if len(ops) == 0 {
			continue
		}
		if res := porcupine.CheckOperationsTimeout(model, ops, 20*time.Second); res == porcupine.Illegal {
			s := fmt.Sprintf("key %q is not linearizable:", k)
			for _, o := range ops {
				s += fmt.Sprintf("\n  w%d [%d,%d] %+v -> %+v", o.ClientId, o.Call, o.Return, o.Input, o.Output)
			}
			return s
		}
	}
	// weak specification of the iterating operations: every pair they report was in the map at
	// some moment during the call — i.e. some operation whose interval overlaps or precedes the
	// call wrote exactly that value for that key
	for _, r := range h {
		if r.out.Pairs == nil || r.op.Kind == "LoadAndDeleteAll" {
			continue
		}
		for k, v := range r.out.Pairs {
			found := false
			for _, w := range h {
				if w.call > r.ret {
					continue
				}
				if w.op.Key == k && w.op.Val == v {
					switch w.op.Kind {
					case "Store", "StoreWithFunc", "LoadOrStore", "Replace", "LoadOrStoreWithFunc", "ReplaceWithFunc", "CStore", "CLoadOrStore":
						found = true
					}
				}
			}
			if !found {
				return fmt.Sprintf("%s reported the pair (%q, %d), which no operation ever stored", r.op.Kind, k, v)
			}
		}
	}
	return ""
}
