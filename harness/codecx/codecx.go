// Package codecx adapts between the reference codec and the library's message types and
// holds the rapid generator of well-formed messages shared by C01, C02 and C07.
package codecx

import (
	"sort"

	"github.com/plgd-dev/go-coap/v3/message"
	"github.com/plgd-dev/go-coap/v3/message/codes"
	"pgregory.net/rapid"

	"verif/refcodec"
)

// Table returns the reference registry table for the code, extended by entries that only the
// library's table knows (a legitimate later registry addition is followed, an altered RFC
// entry is not).
func Table(stream bool, code int) map[int]refcodec.Bounds {
	ref := refcodec.CoAP
	lib := message.CoapOptionDefs
	if stream {
		ref = refcodec.StreamTable(code)
		switch codes.Code(code) {
		case codes.CSM:
			lib = message.TCPSignalCSMOptionDefs
		case codes.Ping, codes.Pong:
			lib = message.TCPSignalPingPongOptionDefs
		case codes.Release:
			lib = message.TCPSignalReleaseOptionDefs
		case codes.Abort:
			lib = message.TCPSignalAbortOptionDefs
		}
	}
	out := make(map[int]refcodec.Bounds, len(ref)+2)
	for k, v := range ref {
		out[k] = v
	}
	for id, d := range lib {
		if _, ok := out[int(id)]; !ok && d.ValueFormat != message.ValueUnknown {
			out[int(id)] = refcodec.Bounds{Min: int(d.MinLen), Max: int(d.MaxLen)}
		}
	}
	return out
}

func StreamTableFor(code int) map[int]refcodec.Bounds { return Table(true, code) }

// ToLib converts a reference message into the library's representation.
func ToLib(m refcodec.Msg) message.Message {
	out := message.Message{Code: codes.Code(m.Code), Type: message.Type(m.Type), MessageID: int32(m.MID)}
	if len(m.Token) > 0 {
		out.Token = append(message.Token(nil), m.Token...)
	}
	if len(m.Payload) > 0 {
		out.Payload = append([]byte(nil), m.Payload...)
	}
	out.Options = make(message.Options, 0, len(m.Opts))
	for _, o := range m.Opts {
		out.Options = append(out.Options, message.Option{ID: message.OptionID(o.Num), Value: append([]byte(nil), o.Val...)})
	}
	return out
}

// FromLib converts back (copying).
func FromLib(m message.Message) refcodec.Msg {
	out := refcodec.Msg{Code: int(m.Code), Type: int(m.Type), MID: int(m.MessageID)}
	if len(m.Token) > 0 {
		out.Token = append([]byte(nil), m.Token...)
	}
	if len(m.Payload) > 0 {
		out.Payload = append([]byte(nil), m.Payload...)
	}
	for _, o := range m.Options {
		out.Opts = append(out.Opts, refcodec.Opt{Num: int(o.ID), Val: append([]byte(nil), o.Value...)})
	}
	return out
}

// ---- generator ---------------------------------------------------------------------------

func bytesOfLen(t *rapid.T, n int, label string) []byte {
	if n == 0 {
		return nil
	}
	if n <= 64 {
		return rapid.SliceOfN(rapid.Byte(), n, n).Draw(t, label)
	}
	// long values: a drawn head and a cheap deterministic tail (keeps rapid's bit stream short)
	head := rapid.SliceOfN(rapid.Byte(), 8, 8).Draw(t, label)
	b := make([]byte, n)
	x := uint32(head[0])<<8 | uint32(head[1]) | 1
	for i := range b {
		if i < 8 {
			b[i] = head[i]
			continue
		}
		x = x*1664525 + 1013904223
		b[i] = byte(x >> 24)
	}
	return b
}

var lenClasses = [][2]int{{0, 0}, {1, 12}, {13, 13}, {14, 268}, {269, 269}, {270, 2000}}

func drawLen(t *rapid.T, b *refcodec.Bounds, label string) int {
	if b != nil {
		if b.Min == b.Max {
			return b.Min
		}
		// edges of the legal range are as likely as the interior
		switch rapid.IntRange(0, 3).Draw(t, label+"k") {
		case 0:
			return b.Min
		case 1:
			return b.Max
		}
		return rapid.IntRange(b.Min, b.Max).Draw(t, label)
	}
	k := rapid.IntRange(0, 60).Draw(t, label+"c")
	if k == 60 {
		return 65804 // the largest encodable value
	}
	c := lenClasses[k%len(lenClasses)]
	return rapid.IntRange(c[0], c[1]).Draw(t, label)
}

// GenMsg draws a message inside the wire-format preconditions of the given coder.
func GenMsg(t *rapid.T, stream bool) refcodec.Msg {
	var m refcodec.Msg
	tkl := rapid.SampledFrom([]int{0, 0, 1, 2, 4, 7, 8, 8, 3, 5, 6}).Draw(t, "tkl")
	m.Token = bytesOfLen(t, tkl, "token")
	if stream {
		m.Code = rapid.OneOf(rapid.IntRange(0, 255), rapid.IntRange(225, 229), rapid.SampledFrom([]int{0, 1, 2, 69, 95, 132, 255})).Draw(t, "code")
	} else {
		m.Code = rapid.OneOf(rapid.IntRange(0, 255), rapid.SampledFrom([]int{0, 1, 2, 3, 4, 69, 95, 132, 160, 255})).Draw(t, "code")
		m.Type = rapid.IntRange(0, 3).Draw(t, "type")
		m.MID = rapid.OneOf(rapid.IntRange(0, 65535), rapid.SampledFrom([]int{0, 1, 255, 256, 65534, 65535})).Draw(t, "mid")
	}
	table := Table(stream, m.Code)
	known := make([]int, 0, len(table))
	for k := range table {
		known = append(known, k)
	}
	sort.Ints(known)
	n := rapid.SampledFrom([]int{0, 1, 1, 2, 3, 4, 6, 9}).Draw(t, "nopts")
	prev := 0
	for i := 0; i < n; i++ {
		var num int
		switch rapid.IntRange(0, 6).Draw(t, "numkind") {
		case 0, 1: // a registry number not below prev (repeat allowed)
			var cand []int
			for _, k := range known {
				if k >= prev {
					cand = append(cand, k)
				}
			}
			if len(cand) == 0 {
				num = prev
			} else {
				num = rapid.SampledFrom(cand).Draw(t, "known")
			}
		case 2: // repeat
			num = prev
		case 3:
			num = prev + rapid.IntRange(1, 12).Draw(t, "d")
		case 4:
			num = prev + rapid.SampledFrom([]int{13, 14, 100, 268}).Draw(t, "d")
		case 5:
			num = prev + rapid.SampledFrom([]int{269, 270, 1000, 20000}).Draw(t, "d")
		case 6:
			num = rapid.SampledFrom([]int{65535, 65000, 258, 2049, 300}).Draw(t, "abs")
		}
		if num < prev {
			num = prev
		}
		if num == 0 {
			num = 1
		}
		if num > 65535 {
			num = 65535
		}
		var bp *refcodec.Bounds
		if b, ok := table[num]; ok {
			bp = &b
		}
		l := drawLen(t, bp, "vlen")
		m.Opts = append(m.Opts, refcodec.Opt{Num: num, Val: bytesOfLen(t, l, "val")})
		prev = num
	}
	optBytes, _ := refcodec.EncodeOptions(m.Opts, nil)
	// payload: aim the stream Len field (options + marker + payload) at its class boundaries
	var pl int
	switch rapid.IntRange(0, 9).Draw(t, "plkind") {
	case 0, 1:
		pl = 0
	case 2, 3:
		pl = rapid.IntRange(1, 40).Draw(t, "pl")
	case 4:
		pl = rapid.IntRange(41, 1500).Draw(t, "pl")
	default:
		target := rapid.SampledFrom([]int{12, 13, 14, 268, 269, 270, 65804, 65805, 65806, 66000}).Draw(t, "lenTarget")
		pl = target - len(optBytes) - 1
		if pl < 0 {
			pl = rapid.IntRange(0, 20).Draw(t, "pl")
		}
	}
	m.Payload = bytesOfLen(t, pl, "payload")
	return m
}

// ExtendedClass reports whether the message exercises an extended (>= 13) delta, value
// length or stream Len class — the non-triviality rule of C01/C07.
func ExtendedClass(m refcodec.Msg) bool {
	prev := 0
	for _, o := range m.Opts {
		if o.Num-prev >= 13 || len(o.Val) >= 13 {
			return true
		}
		prev = o.Num
	}
	b, _ := refcodec.EncodeOptions(m.Opts, m.Payload)
	return len(b) >= 13
}
