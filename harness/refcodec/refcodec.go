// Package refcodec is an independent reference implementation of the CoAP wire formats:
// RFC 7252 section 3 (datagram framing) and RFC 8323 section 3 (stream framing), parser and
// canonical encoder. It shares no code with the library under test. The only extensions are
// the library's three documented leniencies (DESIGN.md appendix A):
//   - an option whose number is 0 is dropped,
//   - an option whose number is in the registry table selected by the message code and whose
//     length is outside the table's bounds is dropped (RFC 7252 5.4.3 "skip"),
//   - a payload marker followed by nothing means "no payload".
package refcodec

import (
	"encoding/binary"
	"errors"
)

type Opt struct {
	Num int    `json:"n"`
	Val []byte `json:"v"`
}

// Msg is a CoAP message. Type and MID are meaningful for datagram framing only.
type Msg struct {
	Type    int    `json:"type"`
	MID     int    `json:"mid"`
	Token   []byte `json:"token"`
	Code    int    `json:"code"`
	Opts    []Opt  `json:"opts"`
	Payload []byte `json:"payload"`
}

type Bounds struct{ Min, Max int }

// Registry tables: RFC 7252 5.10, RFC 7641 2 (Observe), RFC 7959 2.1/4 (Block, Size),
// RFC 7967 2 (No-Response), RFC 8323 5.3-5.6 (signalling options).
var (
	CoAP = map[int]Bounds{
		1: {0, 8}, 3: {1, 255}, 4: {1, 8}, 5: {0, 0}, 6: {0, 3}, 7: {0, 2}, 8: {0, 255}, 11: {0, 255},
		12: {0, 2}, 14: {0, 4}, 15: {0, 255}, 17: {0, 2}, 20: {0, 255}, 23: {0, 3}, 27: {0, 3}, 28: {0, 4},
		35: {1, 1034}, 39: {1, 255}, 60: {0, 4}, 258: {0, 1},
	}
	CSM      = map[int]Bounds{2: {0, 4}, 4: {0, 0}}
	PingPong = map[int]Bounds{2: {0, 0}}
	Release  = map[int]Bounds{2: {1, 255}, 4: {0, 3}}
	Abort    = map[int]Bounds{2: {0, 2}}
)

// StreamTable selects the option table by code (RFC 8323: 7.01 CSM, 7.02 Ping, 7.03 Pong,
// 7.04 Release, 7.05 Abort).
func StreamTable(code int) map[int]Bounds {
	switch code {
	case 225:
		return CSM
	case 226, 227:
		return PingPong
	case 228:
		return Release
	case 229:
		return Abort
	}
	return CoAP
}

var (
	ErrTruncated    = errors.New("ref: truncated")
	ErrVersion      = errors.New("ref: version is not 1")
	ErrTKL          = errors.New("ref: token length 9-15")
	ErrNibble15     = errors.New("ref: reserved nibble 15 in option header")
	ErrOptTrunc     = errors.New("ref: option truncated")
	ErrOptNumber    = errors.New("ref: option number exceeds 65535")
	ErrShort        = errors.New("ref: short read (stream frame incomplete)")
	ErrNotEncodable = errors.New("ref: message outside the wire-format preconditions")
)

func extRead(data []byte, nib int) (val, used int, err error) {
	switch nib {
	case 13:
		if len(data) < 1 {
			return 0, 0, ErrOptTrunc
		}
		return int(data[0]) + 13, 1, nil
	case 14:
		if len(data) < 2 {
			return 0, 0, ErrOptTrunc
		}
		return int(binary.BigEndian.Uint16(data)) + 269, 2, nil
	case 15:
		return 0, 0, ErrNibble15
	}
	return nib, 0, nil
}

// ParseOptions parses the option sequence and payload that follow the token.
// parsedAny reports whether at least one option header was parsed completely (used by the
// checks' non-triviality rule).
func ParseOptions(data []byte, table map[int]Bounds) (opts []Opt, payload []byte, parsedAny bool, err error) {
	prev := 0
	for len(data) > 0 {
		if data[0] == 0xff {
			payload = data[1:]
			if len(payload) == 0 {
				payload = nil // leniency: marker followed by nothing
			}
			return opts, payload, parsedAny, nil
		}
		dn, ln := int(data[0]>>4), int(data[0]&15)
		if dn == 15 || ln == 15 {
			return nil, nil, parsedAny, ErrNibble15
		}
		data = data[1:]
		delta, u, e := extRead(data, dn)
		if e != nil {
			return nil, nil, parsedAny, e
		}
		data = data[u:]
		length, u, e := extRead(data, ln)
		if e != nil {
			return nil, nil, parsedAny, e
		}
		data = data[u:]
		if len(data) < length {
			return nil, nil, parsedAny, ErrOptTrunc
		}
		num := prev + delta
		if num > 65535 {
			return nil, nil, parsedAny, ErrOptNumber
		}
		val := data[:length]
		data = data[length:]
		prev = num
		parsedAny = true
		if num == 0 {
			continue // leniency
		}
		if b, ok := table[num]; ok && (length < b.Min || length > b.Max) {
			continue // leniency
		}
		opts = append(opts, Opt{num, append([]byte(nil), val...)})
	}
	return opts, nil, parsedAny, nil
}

// ParseDatagram implements RFC 7252 section 3. The whole input is one message.
func ParseDatagram(data []byte, table map[int]Bounds) (m Msg, parsedAny bool, err error) {
	if len(data) < 4 {
		return m, false, ErrTruncated
	}
	if data[0]>>6 != 1 {
		return m, false, ErrVersion
	}
	m.Type = int(data[0]>>4) & 3
	tkl := int(data[0] & 15)
	if tkl > 8 {
		return m, false, ErrTKL
	}
	m.Code = int(data[1])
	m.MID = int(binary.BigEndian.Uint16(data[2:4]))
	data = data[4:]
	if len(data) < tkl {
		return m, false, ErrTruncated
	}
	if tkl > 0 {
		m.Token = append([]byte(nil), data[:tkl]...)
	}
	m.Opts, m.Payload, parsedAny, err = ParseOptions(data[tkl:], table)
	if m.Payload != nil {
		m.Payload = append([]byte(nil), m.Payload...)
	}
	return m, parsedAny, err
}

// StreamHeader is the result of parsing the fixed part of a stream frame.
type StreamHeader struct {
	HeaderLen int    // bytes up to and including the token
	Total     uint64 // declared total frame length, computed in 64 bits
	Code      int
	Token     []byte
}

// ParseStreamHeader implements RFC 8323 section 3.2 for a prefix of the stream.
// ErrShort means: not enough bytes yet to see the whole header (Len, ext, Code, token).
// totalKnown reports whether the declared total length could already be computed.
func ParseStreamHeader(data []byte) (h StreamHeader, totalKnown bool, err error) {
	if len(data) < 1 {
		return h, false, ErrShort
	}
	lenNib, tkl := int(data[0]>>4), int(data[0]&15)
	extBytes := map[int]int{13: 1, 14: 2, 15: 4}[lenNib]
	if len(data) < 1+extBytes {
		return h, false, ErrShort
	}
	var l uint64
	switch lenNib {
	case 13:
		l = uint64(data[1]) + 13
	case 14:
		l = uint64(binary.BigEndian.Uint16(data[1:])) + 269
	case 15:
		l = uint64(binary.BigEndian.Uint32(data[1:])) + 65805
	default:
		l = uint64(lenNib)
	}
	h.Total = uint64(1+extBytes+1+tkl) + l
	// An incomplete header is reported as "short" even if its TKL nibble is already known to
	// be invalid: more bytes cannot repair it, but waiting for them is harmless, and this is
	// the order the library uses. Once the header bytes are there, TKL 9-15 is an error.
	if len(data) < 1+extBytes+1+tkl {
		return h, true, ErrShort
	}
	if tkl > 8 {
		return h, true, ErrTKL
	}
	h.Code = int(data[1+extBytes])
	if tkl > 0 {
		h.Token = append([]byte(nil), data[1+extBytes+1:1+extBytes+1+tkl]...)
	}
	h.HeaderLen = 1 + extBytes + 1 + tkl
	return h, true, nil
}

// ParseStream parses one frame from the front of data; consumed is the declared total.
func ParseStream(data []byte, tableFor func(code int) map[int]Bounds) (m Msg, consumed int, parsedAny bool, err error) {
	h, _, err := ParseStreamHeader(data)
	if err != nil {
		return m, 0, false, err
	}
	if uint64(len(data)) < h.Total {
		return m, 0, false, ErrShort
	}
	body := data[h.HeaderLen:int(h.Total)]
	m.Code, m.Token = h.Code, h.Token
	m.Opts, m.Payload, parsedAny, err = ParseOptions(body, tableFor(h.Code))
	if m.Payload != nil {
		m.Payload = append([]byte(nil), m.Payload...)
	}
	return m, int(h.Total), parsedAny, err
}

func extWrite(b []byte, v int) (nib byte, out []byte) {
	switch {
	case v < 13:
		return byte(v), b
	case v < 269:
		return 13, append(b, byte(v-13))
	default:
		return 14, append(b, byte((v-269)>>8), byte(v-269))
	}
}

// EncodeOptions writes options (must be ascending, non-zero numbers, value <= 65804 bytes) and payload.
func EncodeOptions(opts []Opt, payload []byte) ([]byte, error) {
	var out []byte
	prev := 0
	for _, o := range opts {
		if o.Num < prev || o.Num == 0 || o.Num > 65535 || len(o.Val) > 65804 {
			return nil, ErrNotEncodable
		}
		var ext []byte
		dn, ext := extWrite(ext, o.Num-prev)
		ln, ext := extWrite(ext, len(o.Val))
		out = append(out, dn<<4|ln)
		out = append(out, ext...)
		out = append(out, o.Val...)
		prev = o.Num
	}
	if len(payload) > 0 {
		out = append(out, 0xff)
		out = append(out, payload...)
	}
	return out, nil
}

// EncodeDatagram is the canonical RFC 7252 encoding.
func EncodeDatagram(m Msg) ([]byte, error) {
	if len(m.Token) > 8 || m.Type < 0 || m.Type > 3 || m.MID < 0 || m.MID > 65535 || m.Code < 0 || m.Code > 255 {
		return nil, ErrNotEncodable
	}
	body, err := EncodeOptions(m.Opts, m.Payload)
	if err != nil {
		return nil, err
	}
	out := []byte{1<<6 | byte(m.Type)<<4 | byte(len(m.Token)), byte(m.Code), byte(m.MID >> 8), byte(m.MID)}
	out = append(out, m.Token...)
	return append(out, body...), nil
}

// EncodeStream is the canonical RFC 8323 encoding.
func EncodeStream(m Msg) ([]byte, error) {
	if len(m.Token) > 8 || m.Code < 0 || m.Code > 255 {
		return nil, ErrNotEncodable
	}
	body, err := EncodeOptions(m.Opts, m.Payload)
	if err != nil {
		return nil, err
	}
	l := len(body)
	var out []byte
	switch {
	case l < 13:
		out = []byte{byte(l)<<4 | byte(len(m.Token))}
	case l < 269:
		out = []byte{13<<4 | byte(len(m.Token)), byte(l - 13)}
	case l < 65805:
		out = []byte{14<<4 | byte(len(m.Token)), byte((l - 269) >> 8), byte(l - 269)}
	default:
		e := uint32(l - 65805)
		out = []byte{15<<4 | byte(len(m.Token)), byte(e >> 24), byte(e >> 16), byte(e >> 8), byte(e)}
	}
	out = append(out, byte(m.Code))
	out = append(out, m.Token...)
	return append(out, body...), nil
}

// Equal compares two messages; nil and empty slices are the same. Type/MID only if datagram.
func Equal(a, b Msg, datagram bool) bool {
	if datagram && (a.Type != b.Type || a.MID != b.MID) {
		return false
	}
	if a.Code != b.Code || string(a.Token) != string(b.Token) || string(a.Payload) != string(b.Payload) || len(a.Opts) != len(b.Opts) {
		return false
	}
	for i := range a.Opts {
		if a.Opts[i].Num != b.Opts[i].Num || string(a.Opts[i].Val) != string(b.Opts[i].Val) {
			return false
		}
	}
	return true
}
