//go:build verif

// C12 — a pooled message has one owner at a time.
package c12

import (
	"encoding/json"
	"fmt"
	"testing"

	"pgregory.net/rapid"

	"verif/clientsim"
	"verif/discsim"
	"verif/evid"
	"verif/memnet"
	"verif/pairsim"
)

func Oracle(sc pairsim.Scenario, tr pairsim.Trace) *evid.Failure {
	if tr.Panic != "" {
		return evid.Failf("pool/panic", sc, "panic in scenario: %s", tr.Panic)
	}
	if tr.Deadlock {
		return evid.Failf("pool/deadlock", sc, "all goroutines blocked while the scenario was still running")
	}
	if len(tr.PoolViolation) > 0 {
		key := "pool/write-after-release"
		if len(tr.PoolViolation[0]) > 14 && tr.PoolViolation[0][:14] == "double release" {
			key = "pool/double-release"
		}
		return evid.Failf(key, sc, "%s (%d life-cycle violations in this scenario)", tr.PoolViolation[0], len(tr.PoolViolation))
	}
	for i, r := range tr.Ops {
		if r.HeldChanged != "" {
			return evid.Failf("pool/response-changed-while-held", sc, "operation %d (%s): the response returned to the application changed before the application released it: %s", i, sc.Ops[i].Kind, r.HeldChanged)
		}
	}
	for i, r := range tr.Ops {
		for k, n := range r.Notifs {
			if n.Changed != "" {
				return evid.Failf("pool/notification-changed-in-callback", sc, "operation %d: notification %d changed while the observe callback was running: %s", i, k, n.Changed)
			}
		}
	}
	for _, h := range tr.Handler {
		if h.HeldChange != "" {
			return evid.Failf("pool/request-changed-in-handler", sc, "the request of operation %d changed while its handler was running (%s side): %s", h.Op, h.Side, h.HeldChange)
		}
	}
	return nil
}

func genFaults(t *rapid.T, label string) []memnet.Fault {
	n := rapid.IntRange(0, 4).Draw(t, label+"n")
	var fs []memnet.Fault
	for i := 0; i < n; i++ {
		fs = append(fs, memnet.Fault{At: rapid.IntRange(0, 24).Draw(t, label+"at"), Kind: rapid.SampledFrom([]string{"drop", "dup", "dup", "hold", "replay", "alien"}).Draw(t, label+"kind"), Arg: rapid.IntRange(1, 3).Draw(t, label+"arg")})
	}
	return fs
}

func gen(t *rapid.T) pairsim.Scenario {
	sc := pairsim.Scenario{Transport: rapid.SampledFrom([]string{"udp", "udp", "tcp"}).Draw(t, "transport"), TickMs: rapid.SampledFrom([]int{100, 500}).Draw(t, "tick"), SettleMs: 20000}
	sc.NotifHoldMs = rapid.SampledFrom([]int{0, 1, 30}).Draw(t, "nhold")
	bw := rapid.IntRange(0, 4).Draw(t, "bw") > 0
	ps := rapid.SampledFrom([]int{2, 3, 4, 8}).Draw(t, "pool")
	sc.Cli = pairsim.EndCfg{SZX: rapid.IntRange(0, 6).Draw(t, "cszx"), Blockwise: bw, Queue: rapid.SampledFrom([]int{0, 1, 16}).Draw(t, "cq"), PoolSize: ps, AckTimeoutMs: 300, MaxRetransmit: rapid.IntRange(0, 3).Draw(t, "cmr"), Limit: rapid.SampledFrom([]int{1, 16}).Draw(t, "limit"), BwTimeoutMs: rapid.SampledFrom([]int{500, 3000}).Draw(t, "bwt")}
	sc.Srv = pairsim.EndCfg{SZX: rapid.IntRange(0, 6).Draw(t, "sszx"), Blockwise: bw, Queue: rapid.SampledFrom([]int{0, 1, 16}).Draw(t, "sq"), PoolSize: ps, AckTimeoutMs: 300, MaxRetransmit: 2, BwTimeoutMs: 1000}
	// either endpoint may be a connection created by a server (dtls.NewServer / tcp.NewServer)
	if rapid.IntRange(0, 2).Draw(t, "srvrole") == 0 {
		sc.Srv.Role = "server"
	}
	if rapid.IntRange(0, 3).Draw(t, "clirole") == 0 {
		sc.Cli.Role = "server"
	}
	if sc.Transport == "tcp" {
		sc.Cli.MaxMsg, sc.Srv.MaxMsg = 70000, 70000
		sc.Stream = memnet.StreamCfg{SegsAB: rapid.SliceOfN(rapid.IntRange(1, 300), 0, 3).Draw(t, "segs")}
	} else {
		sc.Link = memnet.LinkCfg{LatencyMs: rapid.SampledFrom([]int{1, 5, 60}).Draw(t, "lat"), FaultsAB: genFaults(t, "ab"), FaultsBA: genFaults(t, "ba"), Budget: 800}
	}
	n := rapid.IntRange(2, 10).Draw(t, "nops")
	var observes []int
	for i := 0; i < n; i++ {
		kinds := []string{"get", "post", "post", "put", "delete", "write", "observe", "ping"}
		if len(observes) > 0 {
			kinds = append(kinds, "cancelobs")
		}
		op := pairsim.Op{Kind: rapid.SampledFrom(kinds).Draw(t, "kind"), DeadlineMs: rapid.SampledFrom([]int{200, 2000, 10000}).Draw(t, "deadline"), Async: rapid.IntRange(0, 2).Draw(t, "async") == 0, ETag: rapid.Bool().Draw(t, "etag")}
		sz := func(label string) int {
			return rapid.SampledFrom([]int{0, 1, 15, 16, 17, 100, 1025, 3000}).Draw(t, label)
		}
		switch op.Kind {
		case "post", "put":
			op.Up, op.Down = sz("up"), sz("down")
		case "get", "delete":
			op.Down = sz("down")
			// now and then with the token of an earlier request (abandoned half-way, finished, or
			// still outstanding): the responder may still hold block-wise state under that token
			var earlier []int
			for j, o := range sc.Ops {
				if o.Kind == "get" || o.Kind == "post" || o.Kind == "put" || o.Kind == "delete" {
					earlier = append(earlier, j)
				}
			}
			if len(earlier) > 0 && rapid.IntRange(0, 3).Draw(t, "tokref") == 0 {
				op.TokRef = earlier[rapid.IntRange(0, len(earlier)-1).Draw(t, "tokrefwhich")] + 1
			}
		case "write":
			op.Up, op.Code, op.Con = sz("up"), 2, rapid.Bool().Draw(t, "con")
		case "observe":
			op.Down, op.Notifs, op.NotifLen = sz("down"), rapid.IntRange(0, 3).Draw(t, "notifs"), sz("nlen")
			observes = append(observes, i)
			op.Async = false
		case "cancelobs":
			k := rapid.IntRange(0, len(observes)-1).Draw(t, "ref")
			op.Ref = observes[k]
			observes = append(observes[:k], observes[k+1:]...)
			op.Async = false
		}
		if op.Kind != "cancelobs" && op.Kind != "ping" {
			switch rapid.IntRange(0, 7).Draw(t, "ending") {
			case 0:
				op.Mode = "none"
			case 1:
				op.SlowMs = rapid.SampledFrom([]int{30, 500, 3000}).Draw(t, "slow") // the handler holds the request while other traffic churns the pool
				// (half of them with a context without a deadline: the exchange then outlasts the
				// block-wise timeout, which is all the library has to go by for its own bookkeeping)
				op.NoDeadline = (op.Kind == "get" || op.Kind == "post" || op.Kind == "put" || op.Kind == "delete") && rapid.Bool().Draw(t, "nodeadline") &&
					(sc.Transport == "tcp" || len(sc.Link.FaultsAB)+len(sc.Link.FaultsBA) == 0) // (a lost response is waited for for ever)
			case 2:
				op.CancelMs = rapid.SampledFrom([]int{1, 3, 50}).Draw(t, "cancel")
			case 3:
				op.Mode = "sep"
			case 4:
				// the request carries No-Response (RFC 7967): the response, block-wise or not, may be
				// withheld on the responder's side after the handler produced it
				if op.Kind != "observe" {
					op.NoResp = rapid.SampledFrom([]int{2, 8, 16, 26, 24, 10}).Draw(t, "noresp")
				}
			}
		}
		sc.Ops = append(sc.Ops, op)
	}
	// the responder processes every message on a goroutine of its own in a quarter of the datagram
	// scenarios (handlers then do not sleep: a duplicate waiting on the per-ID mutex behind a sleeping
	// handler is not a durable block for the virtual clock)
	if sc.Transport == "udp" && rapid.IntRange(0, 3).Draw(t, "gopool") == 0 {
		sc.Srv.GoPool = true
		for i := range sc.Ops {
			sc.Ops[i].SlowMs = 0
			sc.Ops[i].NoDeadline = false
		}
	}
	// a stream server may be given a ProcessReceivedMessageFunc as well (on the unchanged tree its
	// connections ignore it)
	if sc.Transport == "tcp" && sc.Srv.Role == "server" && rapid.Bool().Draw(t, "tcpgopool") {
		sc.Srv.GoPool = true
		for i := range sc.Ops {
			sc.Ops[i].SlowMs = 0
			sc.Ops[i].NoDeadline = false
		}
	}
	// a server application that tags its notifications with an ETag but not the blocks fetched
	// afterwards (the oracle here does not look at bodies, so the representation may change meanwhile)
	sc.PlainFollowUp = rapid.IntRange(0, 3).Draw(t, "plainfollowup") == 0
	return sc
}

func TestCheck(t *testing.T) {
	r := evid.New(t, "C12")
	eng := evid.RapidEngine("lifecycle", evid.RapidOpts{Quick: 4000, Thorough: 150000, Crashy: true}, gen, func(sc pairsim.Scenario) *evid.Failure {
		tr := pairsim.Run(t, sc, true)
		f := Oracle(sc, tr)
		if f == nil {
			key := ""
			if tr.PoolRecycles > 0 && len(sc.Ops) >= 2 {
				b, _ := json.Marshal(sc)
				key = string(b)
			}
			r.Case("lifecycle", key, func() any { return sc }, "lifecycle/"+sc.Transport)
			r.Class("lifecycle/releases", tr.PoolReleases)
			r.Class("lifecycle/recycles", tr.PoolRecycles)
		}
		return f
	})
	scripted := evid.RapidEngine("scripted", evid.RapidOpts{Quick: 3000, Thorough: 100000, Crashy: true}, clientsim.Gen, func(sc clientsim.Scenario) *evid.Failure {
		tr := clientsim.Run(t, sc)
		var f *evid.Failure
		switch {
		case tr.Panic != "":
			f = evid.Failf("pool/panic", sc, "panic in scenario: %s", tr.Panic)
		case tr.Deadlock:
			f = evid.Failf("pool/deadlock", sc, "all goroutines blocked while the scenario was still running")
		case len(tr.PoolViolation) > 0:
			key := "pool/write-after-release"
			if len(tr.PoolViolation[0]) > 14 && tr.PoolViolation[0][:14] == "double release" {
				key = "pool/double-release"
			}
			f = evid.Failf(key, sc, "%s (%d life-cycle violations in this scenario)", tr.PoolViolation[0], len(tr.PoolViolation))
		case tr.HeldChanged != "":
			f = evid.Failf("pool/response-changed-while-held", sc, "%s", tr.HeldChanged)
		}
		if f == nil {
			key := ""
			if tr.Recycles > 0 && len(sc.Ops) >= 2 {
				b, _ := json.Marshal(sc)
				key = string(b)
			}
			r.Case("scripted", key, func() any { return sc })
			r.Class("scripted/recycles", tr.Recycles)
		}
		return f
	})
	r.Main(evid.Meta{
		Rule:        fmt.Sprint(discsim.RuleDupBlocks + ". Others: the mixed scenarios of C04/C13 (plain and block-wise requests in both directions, one-way writes, observe + notifications + cancel, ping; endings by answer, silence, slow handler, caller cancellation, separate response; some requests re-use the token of an earlier one that was abandoned, has finished or is still outstanding; fault tapes with drop/duplicate/re-order/replay on the datagram link, segmentation on the stream; partly concurrent) run between two library endpoints whose pools hold only 2-8 objects and are instrumented through the verif life-cycle hook: per-object state machine (a second release without re-acquisition is a violation), poison of every retained buffer on release, poison verified on the next acquisition and in an end-of-run sweep (a library write after release), fingerprint for objects the full pool did not keep; application side: every response returned from a call is snapshotted and held across the following operation(s), every request is snapshotted at handler entry and compared at exit after the handler slept while other traffic churned the pool, every notification likewise at entry and exit of the observe callback (which holds it for 0-30 ms). scripted: the same monitor on one client connection against the scripted wire-level peer (endings: answer, silence, bare ACK, reset, duplicated and stray replies, undecodable block option, first block then silence, block-wise download; cancellation; token re-use), which reaches the error paths that release early. Non-trivial = at least one object was recycled during a scenario with >= 2 operations; distinct by scenario"),
		Assumptions: []string{"library reads after release are only visible if they lead to a write, a crash or changed application-visible content", "goroutine interleavings are the runtime's"},
		Floor:       300,
	}, eng, scripted, discsim.Engine(r, "dupblocks", 6, 120))
}
