//go:build verif

package c03

// Engine "defaults" (real loopback sockets): what the matching of responses relies on when the
// application configures nothing.
//   - tokens: the connections of every client constructor (udp.Dial, dtls.Dial, tcp.Dial, TLS) draw
//     their request tokens from the default source (anchor mechanism "random 8-byte tokens by
//     default"): the tokens a server sees for a series of requests are 8 bytes long and pairwise
//     different.
//   - maxsize: a datagram client with a maximum message size below the MTU; a response longer than
//     that either fails the call or is returned complete - "the content the peer produced" is never a
//     prefix of it.

import (
	"bytes"
	"context"
	"encoding/json"
	"sync"
	"time"

	"github.com/plgd-dev/go-coap/v3/message"
	"github.com/plgd-dev/go-coap/v3/message/codes"
	"github.com/plgd-dev/go-coap/v3/message/pool"
	"github.com/plgd-dev/go-coap/v3/mux"
	coapNet "github.com/plgd-dev/go-coap/v3/net"
	"github.com/plgd-dev/go-coap/v3/net/blockwise"
	"github.com/plgd-dev/go-coap/v3/net/responsewriter"
	"github.com/plgd-dev/go-coap/v3/options"
	"github.com/plgd-dev/go-coap/v3/udp"
	udpClient "github.com/plgd-dev/go-coap/v3/udp/client"
	"pgregory.net/rapid"

	"verif/evid"
	"verif/realnet"
)

type defaultsScenario struct {
	Mode string `json:"mode"` // tokens | source | maxsize
	Kind string `json:"kind,omitempty"`
	N    int    `json:"n,omitempty"`
	Max  int    `json:"max,omitempty"`  // maxsize: the client's maximum message size
	Body int    `json:"body,omitempty"` // maxsize: length of the response body
}

func execDefaultsOnce(sc defaultsScenario) *evid.Failure {
	if sc.Mode == "source" {
		// the default token source itself, over as many draws as a connection makes in hours:
		// N tokens drawn by 1-4 goroutines, all 8 bytes long and pairwise distinct (64 random
		// bits: a repetition among 10^5 draws has probability below 10^-9)
		workers := 1 + sc.Max%4
		out := make([][]message.Token, workers)
		var wg sync.WaitGroup
		for w := 0; w < workers; w++ {
			wg.Add(1)
			go func(w int) {
				defer wg.Done()
				for i := 0; i < sc.N/workers; i++ {
					tk, err := message.GetToken()
					if err != nil {
						return
					}
					out[w] = append(out[w], tk)
				}
			}(w)
		}
		wg.Wait()
		seen := map[string]int{}
		n := 0
		for _, ts := range out {
			for _, tk := range ts {
				n++
				if len(tk) != 8 {
					return evid.Failf("defaults/token-length", sc, "draw %d of the default token source has %d bytes (%x), it yields 8 random bytes", n, len(tk), []byte(tk))
				}
				if first, ok := seen[string(tk)]; ok {
					return evid.Failf("defaults/token-repeated", sc, "the default token source returned %x twice (draws %d and %d of %d)", []byte(tk), first, n, sc.N)
				}
				seen[string(tk)] = n
			}
		}
		return nil
	}
	if sc.Mode == "tokens" {
		var mu sync.Mutex
		var tokens [][]byte
		router := mux.NewRouter()
		_ = router.Handle("/t", mux.HandlerFunc(func(w mux.ResponseWriter, r *mux.Message) {
			mu.Lock()
			tokens = append(tokens, append([]byte(nil), r.Token()...))
			mu.Unlock()
			_ = w.SetResponse(codes.Content, message.TextPlain, nil)
		}))
		srv, err := realnet.Start(sc.Kind, router)
		if err != nil {
			return nil
		}
		defer srv.Stop(5 * time.Second)
		cc, err := srv.Dial(false)
		if err != nil {
			return evid.Failf("defaults/dial", sc, "%s dial: %v", sc.Kind, err)
		}
		defer cc.Close()
		for i := 0; i < sc.N; i++ {
			ctx, cancel := context.WithTimeout(context.Background(), 5*time.Second)
			_, err := cc.Get(ctx, "/t")
			cancel()
			if err != nil {
				return evid.Failf("defaults/request-failed", sc, "%s: request %d failed: %v", sc.Kind, i, err)
			}
		}
		mu.Lock()
		defer mu.Unlock()
		seen := map[string]bool{}
		for i, tk := range tokens {
			if len(tk) != 8 {
				return evid.Failf("defaults/token-length", sc, "%s client with default options: request %d carried a token of %d bytes (%x), the default source yields 8 random bytes", sc.Kind, i, len(tk), tk)
			}
			if seen[string(tk)] {
				return evid.Failf("defaults/token-repeated", sc, "%s client with default options: token %x was used for two of %d requests", sc.Kind, tk, len(tokens))
			}
			seen[string(tk)] = true
		}
		return nil
	}
	// maxsize
	l, err := coapNet.NewListenUDP("udp4", "127.0.0.1:0")
	if err != nil {
		return nil
	}
	defer l.Close()
	full := bytes.Repeat([]byte("0123456789abcdef"), sc.Body/16+1)[:sc.Body]
	s := udp.NewServer(options.WithBlockwise(false, blockwise.SZX1024, time.Second), options.WithMessagePool(pool.New(8, 4096)), options.WithErrors(func(error) {}),
		options.WithHandlerFunc(udpClient.HandlerFunc(func(w *responsewriter.ResponseWriter[*udpClient.Conn], r *pool.Message) {
			_ = w.SetResponse(codes.Content, message.AppOctets, bytes.NewReader(full))
		})))
	done := make(chan struct{})
	go func() { _ = s.Serve(l); close(done) }()
	defer func() { s.Stop(); <-done }()
	cc, err := udp.Dial(l.LocalAddr().String(), options.WithMaxMessageSize(uint32(sc.Max)), options.WithBlockwise(false, blockwise.SZX1024, time.Second),
		options.WithMessagePool(pool.New(8, 4096)), options.WithErrors(func(error) {}))
	if err != nil {
		return nil
	}
	defer cc.Close()
	ctx, cancel := context.WithTimeout(context.Background(), 600*time.Millisecond)
	defer cancel()
	resp, err := cc.Get(ctx, "/big")
	if err != nil {
		return nil // refused (the connection reports a too large message): allowed
	}
	b, _ := resp.ReadBody()
	if !bytes.Equal(b, full) {
		return evid.Failf("defaults/truncated-response", sc, "datagram client with maximum message size %d: the peer produced a body of %d bytes, the call succeeded with %d bytes (a prefix: %v)", sc.Max, len(full), len(b), bytes.HasPrefix(full, b))
	}
	return nil
}

func defaultsEngine(r *evid.Run) evid.Engine {
	return evid.RapidEngine("defaults", evid.RapidOpts{Quick: 12, Thorough: 300, Serial: true}, func(t *rapid.T) defaultsScenario {
		if rapid.IntRange(0, 2).Draw(t, "mode") == 0 {
			max := rapid.SampledFrom([]int{200, 600, 1100, 1152}).Draw(t, "max")
			return defaultsScenario{Mode: "maxsize", Max: max, Body: max + rapid.SampledFrom([]int{-40, -1, 1, 50, 200}).Draw(t, "over")}
		}
		if rapid.Bool().Draw(t, "source") {
			return defaultsScenario{Mode: "source", N: rapid.SampledFrom([]int{600, 5000, 100000}).Draw(t, "draws"), Max: rapid.IntRange(0, 3).Draw(t, "workers")}
		}
		return defaultsScenario{Mode: "tokens", Kind: rapid.SampledFrom([]string{"udp", "dtls", "tcp", "tls"}).Draw(t, "kind"), N: rapid.IntRange(20, 60).Draw(t, "n")}
	}, func(sc defaultsScenario) *evid.Failure {
		var f *evid.Failure
		for try := 0; try < 3; try++ {
			if f = execDefaultsOnce(sc); f == nil {
				break
			}
		}
		if f == nil {
			b, _ := json.Marshal(sc)
			r.Case("defaults", string(b), func() any { return sc }, "defaults/"+sc.Mode)
		}
		return f
	})
}
