//go:build verif

// C03 — every response reaches exactly the request that carries its token.
package c03

import (
	"bytes"
	"context"
	"encoding/json"
	"fmt"
	"io"
	"runtime"
	"sync"
	"testing"
	"time"

	"github.com/plgd-dev/go-coap/v3/message"
	"github.com/plgd-dev/go-coap/v3/message/codes"
	"github.com/plgd-dev/go-coap/v3/message/pool"
	"github.com/plgd-dev/go-coap/v3/options"
	"github.com/plgd-dev/go-coap/v3/options/config"
	udpClient "github.com/plgd-dev/go-coap/v3/udp/client"
	"pgregory.net/rapid"

	"verif/bubble"
	"verif/discsim"
	"verif/endpoints"
	"verif/evid"
	"verif/memnet"
	"verif/peer"
	"verif/refcodec"
	"verif/roles"
	"verif/wire"
)

type Call struct {
	Token   []byte `json:"token"`
	Non     bool   `json:"non,omitempty"`
	Style   string `json:"style"` // piggy | sep | sep-first | dup | dup-fresh
	DelayMs int    `json:"delayMs"`
	SepCon  bool   `json:"sepCon,omitempty"`
	// DupOf >= 0: this call deliberately re-uses the token of an earlier call while that one is
	// still outstanding (it is issued right after it, before the peer answers anything)
	DupOf int `json:"dupOf"`
	// Big >= 2: the peer's answer is a body of Big 16-byte blocks that the client has to fetch
	// block by block (Block2) with the same token (only when block-wise transfer is on)
	Big int `json:"big,omitempty"`
	// Late (with DupOf >= 0 of a Big call): the duplicate is issued in the middle of the original's
	// block-wise download, after its first block has arrived and before the peer serves the next
	Late bool `json:"late,omitempty"`
	// what the caller does with its response: keep it for HoldMs (and look at it again afterwards),
	// then give it back to the connection's pool (Release) or just drop it
	HoldMs  int  `json:"holdMs,omitempty"`
	Release bool `json:"release,omitempty"`
	// GiveUp (datagram): the caller's context is cancelled at the very moment its response is taken in
	// (from the receive path, right before the response is processed): the call may fail or succeed;
	// whichever it does, a request issued afterwards gets its own response
	GiveUp bool `json:"giveUp,omitempty"`
}

type Stray struct {
	AfterAnswer int    `json:"afterAnswer"` // injected after this many answers
	Token       []byte `json:"token"`
	Ack         bool   `json:"ack,omitempty"`
}

type Scenario struct {
	Transport  string  `json:"transport"` // udp | tcp
	Blockwise  bool    `json:"blockwise"`
	Serialised bool    `json:"serialised"` // library defaults for NSTART / parallel-request limits
	Calls      []Call  `json:"calls"`
	Order      []int   `json:"order"` // answering order (indices into Calls, only non-duplicate calls)
	Strays     []Stray `json:"strays"`
	// Reuse > 0 (datagram): once every call has returned, one more request takes the token of call
	// Reuse-1 (answered by a separate confirmable response) again; while it is outstanding the
	// peer retransmits that earlier confirmable response (same message ID, as after a lost ACK)
	// and only then answers the new request
	Reuse int `json:"reuse,omitempty"`
	// Role: "" a client connection; "server" the connection a tcp / dtls server creates for an accepted
	// peer (server applications issue requests on those as well)
	Role string `json:"role,omitempty"`
}

type result struct {
	returned bool
	err      error
	token    []byte
	payload  []byte
	code     int
	at       time.Duration
	took     time.Duration
	changed  string // the response differed when the caller looked at it a second time
}

type doer interface {
	Do(req *pool.Message) (*pool.Message, error)
	NewGetRequest(ctx context.Context, path string, opts ...message.Option) (*pool.Message, error)
	ReleaseMessage(m *pool.Message)
	Close() error
}

func expected(i int, tok []byte) []byte { return []byte(fmt.Sprintf("R%d:%x", i, tok)) }

// expectedBody is what the peer produces for call i: f(index, token), for a Big call padded to
// Big-1 full 16-byte blocks plus 7 bytes.
func expectedBody(i int, c Call) []byte {
	b := expected(i, c.Token)
	if c.Big >= 2 {
		for k := len(b); k < 16*(c.Big-1)+7; k++ {
			b = append(b, byte('a'+(i+k)%26))
		}
	}
	return b
}

func block2(num int, more bool) refcodec.Opt {
	v := num << 4
	if more {
		v |= 8
	}
	var val []byte
	for ; v > 0; v >>= 8 {
		val = append([]byte{byte(v)}, val...)
	}
	return refcodec.Opt{Num: 23, Val: val}
}

func Exec(t *testing.T, sc Scenario, r *evid.Run) *evid.Failure {
	n := len(sc.Calls)
	res := make([]result, n)
	var mu sync.Mutex
	var bad bool
	answered := make([]bool, n)
	var reuse, probe result
	sepSent := map[int]refcodec.Msg{}
	issued := make([]bool, n)
	run := bubble.Run(t, 60*time.Second, nil, func() {
		start := time.Now()
		var tk endpoints.Ticker
		var w wire.Wire
		var cc doer
		stopRole := func() {}
		var giveUpMu sync.Mutex
		giveUp := map[string]context.CancelFunc{} // token -> cancel of the call that gives up at its answer
		giveUpHook := options.WithProcessReceivedMessageFunc(config.ProcessReceivedMessageFunc[*udpClient.Conn](
			func(req *pool.Message, c *udpClient.Conn, h config.HandlerFunc[*udpClient.Conn]) {
				if req.Code() >= codes.Created {
					giveUpMu.Lock()
					cancel := giveUp[string(req.Token())]
					delete(giveUp, string(req.Token()))
					giveUpMu.Unlock()
					if cancel != nil {
						cancel()
						runtime.Gosched()
					}
				}
				c.ProcessReceivedMessageWithHandler(req, h)
			}))
		limit := int64(64)
		nstart := uint32(64)
		if sc.Serialised {
			limit, nstart = 1, 1
		}
		if sc.Transport == "udp" {
			link := memnet.NewPacketLink(memnet.LinkCfg{LatencyMs: 1})
			c, stop, errRole := roles.Packet(sc.Role, link, bubble.Wait, []any{
				options.WithMessagePool(pool.New(8, 2048)), options.WithPeriodicRunner(tk.Runner()),
				options.WithBlockwise(sc.Blockwise, 6, 3*time.Second),
				options.WithLimitClientParallelRequest(limit), options.WithLimitClientEndpointParallelRequest(limit),
				options.WithTransmission(nstart, 2*time.Second, 2), giveUpHook,
			}...)
			if errRole != nil {
				panic(errRole)
			}
			cc, stopRole = c, stop
			w = wire.UDP(link)
		} else {
			link := memnet.NewStreamLink(memnet.StreamCfg{})
			c, stop, err := roles.Stream(sc.Role, link, bubble.Wait, []any{
				options.WithMessagePool(pool.New(8, 2048)), options.WithPeriodicRunner(tk.Runner()),
				options.WithBlockwise(sc.Blockwise, 6, 3*time.Second), options.WithCloseSocket(),
				options.WithLimitClientParallelRequest(limit), options.WithLimitClientEndpointParallelRequest(limit),
			}...)
			if err != nil {
				panic(err)
			}
			cc, stopRole = c, stop
			w = wire.TCP(link)
			if sc.Blockwise {
				// the stream client uses block-wise transfer only with a peer whose CSM announces it
				w.ToLib(refcodec.Msg{Code: 225, Opts: []refcodec.Opt{{Num: 4}}})
			}
		}
		bubble.Wait()
		_ = w.FromLib()
		var wg sync.WaitGroup
		issue := func(i int) {
			issued[i] = true
			wg.Add(1)
			go func() {
				defer wg.Done()
				ctx, cancel := context.WithTimeout(context.Background(), 10*time.Second)
				defer cancel()
				if sc.Calls[i].GiveUp {
					giveUpMu.Lock()
					giveUp[string(sc.Calls[i].Token)] = cancel
					giveUpMu.Unlock()
				}
				issued := time.Now()
				req, err := cc.NewGetRequest(ctx, fmt.Sprintf("/c/%d", i))
				if err != nil {
					mu.Lock()
					res[i] = result{returned: true, err: err, at: time.Since(start)}
					mu.Unlock()
					return
				}
				req.SetToken(sc.Calls[i].Token)
				if sc.Calls[i].Non {
					req.SetType(message.NonConfirmable)
				}
				resp, err := cc.Do(req)
				cc.ReleaseMessage(req)
				o := result{returned: true, err: err, at: time.Since(start), took: time.Since(issued)}
				if err == nil {
					o.token = append([]byte(nil), resp.Token()...)
					o.payload, _ = resp.ReadBody()
					o.code = int(resp.Code())
					if c := sc.Calls[i]; c.HoldMs > 0 {
						time.Sleep(time.Duration(c.HoldMs) * time.Millisecond)
						var again []byte
						if b := resp.Body(); b != nil {
							if _, errS := b.Seek(0, io.SeekStart); errS == nil {
								again, _ = resp.ReadBody()
							}
						}
						if !bytes.Equal(resp.Token(), o.token) || int(resp.Code()) != o.code || !bytes.Equal(again, o.payload) {
							o.changed = fmt.Sprintf("token %x code %d body %q became token %x code %d body %q", o.token, o.code, o.payload, resp.Token(), int(resp.Code()), again)
						}
					}
					if sc.Calls[i].Release {
						cc.ReleaseMessage(resp)
					}
				}
				mu.Lock()
				res[i] = o
				mu.Unlock()
			}()
		}
		// issue the calls; a duplicate-token call is issued only once its original is outstanding
		for i, c := range sc.Calls {
			if c.Late {
				continue // issued when the original's first block has arrived
			}
			issue(i)
			if c.DupOf >= 0 || (i+1 < n && sc.Calls[i+1].DupOf == i) {
				bubble.Wait()
			}
		}
		bubble.Wait()
		// ---- the peer: collect requests, answer in the generated order
		reqOf := map[int]refcodec.Msg{} // by call index
		nextMID := 52000
		collect := func() (served bool) {
			for _, m := range w.FromLib() {
				if m.Code != 1 {
					continue
				}
				if v, ok := peer.FindOpt(m, 23); ok {
					bv := 0
					for _, x := range v {
						bv = bv<<8 | int(x)
					}
					if num := bv >> 4; num > 0 {
						// a follow-up request for block num of a Big answer: served at once
						for i, c := range sc.Calls {
							if c.DupOf < 0 && c.Big >= 2 && bytes.Equal(c.Token, m.Token) {
								body := expectedBody(i, c)
								lo, hi := 16*num, min(16*num+16, len(body))
								if lo >= len(body) {
									break
								}
								resp := refcodec.Msg{Code: 69, Token: m.Token, Opts: []refcodec.Opt{block2(num, hi < len(body))}, Payload: body[lo:hi]}
								if w.Datagram() {
									if m.Type == peer.CON {
										resp.Type, resp.MID = peer.ACK, m.MID
									} else {
										nextMID++
										resp.Type, resp.MID = peer.NON, nextMID&0xffff
									}
								}
								w.ToLib(resp)
								served = true
							}
						}
						continue
					}
				}
				for i, c := range sc.Calls {
					if c.DupOf < 0 && bytes.Equal(c.Token, m.Token) {
						if _, ok := reqOf[i]; !ok {
							if v, ok := peer.FindOpt(m, 11); ok && string(v) == "c" {
								reqOf[i] = m
							}
						}
					}
				}
			}
			return served
		}
		sendStray := func(s Stray) {
			nextMID++
			m := refcodec.Msg{Code: 69, Token: s.Token, Payload: []byte("STRAY")}
			if w.Datagram() {
				m.Type, m.MID = peer.NON, nextMID&0xffff
				if s.Ack {
					m.Type = peer.ACK
				}
			}
			w.ToLib(m)
		}
		answer := func(i int) {
			c := sc.Calls[i]
			req := reqOf[i]
			body := expectedBody(i, c)
			resp := refcodec.Msg{Code: 69, Token: req.Token, Payload: body}
			if c.Big >= 2 {
				resp.Opts, resp.Payload = []refcodec.Opt{block2(0, true)}, body[:16]
			}
			delay := time.Duration(c.DelayMs) * time.Millisecond
			if !w.Datagram() {
				if delay > 0 {
					time.Sleep(delay)
				}
				w.ToLib(resp)
				if c.Style == "dup" || c.Style == "dup-fresh" {
					w.ToLib(resp)
				}
				return
			}
			ack := refcodec.Msg{Type: peer.ACK, MID: req.MID}
			sepType := peer.NON
			if c.SepCon {
				sepType = peer.CON
			}
			nextMID++
			sep := resp
			sep.Type, sep.MID = sepType, nextMID&0xffff
			if req.Type == peer.NON {
				// a NON request is answered by a NON (or CON) response with the token
				if delay > 0 {
					time.Sleep(delay)
				}
				w.ToLib(sep)
				if c.Style == "dup" {
					w.ToLib(sep)
				}
				if c.Style == "dup-fresh" {
					nextMID++
					sep.MID = nextMID & 0xffff
					w.ToLib(sep)
				}
				return
			}
			switch c.Style {
			case "piggy", "dup", "dup-fresh":
				if delay > 0 {
					time.Sleep(delay)
				}
				p := resp
				p.Type, p.MID = peer.ACK, req.MID
				w.ToLib(p)
				if c.Style == "dup" {
					w.ToLib(p)
				}
				if c.Style == "dup-fresh" {
					w.ToLib(sep) // the same response again as a separate message
				}
			case "sep":
				w.ToLib(ack)
				bubble.Wait()
				if delay > 0 {
					time.Sleep(delay)
				}
				w.ToLib(sep)
				sepSent[i] = sep
			case "sep-first":
				w.ToLib(sep)
				bubble.Wait()
				w.ToLib(ack)
			}
		}
		strayIdx := 0
		done := 0
		for round := 0; round < 4*n+8 && done < len(sc.Order); round++ {
			bubble.Wait()
			collect()
			for strayIdx < len(sc.Strays) && sc.Strays[strayIdx].AfterAnswer <= done {
				sendStray(sc.Strays[strayIdx])
				strayIdx++
				bubble.Wait()
			}
			progressed := false
			for _, i := range sc.Order {
				if answered[i] {
					continue
				}
				if _, ok := reqOf[i]; !ok {
					if sc.Serialised {
						continue // not on the wire yet: another call holds the only slot
					}
					continue
				}
				answered[i] = true
				done++
				answer(i)
				progressed = true
				for j, d := range sc.Calls {
					if d.Late && d.DupOf == i {
						bubble.Wait() // the first block has been taken in, the request for the next is out
						issue(j)
						bubble.Wait()
					}
				}
				break
			}
			bubble.Wait()
			_ = progressed
			if !progressed {
				time.Sleep(50 * time.Millisecond)
			}
		}
		for ; strayIdx < len(sc.Strays); strayIdx++ {
			sendStray(sc.Strays[strayIdx])
		}
		bubble.Wait()
		// keep serving the follow-up block requests of Big answers until the client stops asking
		for k, idle := 0, 0; k < 400 && idle < 4; k++ {
			time.Sleep(3 * time.Millisecond)
			bubble.Wait()
			if collect() {
				idle = 0
			} else {
				idle++
			}
		}
		fin := make(chan struct{})
		go func() { wg.Wait(); close(fin) }()
		select {
		case <-fin:
		case <-time.After(12 * time.Second):
		}
		anyGiveUp := false
		for _, c := range sc.Calls {
			anyGiveUp = anyGiveUp || c.GiveUp
		}
		if anyGiveUp {
			// one more, ordinary request after the calls that gave up
			_ = w.FromLib()
			tok := []byte{0x9B, 0x0E}
			done := make(chan struct{})
			go func() {
				defer close(done)
				ctx, cancel := context.WithTimeout(context.Background(), 10*time.Second)
				defer cancel()
				req, err := cc.NewGetRequest(ctx, fmt.Sprintf("/c/%d", n+1))
				if err != nil {
					probe = result{returned: true, err: err}
					return
				}
				req.SetToken(tok)
				resp, err := cc.Do(req)
				o := result{returned: true, err: err}
				if err == nil {
					o.token = append([]byte(nil), resp.Token()...)
					o.payload, _ = resp.ReadBody()
				}
				probe = o
			}()
			bubble.Wait()
			for _, m := range w.FromLib() {
				if m.Code == 1 && bytes.Equal(m.Token, tok) {
					nextMID++
					ans := refcodec.Msg{Type: peer.NON, MID: nextMID & 0xffff, Code: 69, Token: tok, Payload: expected(n+1, tok)}
					if m.Type == peer.CON {
						ans.Type, ans.MID = peer.ACK, m.MID
					}
					w.ToLib(ans)
					probe.at = 1
				}
			}
			bubble.Wait()
			select {
			case <-done:
			case <-time.After(12 * time.Second):
			}
		}
		if k := sc.Reuse - 1; k >= 0 && k < n {
			if old, ok := sepSent[k]; ok && old.Type == peer.CON && res[k].returned && res[k].err == nil {
				_ = w.FromLib()
				tok := sc.Calls[k].Token
				done := make(chan struct{})
				go func() {
					defer close(done)
					ctx, cancel := context.WithTimeout(context.Background(), 10*time.Second)
					defer cancel()
					req, err := cc.NewGetRequest(ctx, fmt.Sprintf("/c/%d", n))
					if err != nil {
						reuse = result{returned: true, err: err}
						return
					}
					req.SetToken(tok)
					resp, err := cc.Do(req)
					o := result{returned: true, err: err}
					if err == nil {
						o.token = append([]byte(nil), resp.Token()...)
						o.payload, _ = resp.ReadBody()
					}
					reuse = o
				}()
				bubble.Wait()
				var rq *refcodec.Msg
				for _, m := range w.FromLib() {
					if m.Code == 1 && bytes.Equal(m.Token, tok) {
						mm := m
						rq = &mm
					}
				}
				if rq != nil {
					w.ToLib(old) // the retransmission
					bubble.Wait()
					_ = w.FromLib() // its acknowledgement
					nextMID++
					ans := refcodec.Msg{Type: peer.NON, MID: nextMID & 0xffff, Code: 69, Token: tok, Payload: expected(n, tok)}
					if rq.Type == peer.CON {
						ans.Type, ans.MID = peer.ACK, rq.MID
					}
					w.ToLib(ans)
					bubble.Wait()
					select {
					case <-done:
					case <-time.After(12 * time.Second):
					}
					reuse.at = 1 // marks: the re-use phase ran
				}
			}
		}
		bad = w.Bad()
		_ = cc.Close()
		stopRole()
		bubble.Wait()
	})
	if run.Panic != "" {
		return evid.Failf("match/panic", sc, "panic in scenario: %s", run.Panic)
	}
	if run.Deadlock {
		return evid.Failf("match/deadlock", sc, "all goroutines blocked while the scenario was still running")
	}
	r.Class("teardown_leaks", b2i(run.Leaked))
	if bad {
		return evid.Failf("match/garbage-on-wire", sc, "the client wrote undecodable bytes")
	}
	// ---- oracle
	for i, c := range sc.Calls {
		o := res[i]
		if !issued[i] {
			continue // a late duplicate whose original was never answered
		}
		if !o.returned {
			return evid.Failf("match/call-hangs", sc, "call %d has not returned 2 s after its 10 s deadline", i)
		}
		if c.DupOf >= 0 {
			continue
		}
		if o.changed != "" {
			return evid.Failf("match/response-changed-while-held", sc, "call %d kept its response for %d ms and found it changed: %s", i, c.HoldMs, o.changed)
		}
		if o.err == nil {
			if !bytes.Equal(o.token, c.Token) {
				return evid.Failf("match/foreign-token", sc, "call %d (token %x) returned a response carrying token %x", i, c.Token, o.token)
			}
			if !bytes.Equal(o.payload, expectedBody(i, c)) {
				return evid.Failf("match/foreign-response", sc, "call %d (token %x) returned %q, the peer produced %q for it", i, c.Token, o.payload, expectedBody(i, c))
			}
		} else if answered[i] && !c.GiveUp {
			// the peer answered this request and nothing was lost: the call must have succeeded
			return evid.Failf("match/answered-call-failed", sc, "call %d (token %x) was answered by the peer (%s) but returned %v", i, c.Token, c.Style, o.err)
		}
	}
	if probe.at == 1 {
		tok := []byte{0x9B, 0x0E}
		switch {
		case !probe.returned:
			return evid.Failf("match/call-hangs", sc, "the request issued after the calls that gave up has not returned")
		case probe.err != nil:
			return evid.Failf("match/answered-call-failed", sc, "the request issued after the calls that gave up was answered by the peer but returned %v", probe.err)
		case !bytes.Equal(probe.token, tok) || !bytes.Equal(probe.payload, expected(n+1, tok)):
			return evid.Failf("match/foreign-response", sc, "the request issued after a call had given up at the moment its response arrived returned token %x body %q instead of its own (%x, %q)", probe.token, probe.payload, tok, expected(n+1, tok))
		}
	}
	if reuse.at == 1 {
		k := sc.Reuse - 1
		tok := sc.Calls[k].Token
		switch {
		case !reuse.returned:
			return evid.Failf("match/call-hangs", sc, "the request that re-used token %x after call %d had returned has not returned 2 s after its deadline", tok, k)
		case reuse.err != nil:
			return evid.Failf("match/answered-call-failed", sc, "the request that re-used token %x after call %d had returned was answered by the peer but returned %v", tok, k, reuse.err)
		case !bytes.Equal(reuse.payload, expected(n, tok)):
			return evid.Failf("match/retransmitted-response-delivered-again", sc, "call %d (token %x) had returned with its separate confirmable response; the peer retransmitted that response (same message ID) while a later request with the same token was outstanding, and the later request returned %q instead of %q", k, tok, reuse.payload, expected(n, tok))
		}
	}
	// duplicate tokens: the duplicate is issued when the original is already on the wire and not yet
	// answered (the harness waits for quiescence in between), so the roles are fixed: the second
	// request is refused, promptly, and the first still completes with its own response
	for i, c := range sc.Calls {
		if c.DupOf < 0 || sc.Serialised || !issued[i] {
			continue
		}
		orig, dup := res[c.DupOf], res[i]
		if dup.err == nil {
			return evid.Failf("match/duplicate-token-accepted", sc, "call %d re-used token %x while call %d was outstanding and was not refused (it returned %q)", i, c.Token, c.DupOf, dup.payload)
		}
		if dup.took > 5*time.Second {
			return evid.Failf("match/duplicate-token-not-refused-promptly", sc, "call %d re-used token %x while call %d was outstanding; it failed only at %v (%v)", i, c.Token, c.DupOf, dup.at, dup.err)
		}
		if answered[c.DupOf] && orig.err != nil && !sc.Calls[c.DupOf].GiveUp {
			return evid.Failf("match/duplicate-token-displaced", sc, "call %d re-used the token %x of the outstanding call %d; the peer answered, but call %d failed: %v", i, c.Token, c.DupOf, c.DupOf, orig.err)
		}
	}
	return nil
}

func hasDup(sc Scenario, i int) bool {
	for _, c := range sc.Calls {
		if c.DupOf == i {
			return true
		}
	}
	return false
}

func b2i(b bool) int64 {
	if b {
		return 1
	}
	return 0
}

func gen(t *rapid.T) Scenario {
	sc := Scenario{Transport: rapid.SampledFrom([]string{"udp", "udp", "tcp"}).Draw(t, "transport"), Blockwise: rapid.Bool().Draw(t, "bw"), Serialised: rapid.IntRange(0, 4).Draw(t, "serial") == 0}
	if rapid.IntRange(0, 2).Draw(t, "role") == 0 {
		// (the servers do not carry the parallel-request limits to the connections they create: those
		// always run with the defaults, i.e. serialised)
		sc.Role, sc.Serialised = "server", true
	}
	n := rapid.IntRange(1, 8).Draw(t, "ncalls")
	used := map[string]bool{}
	for i := 0; i < n; i++ {
		var tok []byte
		for tries := 0; ; tries++ {
			l := rapid.IntRange(1, 8).Draw(t, "toklen")
			switch rapid.IntRange(0, 4).Draw(t, "tokfam") {
			case 3: // leading zero padding: equal as big-endian numbers, different as tokens
				tok = append(bytes.Repeat([]byte{0x00}, l-1), 0x2A)
			case 4: // all zero, different lengths
				tok = bytes.Repeat([]byte{0x00}, l)
			case 0: // same bytes, different length
				tok = bytes.Repeat([]byte{0xC3}, l)
			case 1: // shared prefix, last byte differs
				tok = append(bytes.Repeat([]byte{0xC3}, l-1), byte(0x10+i))
			default:
				tok = append([]byte{byte(0x80 + i)}, bytes.Repeat([]byte{0x00}, l-1)...)
			}
			if !used[string(tok)] || tries > 20 {
				break
			}
		}
		if used[string(tok)] {
			tok = []byte{0xEE, byte(i), 0x01}
		}
		used[string(tok)] = true
		c := Call{Token: tok, DupOf: -1, Non: sc.Transport == "udp" && rapid.IntRange(0, 4).Draw(t, "non") == 0,
			Style:   rapid.SampledFrom([]string{"piggy", "piggy", "sep", "sep-first", "dup", "dup-fresh"}).Draw(t, "style"),
			DelayMs: rapid.SampledFrom([]int{0, 0, 1, 20, 500}).Draw(t, "delay"), SepCon: rapid.Bool().Draw(t, "sepcon"),
			HoldMs: rapid.SampledFrom([]int{0, 0, 2, 30, 600}).Draw(t, "hold"), Release: rapid.Bool().Draw(t, "release"),
			GiveUp: sc.Transport == "udp" && rapid.IntRange(0, 7).Draw(t, "giveup") == 0}
		if sc.Blockwise && rapid.IntRange(0, 3).Draw(t, "big") == 0 {
			// duplicated blocks of a block-wise body are C04's subject
			c.Big = rapid.IntRange(2, 6).Draw(t, "nblocks")
			if c.Style == "dup" || c.Style == "dup-fresh" {
				c.Style = "sep"
			}
		}
		sc.Calls = append(sc.Calls, c)
		if c.GiveUp {
			continue // (a call that gives up frees its token: a colliding request would not collide)
		}
		if !sc.Serialised && len(sc.Calls) < 8 && rapid.IntRange(0, 5).Draw(t, "dup") == 0 {
			sc.Calls = append(sc.Calls, Call{Token: tok, DupOf: len(sc.Calls) - 1, Style: "piggy", Non: c.Non})
		} else if !sc.Serialised && c.Big >= 2 && len(sc.Calls) < 8 && rapid.IntRange(0, 2).Draw(t, "latedup") == 0 {
			sc.Calls = append(sc.Calls, Call{Token: tok, DupOf: len(sc.Calls) - 1, Style: "piggy", Non: c.Non, Late: true})
		}
	}
	var idx []int
	for i, c := range sc.Calls {
		if c.DupOf < 0 {
			idx = append(idx, i)
		}
	}
	sc.Order = rapid.Permutation(idx).Draw(t, "order")
	if sc.Transport == "udp" {
		var cand []int
		for i, c := range sc.Calls {
			if c.DupOf < 0 && !c.Non && c.Style == "sep" && c.SepCon && c.Big == 0 && !hasDup(sc, i) {
				cand = append(cand, i)
			}
		}
		if len(cand) > 0 && rapid.Bool().Draw(t, "reuse") {
			sc.Reuse = rapid.SampledFrom(cand).Draw(t, "reusewhich") + 1
		}
	}
	ns := rapid.IntRange(0, 3).Draw(t, "nstrays")
	for k := 0; k < ns; k++ {
		base := sc.Calls[rapid.IntRange(0, len(sc.Calls)-1).Draw(t, "sbase")].Token
		var tok []byte
		switch rapid.IntRange(0, 2).Draw(t, "skind") {
		case 0:
			tok = []byte{0x7f, 0x7e, byte(k)}
		case 1: // proper prefix of an outstanding token
			if len(base) > 1 {
				tok = base[:len(base)-1]
			} else {
				tok = []byte{0x7f}
			}
		case 2: // extension
			if len(base) < 8 {
				tok = append(append([]byte{}, base...), 0x00)
			} else {
				tok = []byte{0x7d}
			}
		}
		if used[string(tok)] {
			continue
		}
		sc.Strays = append(sc.Strays, Stray{AfterAnswer: rapid.IntRange(0, len(sc.Order)).Draw(t, "safter"), Token: tok, Ack: rapid.Bool().Draw(t, "sack")})
	}
	// strays must be ordered by position
	for a := 0; a < len(sc.Strays); a++ {
		for b := a + 1; b < len(sc.Strays); b++ {
			if sc.Strays[b].AfterAnswer < sc.Strays[a].AfterAnswer {
				sc.Strays[a], sc.Strays[b] = sc.Strays[b], sc.Strays[a]
			}
		}
	}
	return sc
}

func nonTrivial(sc Scenario) bool {
	if len(sc.Order) < 2 || sc.Serialised {
		return false
	}
	for k, i := range sc.Order {
		if k > 0 && i < sc.Order[k-1] {
			return true
		}
	}
	for _, c := range sc.Calls {
		if c.Style != "piggy" || c.DupOf >= 0 {
			return true
		}
	}
	return false
}

func TestCheck(t *testing.T) {
	r := evid.New(t, "C03")
	eng := evid.RapidEngine("match", evid.RapidOpts{Quick: 8000, Thorough: 200000, Crashy: true}, gen, func(sc Scenario) *evid.Failure {
		f := Exec(t, sc, r)
		if f == nil {
			key := ""
			if nonTrivial(sc) {
				b, _ := json.Marshal(sc)
				key = string(b)
			}
			cls := []string{"match/" + sc.Transport}
			if sc.Role == "server" {
				cls = append(cls, "match/connection-created-by-a-server")
			}
			big, bigDup := false, false
			if sc.Reuse > 0 {
				cls = append(cls, "match/token-taken-again-and-earlier-response-retransmitted")
			}
			for i, c := range sc.Calls {
				if c.Late {
					cls = append(cls, "match/colliding-request-in-the-middle-of-a-block-wise-answer")
				}
				if c.Big >= 2 {
					big = true
					bigDup = bigDup || hasDup(sc, i)
				}
			}
			if big {
				cls = append(cls, "match/block-wise-answer")
			}
			if bigDup {
				cls = append(cls, "match/block-wise-answer-with-colliding-request")
			}
			r.Case("match", key, func() any { return sc }, cls...)
		}
		return f
	})
	r.Main(evid.Meta{
		Rule:        discsim.RuleDup + ". defaults (real sockets): the request tokens a server sees from a client built with default options by each constructor (udp, dtls, tcp, tls) are 8 bytes and pairwise different, and so are 600-100000 consecutive draws from the default token source itself (1-4 goroutines); a datagram client with a maximum message size below the MTU returns a longer response complete or not at all. match: a client connection (datagram and stream, block-wise on/off) in a synctest bubble; 1-8 callers issue GETs concurrently with caller-chosen tokens of 1-8 bytes from families built to collide as far as tokens can (same bytes at different lengths, shared prefixes, leading and trailing zero padding, all-zero tokens), NSTART and the parallel-request limits either high (true concurrency) or at the library defaults (serialised); the scripted peer answers the collected requests in a generated permutation, each in a generated style (piggy-backed, empty ACK then separate CON/NON response, response before its ACK, delayed, duplicated with the same or a fresh message ID), and injects stray responses whose tokens are unknown, proper prefixes or extensions of outstanding ones; optionally a second request re-uses a token that is still outstanding, either at once or in the middle of the first one's block-wise download; callers keep their response for a generated time, look at it again and give it back to the pool or not; optionally, after every call has returned, one more request takes the token of a call that was answered by a separate confirmable response while the peer retransmits that response; with block-wise on, a quarter of the answers are bodies of 2-6 blocks the client has to fetch block by block with the same token (on streams the peer's CSM announces block-wise transfer). Oracle: every successful call returns its own token and the payload the peer produced for that request (payload = f(request index, token)); a call the peer answered succeeds; of two simultaneous calls with one token exactly one gets the response and the other is refused, and the first still completes; a response does not change while its caller holds it; a retransmitted response is not delivered a second time; every call returns by its deadline. real: 2-6 concurrent callers with own tokens over UDP, DTLS-PSK, TCP and TLS loopback sockets against the library's own server, whose handler holds every request and answers in a generated order, some with bodies that need block-wise transfer. Non-trivial = >= 2 requests outstanding at once and (answer order != request order, or a non-piggy-backed/duplicated style, or a duplicate token); distinct by scenario",
		Assumptions: []string{"a token is taken again after its exchange has ended only in one constellation the library can tell apart: the earlier response was confirmable and the peer retransmits exactly that message (same message ID), which de-duplication by message ID answers without delivering it; late copies with other message IDs and responses for timed-out requests are the caller's risk (RFC 7252 5.3.1) and not generated", "CRC-64 collisions between different tokens (the tables are keyed by Token.Hash()) are not constructed", "the real engine runs the same oracle over UDP, DTLS-PSK, TCP and TLS loopback sockets against the library's own servers (real time; a failure counts only if it reproduces three times in a row)"},
		Floor:       300,
	}, eng, realEngine(), discsim.Engine(r, "dup", 6, 150), discsim.Engine(r, "dupblocks", 4, 100), defaultsEngine(r))
}
