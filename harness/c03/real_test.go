//go:build verif

package c03

import (
	"bytes"
	"context"
	"encoding/json"
	"fmt"
	"sync"
	"time"

	"github.com/plgd-dev/go-coap/v3/message"
	"github.com/plgd-dev/go-coap/v3/message/codes"
	"github.com/plgd-dev/go-coap/v3/mux"
	"pgregory.net/rapid"

	"verif/evid"
	"verif/realnet"
)

// RealScenario: N concurrent callers with own tokens against the library's own server on a real
// loopback socket; the handler holds every request behind a gate and the gates are opened in a
// generated order, so responses come back in an order unrelated to the requests.
type RealScenario struct {
	Kind    string   `json:"kind"` // udp | dtls | tcp | tls
	Tokens  [][]byte `json:"tokens"`
	Release []int    `json:"release"` // order in which the held requests are answered
	Large   []bool   `json:"large"`   // answer with a body that needs block-wise transfer
}

func execRealOnce(sc RealScenario) *evid.Failure {
	n := len(sc.Tokens)
	gates := make([]chan struct{}, n)
	for i := range gates {
		gates[i] = make(chan struct{})
	}
	arrived := make(chan int, 4*n)
	bodyOf := func(i int) []byte {
		b := []byte(fmt.Sprintf("R%d:%x:", i, sc.Tokens[i]))
		if sc.Large[i] {
			b = append(b, bytes.Repeat([]byte{byte('a' + i)}, 2500)...)
		}
		return b
	}
	router := mux.NewRouter()
	var once sync.Map
	_ = router.Handle("/c/{i}", mux.HandlerFunc(func(w mux.ResponseWriter, r *mux.Message) {
		var i int
		fmt.Sscanf(r.RouteParams.Vars["i"], "%d", &i)
		if i < 0 || i >= n {
			return
		}
		if _, seen := once.LoadOrStore(i, true); seen {
			return // a retransmission of a request that is already held
		}
		// answer later, from another goroutine, as a separate response: handlers of one connection run
		// one after the other, so holding the handler itself would serialise the requests
		conn, token := w.Conn(), r.Token()
		arrived <- i
		go func() {
			<-gates[i]
			m := conn.AcquireMessage(conn.Context())
			defer conn.ReleaseMessage(m)
			m.SetCode(codes.Content)
			m.SetToken(token)
			m.SetContentFormat(message.TextPlain)
			m.SetBody(bytes.NewReader(bodyOf(i)))
			_ = conn.WriteMessage(m)
		}()
	}))
	srv, err := realnet.Start(sc.Kind, router)
	if err != nil {
		return nil // no such socket here: nothing to decide
	}
	defer srv.Stop(5 * time.Second)
	cc, err := srv.Dial(true)
	if err != nil {
		return evid.Failf("real/dial", sc, "%s dial: %v", sc.Kind, err)
	}
	defer cc.Close()
	type res struct {
		err     error
		token   []byte
		payload []byte
	}
	results := make([]res, n)
	var wg sync.WaitGroup
	for i := 0; i < n; i++ {
		wg.Add(1)
		go func(i int) {
			defer wg.Done()
			ctx, cancel := context.WithTimeout(context.Background(), 20*time.Second)
			defer cancel()
			req, err := cc.NewGetRequest(ctx, fmt.Sprintf("/c/%d", i))
			if err != nil {
				results[i].err = err
				return
			}
			req.SetToken(sc.Tokens[i])
			resp, err := cc.Do(req)
			cc.ReleaseMessage(req)
			if err != nil {
				results[i].err = err
				return
			}
			results[i].token = resp.Token()
			results[i].payload, _ = resp.ReadBody()
		}(i)
	}
	// wait until every request is held by the handler (all outstanding at once), then open the gates
	deadline := time.After(10 * time.Second)
	for got := 0; got < n; {
		select {
		case <-arrived:
			got++
		case <-deadline:
			got = n
		}
	}
	for _, i := range sc.Release {
		close(gates[i])
		time.Sleep(2 * time.Millisecond)
	}
	wg.Wait()
	for i := 0; i < n; i++ {
		r := results[i]
		if r.err != nil {
			return evid.Failf("real/call-failed", sc, "%s: call %d (token %x) failed although the server answered every request: %v", sc.Kind, i, sc.Tokens[i], r.err)
		}
		if !bytes.Equal(r.token, sc.Tokens[i]) {
			return evid.Failf("real/foreign-token", sc, "%s: call %d (token %x) returned a response carrying token %x", sc.Kind, i, sc.Tokens[i], r.token)
		}
		if !bytes.Equal(r.payload, bodyOf(i)) {
			return evid.Failf("real/foreign-response", sc, "%s: call %d (token %x) returned %.40q (%d bytes), the server produced %.40q (%d bytes) for it", sc.Kind, i, sc.Tokens[i], r.payload, len(r.payload), bodyOf(i), len(bodyOf(i)))
		}
	}
	return nil
}

func execReal(sc RealScenario) *evid.Failure {
	var f *evid.Failure
	for try := 0; try < 3; try++ { // a failure counts only if it reproduces three times in a row (loaded machine)
		if f = execRealOnce(sc); f == nil {
			return nil
		}
	}
	return f
}

func genReal(t *rapid.T) RealScenario {
	sc := RealScenario{Kind: rapid.SampledFrom(realnet.Kinds).Draw(t, "kind")}
	n := rapid.IntRange(2, 6).Draw(t, "n")
	used := map[string]bool{}
	for i := 0; i < n; i++ {
		l := rapid.IntRange(1, 8).Draw(t, "toklen")
		tok := append(bytes.Repeat([]byte{0xC3}, l-1), byte(0x10+i))
		if rapid.Bool().Draw(t, "same") {
			tok = bytes.Repeat([]byte{0xC3}, l)
		}
		if used[string(tok)] {
			tok = []byte{0xEE, byte(i)}
		}
		used[string(tok)] = true
		sc.Tokens = append(sc.Tokens, tok)
		sc.Large = append(sc.Large, rapid.IntRange(0, 3).Draw(t, "large") == 0)
	}
	idx := make([]int, n)
	for i := range idx {
		idx[i] = i
	}
	sc.Release = rapid.Permutation(idx).Draw(t, "release")
	return sc
}

func realEngine() evid.Engine {
	var r *evid.Run
	e := evid.RapidEngine("real", evid.RapidOpts{Quick: 200, Thorough: 4000}, genReal, func(sc RealScenario) *evid.Failure {
		f := execReal(sc)
		if f == nil && r != nil {
			b, _ := json.Marshal(sc)
			r.Case("real", string(b), func() any { return sc }, "real/"+sc.Kind)
		}
		return f
	})
	search := e.Search
	e.Search = func(run *evid.Run) { r = run; search(run) }
	return e
}
