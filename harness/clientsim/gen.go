//go:build verif

package clientsim

import "pgregory.net/rapid"

// Gen draws a history of exchanges with endings chosen by the peer's script.
func Gen(t *rapid.T) Scenario {
	sc := Scenario{
		Blockwise:     rapid.IntRange(0, 3).Draw(t, "bw") > 0,
		PoolSize:      rapid.SampledFrom([]int{2, 3, 4, 8}).Draw(t, "pool"),
		Queue:         rapid.SampledFrom([]int{0, 1, 16}).Draw(t, "queue"),
		Limit:         rapid.SampledFrom([]int{1, 2, 16}).Draw(t, "limit"),
		NStart:        rapid.SampledFrom([]int{1, 2, 8}).Draw(t, "nstart"),
		MaxRetransmit: rapid.IntRange(0, 3).Draw(t, "maxre"),
		TickMs:        rapid.SampledFrom([]int{100, 500, 4000}).Draw(t, "tick"),
	}
	n := rapid.IntRange(1, 12).Draw(t, "nops")
	var observes, outstanding []int
	for i := 0; i < n; i++ {
		kinds := []string{"get", "get", "post", "observe", "ping", "write", "sleep"}
		if len(observes) > 0 {
			kinds = append(kinds, "cancelobs")
		}
		if len(outstanding) > 0 {
			kinds = append(kinds, "duptoken", "duptoken")
		}
		op := Op{Kind: rapid.SampledFrom(kinds).Draw(t, "kind"), DeadlineMs: rapid.SampledFrom([]int{100, 700, 3000}).Draw(t, "deadline"),
			Peer: rapid.SampledFrom([]string{"answer", "answer", "silent", "ack", "rst", "dup", "stray", "badblock", "badblock2", "blocks"}).Draw(t, "peer"),
			Down: rapid.SampledFrom([]int{0, 5, 16, 17, 50}).Draw(t, "down")}
		switch op.Kind {
		case "post", "write":
			op.Up = rapid.SampledFrom([]int{0, 5, 16, 17, 50, 200}).Draw(t, "up")
		case "observe":
			observes = append(observes, i)
		case "cancelobs":
			k := rapid.IntRange(0, len(observes)-1).Draw(t, "ref")
			op.Ref = observes[k]
			observes = append(observes[:k], observes[k+1:]...)
		case "duptoken":
			op.Ref = outstanding[rapid.IntRange(0, len(outstanding)-1).Draw(t, "ref")]
		case "sleep":
			op.Ms = rapid.SampledFrom([]int{1, 100, 2000}).Draw(t, "ms")
		}
		if op.Kind == "get" || op.Kind == "post" {
			op.Async = rapid.IntRange(0, 2).Draw(t, "async") == 0
			if op.Async && (op.Peer == "silent" || op.Peer == "ack") {
				outstanding = append(outstanding, i)
			}
		}
		if rapid.IntRange(0, 6).Draw(t, "cancels") == 0 {
			op.CancelMs = rapid.SampledFrom([]int{1, 3, 50}).Draw(t, "cancel")
		}
		sc.Ops = append(sc.Ops, op)
	}
	return sc
}

// Abnormal reports whether at least one exchange ended with an error.
func Abnormal(tr Trace) bool {
	for _, o := range tr.Ops {
		if o.Err != "" || o.Code >= 128 {
			return true
		}
	}
	return false
}
