//go:build verif

// Package clientsim runs one library client connection against the scripted wire-level peer in a
// synctest bubble: a history of exchanges, each steered to an ending by the peer's reaction
// (answer, silence, reset, malformed block, duplicated / stray replies), with the pool life-cycle
// monitor attached and the table sizes read after a long idle phase. C12 and C13 evaluate the trace.
package clientsim

import (
	"bytes"
	"context"
	"fmt"
	"sync"
	"testing"
	"time"

	"github.com/plgd-dev/go-coap/v3/message"
	"github.com/plgd-dev/go-coap/v3/message/pool"
	"github.com/plgd-dev/go-coap/v3/net/client"
	"github.com/plgd-dev/go-coap/v3/options"
	"github.com/plgd-dev/go-coap/v3/udp"
	udpClient "github.com/plgd-dev/go-coap/v3/udp/client"

	"verif/bubble"
	"verif/endpoints"
	"verif/memnet"
	"verif/peer"
	"verif/pooltrack"
	"verif/refcodec"
	"verif/wire"
)

type Op struct {
	Kind string `json:"kind"` // get | post | observe | cancelobs | ping | write | duptoken | sleep
	Up   int    `json:"up,omitempty"`
	// Peer: how the scripted peer treats the request(s) of this operation
	//   answer | silent | ack | rst | dup | stray | badblock | blocks (answer block-wise: Down bytes in 16-byte blocks) | badblock2
	Peer       string `json:"peer"`
	Down       int    `json:"down,omitempty"`
	DeadlineMs int    `json:"deadlineMs"`
	CancelMs   int    `json:"cancelMs,omitempty"`
	Async      bool   `json:"async,omitempty"`
	Ref        int    `json:"ref,omitempty"`
	Ms         int    `json:"ms,omitempty"`
}

type Scenario struct {
	Blockwise     bool `json:"blockwise"`
	PoolSize      int  `json:"poolSize"`
	Queue         int  `json:"queue"`
	Limit         int  `json:"limit"`
	NStart        int  `json:"nstart"`
	MaxRetransmit int  `json:"maxRetransmit"`
	TickMs        int  `json:"tickMs"`
	Ops           []Op `json:"ops"`
}

type OpResult struct {
	Returned bool
	Err      string
	Code     int
}

type Trace struct {
	Ops           []OpResult
	Sizes         udpClient.VerifSizes
	SizesRead     bool
	LiveObs       int
	PoolViolation []string
	Recycles      int64
	Panic         string
	Deadlock      bool
	Leaked        bool
	HeldChanged   string
}

func body(seed, n int) []byte {
	b := make([]byte, n)
	x := uint32(seed)*2654435761 + 99
	for i := range b {
		x = x*1664525 + 1013904223
		b[i] = byte(x>>24) | 1
	}
	return b
}

func Run(t *testing.T, sc Scenario) (tr Trace) {
	tr.Ops = make([]OpResult, len(sc.Ops))
	p := pool.New(uint32(max(sc.PoolSize, 2)), 2048)
	tracker := pooltrack.Attach(p)
	var mu sync.Mutex
	res := bubble.Run(t, 120*time.Second, nil, func() {
		var tk endpoints.Ticker
		link := memnet.NewPacketLink(memnet.LinkCfg{LatencyMs: 1})
		lim := int64(max(sc.Limit, 1))
		cc := endpoints.UDP(link.A, []udp.Option{
			options.WithMessagePool(p), options.WithPeriodicRunner(tk.Runner()),
			options.WithBlockwise(sc.Blockwise, 0, time.Second), options.WithReceivedMessageQueueSize(sc.Queue),
			options.WithLimitClientParallelRequest(lim), options.WithLimitClientEndpointParallelRequest(lim),
			options.WithTransmission(uint32(max(sc.NStart, 1)), 300*time.Millisecond, uint32(sc.MaxRetransmit)),
		}...)
		w := wire.UDP(link)
		nextMID := 56000
		// ---- the peer: reacts to every request it sees according to the operation's script
		peerOf := func(m refcodec.Msg) (int, bool) {
			if len(m.Token) == 2 && m.Token[0] == 0xC5 && int(m.Token[1]) < len(sc.Ops) {
				return int(m.Token[1]), true
			}
			return 0, false
		}
		stop := make(chan struct{})
		peerDone := make(chan struct{})
		go func() {
			defer close(peerDone)
			for {
				select {
				case <-stop:
					return
				case <-time.After(2 * time.Millisecond):
				}
				for _, m := range w.FromLib() {
					if m.Code < 1 || m.Code > 4 {
						if m.Type == peer.CON { // e.g. a confirmable continuation: acknowledge it
							w.ToLib(refcodec.Msg{Type: peer.ACK, MID: m.MID})
						}
						continue
					}
					i, ok := peerOf(m)
					if !ok {
						continue
					}
					op := sc.Ops[i]
					ackOnly := func() {
						if m.Type == peer.CON {
							w.ToLib(refcodec.Msg{Type: peer.ACK, MID: m.MID})
						}
					}
					var opts []refcodec.Opt
					if ob, ok := peer.FindOpt(m, 6); ok && op.Kind != "cancelobs" && len(ob) == 0 {
						opts = append(opts, peer.Opt(6, []byte{1}))
					}
					switch op.Peer {
					case "silent":
					case "ack":
						ackOnly()
					case "rst":
						w.ToLib(refcodec.Msg{Type: peer.RST, MID: m.MID})
					case "dup":
						r := wire.Respond(w, m, 69, opts, body(i, op.Down), &nextMID)
						w.ToLib(r)
						w.ToLib(r)
					case "stray":
						nextMID++
						w.ToLib(refcodec.Msg{Type: peer.NON, MID: nextMID & 0xffff, Code: 69, Token: []byte{0x7b, byte(i)}, Payload: []byte("stray")})
						w.ToLib(wire.Respond(w, m, 69, opts, body(i, op.Down), &nextMID))
					case "badblock": // a Block2 option that cannot be decoded (4 bytes) on the response
						w.ToLib(wire.Respond(w, m, 69, append(opts, peer.Opt(23, []byte{1, 2, 3})), body(i, 16), &nextMID))
					case "badblock2": // first block announces more, then the peer goes silent
						w.ToLib(wire.Respond(w, m, 69, append(opts, peer.Opt(23, []byte{0x08})), body(i, 16), &nextMID))
					case "blocks":
						// serve the requested Block2 (16-byte blocks)
						num := 0
						if b2, ok := peer.FindOpt(m, 23); ok {
							num = int(peer.Uint(b2) >> 4)
						}
						full := body(i, op.Down)
						lo := min(num*16, len(full))
						hi := min(lo+16, len(full))
						v := uint32(num << 4)
						if hi < len(full) {
							v |= 8
						}
						w.ToLib(wire.Respond(w, m, 69, append(opts, peer.Opt(23, peer.UintBytes(v))), full[lo:hi], &nextMID))
					default: // answer
						if b1, ok := peer.FindOpt(m, 27); ok && peer.Uint(b1)&8 != 0 {
							w.ToLib(wire.Respond(w, m, 95, []refcodec.Opt{peer.Opt(27, b1)}, nil, &nextMID)) // 2.31 Continue
						} else {
							w.ToLib(wire.Respond(w, m, 69, opts, body(i, op.Down), &nextMID))
						}
					}
				}
			}
		}()
		// housekeeping
		tickStop := make(chan struct{})
		tickDone := make(chan struct{})
		go func() {
			defer close(tickDone)
			for {
				select {
				case <-tickStop:
					return
				case <-time.After(time.Duration(max(sc.TickMs, 50)) * time.Millisecond):
					tk.Tick()
				}
			}
		}()
		observations := map[int]client.Observation{}
		obsSupported := map[int]bool{}
		type held struct {
			msg  *pool.Message
			code int
			body []byte
		}
		var heldMsgs []held
		checkHeld := func() {
			mu.Lock()
			hs := heldMsgs
			heldMsgs = nil
			mu.Unlock()
			for _, h := range hs {
				b, _ := h.msg.ReadBody()
				if int(h.msg.Code()) != h.code || !bytes.Equal(b, h.body) {
					mu.Lock()
					tr.HeldChanged = fmt.Sprintf("a response (code %d, %d bytes) changed while the application held it (now code %d, %d bytes)", h.code, len(h.body), h.msg.Code(), len(b))
					mu.Unlock()
				}
				cc.ReleaseMessage(h.msg)
			}
		}
		var wg sync.WaitGroup
		runOp := func(i int, op Op) {
			ctx, cancel := context.WithTimeout(context.Background(), time.Duration(max(op.DeadlineMs, 50))*time.Millisecond)
			defer cancel()
			if op.CancelMs > 0 {
				tm := time.AfterFunc(time.Duration(op.CancelMs)*time.Millisecond, cancel)
				defer tm.Stop()
			}
			tok := message.Token{0xC5, byte(i)}
			r := OpResult{}
			done := func(resp *pool.Message, err error) {
				r.Returned = true
				if err != nil {
					r.Err = err.Error()
				}
				if resp != nil {
					r.Code = int(resp.Code())
					b, _ := resp.ReadBody()
					mu.Lock()
					heldMsgs = append(heldMsgs, held{resp, r.Code, append([]byte(nil), b...)})
					mu.Unlock()
				}
			}
			switch op.Kind {
			case "get", "duptoken":
				req, err := cc.NewGetRequest(ctx, fmt.Sprintf("/o/%d", i))
				if err != nil {
					done(nil, err)
					break
				}
				req.SetToken(tok)
				if op.Kind == "duptoken" && op.Ref < len(sc.Ops) {
					req.SetToken(message.Token{0xC5, byte(op.Ref)})
				}
				resp, err := cc.Do(req)
				cc.ReleaseMessage(req)
				done(resp, err)
			case "post":
				req, err := cc.NewPostRequest(ctx, fmt.Sprintf("/o/%d", i), message.AppOctets, bytes.NewReader(body(i+100, op.Up)))
				if err != nil {
					done(nil, err)
					break
				}
				req.SetToken(tok)
				resp, err := cc.Do(req)
				cc.ReleaseMessage(req)
				done(resp, err)
			case "observe":
				req, err := cc.NewObserveRequest(ctx, fmt.Sprintf("/o/%d", i))
				if err != nil {
					done(nil, err)
					break
				}
				req.SetToken(tok)
				first := true
				ob, err := cc.DoObserve(req, func(n *pool.Message) {
					mu.Lock()
					if first {
						first = false
						_, e := n.Observe()
						obsSupported[i] = e == nil
					}
					mu.Unlock()
				})
				cc.ReleaseMessage(req)
				if err == nil {
					mu.Lock()
					observations[i] = ob
					mu.Unlock()
				}
				done(nil, err)
			case "cancelobs":
				mu.Lock()
				ob := observations[op.Ref]
				delete(observations, op.Ref)
				mu.Unlock()
				if ob == nil {
					done(nil, nil)
					break
				}
				done(nil, ob.Cancel(ctx))
			case "ping":
				done(nil, cc.Ping(ctx))
			case "write":
				m := cc.AcquireMessage(ctx)
				m.SetCode(2)
				m.SetToken(tok)
				m.MustSetPath(fmt.Sprintf("/o/%d", i))
				m.SetType(message.NonConfirmable)
				m.SetBody(bytes.NewReader(body(i+100, op.Up)))
				err := cc.WriteMessage(m)
				cc.ReleaseMessage(m)
				done(nil, err)
			case "sleep":
				time.Sleep(time.Duration(op.Ms) * time.Millisecond)
				done(nil, nil)
			}
			mu.Lock()
			tr.Ops[i] = r
			mu.Unlock()
		}
		for i, op := range sc.Ops {
			if op.Async {
				wg.Add(1)
				go func(i int, op Op) { defer wg.Done(); runOp(i, op) }(i, op)
				continue
			}
			runOp(i, op)
			checkHeld()
		}
		fin := make(chan struct{})
		go func() { wg.Wait(); close(fin) }()
		select {
		case <-fin:
		case <-time.After(5 * time.Minute):
		}
		checkHeld()
		close(stop) // nothing the peer could still answer matters during the idle phase
		<-peerDone
		time.Sleep(300 * time.Second)
		bubble.Wait()
		select {
		case <-cc.Done():
		default:
			tr.Sizes, tr.SizesRead = cc.VerifSizes(), true
		}
		mu.Lock()
		for i := range observations {
			if obsSupported[i] {
				tr.LiveObs++
			}
		}
		mu.Unlock()
		close(tickStop)
		<-tickDone
		_ = cc.Close()
		bubble.Wait()
	})
	tr.Panic, tr.Deadlock, tr.Leaked = res.Panic, res.Deadlock, res.Leaked
	tr.PoolViolation = tracker.Finish(p)
	tr.Recycles = tracker.Recycles
	return tr
}
