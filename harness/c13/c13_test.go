//go:build verif

// C13 — no per-exchange state outlives the exchange.
package c13

import (
	"encoding/json"
	"fmt"
	"testing"

	"pgregory.net/rapid"

	"verif/clientsim"
	"verif/evid"
	"verif/memnet"
	"verif/pairsim"
)

func Oracle(sc pairsim.Scenario, tr pairsim.Trace) *evid.Failure {
	if tr.Panic != "" {
		return evid.Failf("state/panic", sc, "panic in scenario: %s", tr.Panic)
	}
	if tr.Deadlock {
		return evid.Failf("state/deadlock", sc, "all goroutines blocked while the scenario was still running")
	}
	for i, op := range sc.Ops {
		if !tr.Ops[i].Returned && op.Kind != "sleep" {
			return evid.Failf("state/call-hangs", sc, "operation %d (%s) never returned", i, op.Kind)
		}
	}
	// Exchanges that ended successfully leave nothing behind on the requesting side, and not only
	// after an expiry: read as soon as the wire has gone quiet. (Asserted for histories in which every
	// exchange succeeded on a fault-free link; the responder legitimately keeps block-wise responses
	// and cached replies for a while, and the block-wise caches of both sides are tidied by their
	// expiry - one-way writes, superseded notifications - so only the client's continuation tables,
	// per-ID locks and limiter queues are read here.)
	if tr.EarlyRead && !abnormal(sc, tr) && len(sc.Link.FaultsAB) == 0 && len(sc.Link.FaultsBA) == 0 {
		e := tr.EarlyCli
		for _, it := range []struct {
			key string
			got int
		}{{"token-handlers", e.TokenHandlers}, {"mid-handlers", e.MidHandlers}, {"mid-locks", e.MidLocks}, {"limiter-queues", e.LimiterQueues}} {
			if it.got != 0 {
				return evid.Failf("state/client-early/"+it.key, sc, "every exchange succeeded and the wire has gone quiet, yet the client connection still holds %d %s entries (before any expiry could remove them); results: %s", it.got, it.key, results(sc, tr))
			}
		}
	}
	// The responder's block-wise buffers are created with the configured transfer timeout and are not
	// prolonged: that long (plus two housekeeping periods) after the wire has gone quiet they are gone -
	// by the timeout the connection was configured with, whichever constructor built it.
	if tr.MidRead && sc.MidMs > 0 && len(sc.Link.FaultsAB) == 0 && len(sc.Link.FaultsBA) == 0 {
		if n := tr.MidSrv.BlockwiseReceiving; n != 0 {
			return evid.Failf("state/server-at-its-timeout/bw-receiving", sc, "responder connection (role %q, block-wise timeout %d ms, housekeeping every %d ms): %d ms after the wire went quiet it still holds %d block-wise reassembly buffers; results: %s", sc.Srv.Role, max(sc.Srv.BwTimeoutMs, 0), sc.TickMs, sc.MidMs, n, results(sc, tr))
		}
		if n := tr.MidSrv.BlockwiseSending; n != 0 {
			return evid.Failf("state/server-at-its-timeout/bw-sending", sc, "responder connection (role %q, block-wise timeout %d ms, housekeeping every %d ms): %d ms after the wire went quiet it still holds %d block-wise send buffers; results: %s", sc.Srv.Role, max(sc.Srv.BwTimeoutMs, 0), sc.TickMs, sc.MidMs, n, results(sc, tr))
		}
	}
	// Cached replies disappear one exchange lifetime after they were stored - each of them, not the lot
	// when the newest has run out: with a pause of 200 s between two batches of requests, one minute
	// after the second batch only the replies of the second batch may be left.
	if tr.MidRead && sc.MidMs == 60000 {
		second := -1
		for i, op := range sc.Ops {
			if op.Kind == "sleep" && op.Ms >= 200000 {
				second = len(sc.Ops) - i - 1
			}
		}
		if second >= 0 && tr.MidSrv.ResponseCache > second {
			return evid.Failf("state/server-after-one-lifetime/response-cache", sc, "%d requests, 200 s pause, %d requests, then 60 s: the responder still caches %d replies - those of the first batch are %d s old (exchange lifetime 247 s); results: %s", len(sc.Ops)-second-1, second, tr.MidSrv.ResponseCache, 260, results(sc, tr))
		}
	}
	if !tr.SizesRead {
		return nil // a connection was closed by the scenario or by an error: nothing to read
	}
	check := func(side string, s pairsim.Sizes, liveObs int) *evid.Failure {
		type item struct {
			name string
			got  int
			want int
		}
		for _, it := range []item{
			{"waiting token continuations", s.TokenHandlers, 0},
			{"waiting message-ID continuations", s.MidHandlers, 0},
			{"cached replies (after the exchange lifetime)", s.ResponseCache, 0},
			{"per-message-ID locks", s.MidLocks, 0},
			{"block-wise reassembly buffers", s.BlockwiseReceiving, 0},
			{"block-wise send buffers", s.BlockwiseSending, 0},
			{"limiter queue entries", s.LimiterQueues, 0},
			{"observation entries", s.Observations, liveObs},
		} {
			if it.got != it.want {
				key := fmt.Sprintf("state/%s/%s", side, map[string]string{
					"waiting token continuations": "token-handlers", "waiting message-ID continuations": "mid-handlers",
					"cached replies (after the exchange lifetime)": "response-cache", "per-message-ID locks": "mid-locks",
					"block-wise reassembly buffers": "bw-receiving", "block-wise send buffers": "bw-sending",
					"limiter queue entries": "limiter-queues", "observation entries": "observations"}[it.name])
				return evid.Failf(key, sc, "%s connection, %d ms after the last exchange ended (housekeeping every %d ms): %d %s remain, expected %d; results: %s", side, sc.SettleMs, sc.TickMs, it.got, it.name, it.want, results(sc, tr))
			}
		}
		return nil
	}
	if f := check("client", tr.CliSizes, tr.LiveObs); f != nil {
		return f
	}
	return check("server", tr.SrvSizes, 0)
}

func results(sc pairsim.Scenario, tr pairsim.Trace) string {
	s := ""
	for i, op := range sc.Ops {
		s += fmt.Sprintf("[%d %s code=%d err=%.40q]", i, op.Kind, tr.Ops[i].Code, tr.Ops[i].Err)
	}
	return s
}

func abnormal(sc pairsim.Scenario, tr pairsim.Trace) bool {
	for i := range sc.Ops {
		if tr.Ops[i].Err != "" || tr.Ops[i].Code >= 128 {
			return true
		}
	}
	return false
}

func genFaults(t *rapid.T, label string) []memnet.Fault {
	n := rapid.IntRange(0, 5).Draw(t, label+"n")
	var fs []memnet.Fault
	for i := 0; i < n; i++ {
		fs = append(fs, memnet.Fault{At: rapid.IntRange(0, 30).Draw(t, label+"at"), Kind: rapid.SampledFrom([]string{"drop", "drop", "dup", "hold", "replay"}).Draw(t, label+"kind"), Arg: rapid.IntRange(1, 3).Draw(t, label+"arg")})
	}
	return fs
}

func gen(t *rapid.T) pairsim.Scenario {
	sc := pairsim.Scenario{Transport: rapid.SampledFrom([]string{"udp", "udp", "udp", "tcp"}).Draw(t, "transport"), TickMs: rapid.SampledFrom([]int{100, 500, 4000}).Draw(t, "tick"), SettleMs: 300000}
	bw := rapid.IntRange(0, 4).Draw(t, "bw") > 0
	sc.Cli = pairsim.EndCfg{SZX: rapid.IntRange(0, 6).Draw(t, "cszx"), Blockwise: bw, Queue: rapid.SampledFrom([]int{0, 1, 16}).Draw(t, "cq"), AckTimeoutMs: 500, MaxRetransmit: rapid.IntRange(0, 3).Draw(t, "cmr"), NStart: rapid.SampledFrom([]int{1, 8}).Draw(t, "nstart"), Limit: rapid.SampledFrom([]int{1, 2, 16}).Draw(t, "limit"), BwTimeoutMs: rapid.SampledFrom([]int{500, 3000, -1}).Draw(t, "cbwt")}
	sc.Srv = pairsim.EndCfg{SZX: rapid.IntRange(0, 6).Draw(t, "sszx"), Blockwise: bw, Queue: rapid.SampledFrom([]int{0, 1, 16}).Draw(t, "sq"), AckTimeoutMs: 500, MaxRetransmit: 2, BwTimeoutMs: rapid.SampledFrom([]int{500, 3000, -1}).Draw(t, "sbwt")}
	// either endpoint may be a connection created by a server (dtls.NewServer / tcp.NewServer)
	if rapid.IntRange(0, 2).Draw(t, "srvrole") == 0 {
		sc.Srv.Role = "server"
	}
	if rapid.IntRange(0, 3).Draw(t, "clirole") == 0 {
		sc.Cli.Role = "server"
	}
	if sc.Transport == "tcp" {
		sc.Cli.MaxMsg, sc.Srv.MaxMsg = 70000, 70000
	} else {
		sc.Link = memnet.LinkCfg{LatencyMs: rapid.SampledFrom([]int{1, 5, 60}).Draw(t, "lat"), FaultsAB: genFaults(t, "ab"), FaultsBA: genFaults(t, "ba"), Budget: 800}
		if rapid.IntRange(0, 2).Draw(t, "faultfree") == 0 {
			sc.Link.FaultsAB, sc.Link.FaultsBA = nil, nil // (the read-outs before the final one need a link without late copies)
		}
	}
	if sc.Transport == "udp" && rapid.IntRange(0, 5).Draw(t, "lifetime") == 0 {
		// two batches of plain requests, more than most of an exchange lifetime apart
		sc.Link.FaultsAB, sc.Link.FaultsBA = nil, nil
		sc.TickMs = rapid.SampledFrom([]int{500, 4000}).Draw(t, "ltick")
		for b := 0; b < 2; b++ {
			for k := rapid.IntRange(1, 3).Draw(t, "batch"); k > 0; k-- {
				sc.Ops = append(sc.Ops, pairsim.Op{Kind: rapid.SampledFrom([]string{"get", "post"}).Draw(t, "lkind"), Up: 3, Down: 5, DeadlineMs: 2000})
			}
			if b == 0 {
				sc.Ops = append(sc.Ops, pairsim.Op{Kind: "sleep", Ms: 200000})
			}
		}
		sc.MidMs = 60000
		return sc
	}
	n := rapid.IntRange(1, 12).Draw(t, "nops")
	var observes []int
	if sc.Cli.Limit <= 2 && rapid.IntRange(0, 2).Draw(t, "handover") == 0 {
		// the per-endpoint limit hands the slot of a finishing request to the first waiter: Limit
		// requests for one path hold the slots, a further one waits, and its deadline falls on the
		// instant at which a holder's response arrives (or a millisecond next to it); 2-10 such rounds
		rounds := rapid.IntRange(2, 10).Draw(t, "hrounds")
		for k := 0; k < rounds; k++ {
			slow := rapid.SampledFrom([]int{20, 50}).Draw(t, "hslow")
			first := len(sc.Ops)
			for h := 0; h < sc.Cli.Limit; h++ {
				sc.Ops = append(sc.Ops, pairsim.Op{Kind: "get", Down: 1, DeadlineMs: 10000, Async: true, SlowMs: slow, PathRef: first + 1})
			}
			sc.Ops[first].PathRef = 0
			at := 2*sc.Link.LatencyMs + slow + rapid.SampledFrom([]int{-1, 0, 0, 0, 0, 1}).Draw(t, "hoff")
			sc.Ops = append(sc.Ops, pairsim.Op{Kind: "get", Down: 1, DeadlineMs: at, PathRef: first + 1},
				pairsim.Op{Kind: "sleep", Ms: 100})
		}
		sc.Link.FaultsAB, sc.Link.FaultsBA = nil, nil
	}
	for i := len(sc.Ops); i < n; i++ {
		kinds := []string{"get", "post", "put", "delete", "write", "observe", "ping", "sleep"}
		if len(observes) > 0 {
			kinds = append(kinds, "cancelobs", "cancelobs")
		}
		op := pairsim.Op{Kind: rapid.SampledFrom(kinds).Draw(t, "kind"), DeadlineMs: rapid.SampledFrom([]int{200, 2000, 10000}).Draw(t, "deadline"), Async: rapid.IntRange(0, 2).Draw(t, "async") == 0}
		sz := func(label string) int {
			return rapid.SampledFrom([]int{0, 1, 15, 16, 17, 100, 1025, 3000}).Draw(t, label)
		}
		switch op.Kind {
		case "post", "put":
			op.Up, op.Down = sz("up"), sz("down")
		case "get", "delete":
			op.Down = sz("down")
		case "write":
			op.Up, op.Code, op.Con = sz("up"), 2, rapid.Bool().Draw(t, "con")
		case "observe":
			op.Down, op.Notifs, op.NotifLen = sz("down"), rapid.IntRange(0, 3).Draw(t, "notifs"), sz("nlen")
			observes = append(observes, i)
			op.Async = false
		case "cancelobs":
			k := rapid.IntRange(0, len(observes)-1).Draw(t, "ref")
			op.Ref = observes[k]
			observes = append(observes[:k], observes[k+1:]...)
			op.Async = false
		case "sleep":
			op.Ms = rapid.SampledFrom([]int{1, 100, 5000}).Draw(t, "ms")
		}
		if op.Kind != "sleep" && op.Kind != "cancelobs" && op.Kind != "ping" {
			switch rapid.IntRange(0, 7).Draw(t, "ending") {
			case 0:
				op.Mode = "none" // the peer never answers: the call ends at its deadline
			case 1:
				op.SlowMs = rapid.SampledFrom([]int{50, 3000}).Draw(t, "slow") // may outlast the deadline
			case 2:
				op.CancelMs = rapid.SampledFrom([]int{1, 3, 50}).Draw(t, "cancel")
			case 3:
				op.Mode = "sep"
			case 4:
				// No-Response (RFC 7967) next to block-wise bodies: whatever the handler produced and the
				// responder then withheld must not stay behind in a send buffer
				if op.Kind != "observe" {
					op.NoResp = rapid.SampledFrom([]int{2, 8, 16, 26, 24, 10}).Draw(t, "noresp")
				}
			}
		}
		sc.Ops = append(sc.Ops, op)
	}
	// read-out at the responder's configured block-wise timeout (when that differs from the default)
	if sc.Srv.BwTimeoutMs != 3000 && len(observes) == 0 {
		hasObs := false // (or a handler that answers late: its send buffer is created long after the wire went quiet)
		for _, op := range sc.Ops {
			hasObs = hasObs || op.Kind == "observe" || op.SlowMs > 0
		}
		if mid := max(sc.Srv.BwTimeoutMs, 0) + 2*sc.TickMs + 100; !hasObs && mid < 2800 {
			sc.MidMs = mid
		}
	}
	// a server application that tags its notifications with an ETag but not the blocks fetched
	// afterwards (the oracle here does not look at bodies, so the representation may change meanwhile)
	sc.PlainFollowUp = rapid.IntRange(0, 3).Draw(t, "plainfollowup") == 0
	return sc
}

func TestCheck(t *testing.T) {
	r := evid.New(t, "C13")
	eng := evid.RapidEngine("history", evid.RapidOpts{Quick: 6000, Thorough: 150000, Crashy: true}, gen, func(sc pairsim.Scenario) *evid.Failure {
		tr := pairsim.Run(t, sc, false)
		f := Oracle(sc, tr)
		if f == nil {
			key := ""
			if abnormal(sc, tr) {
				b, _ := json.Marshal(sc)
				key = string(b)
			}
			cls := []string{"history/" + sc.Transport}
			if !tr.SizesRead {
				cls = append(cls, "history/connection-closed-before-readout")
			}
			for _, op := range sc.Ops {
				if op.PathRef > 0 {
					cls = append(cls, "history/waiter-whose-deadline-falls-on-the-hand-over-of-a-limit-slot")
					break
				}
			}
			r.Case("history", key, func() any { return sc }, cls...)
		}
		return f
	})
	scripted := evid.RapidEngine("scripted", evid.RapidOpts{Quick: 3000, Thorough: 100000, Crashy: true}, clientsim.Gen, func(sc clientsim.Scenario) *evid.Failure {
		tr := clientsim.Run(t, sc)
		f := scriptedOracle(sc, tr)
		if f == nil {
			key := ""
			if clientsim.Abnormal(tr) {
				b, _ := json.Marshal(sc)
				key = string(b)
			}
			r.Case("scripted", key, func() any { return sc })
		}
		return f
	})
	r.Main(evid.Meta{
		Rule:        "backlog: a datagram connection (client role or created by a DTLS server) that receives 5-4000 confirmable requests with message IDs of their own within 0-60 s (handler answers, or leaves the acknowledgement to the library; every n-th the first block of an upload nobody continues), then nothing for the exchange lifetime + 5 s, then ONE housekeeping run: no cached reply, reassembly buffer, lock or handler entry is left. Others: two library endpoints in a synctest bubble; a history of 1-12 exchanges (GET/POST/PUT/DELETE with bodies from 0 to several blocks, one-way writes, observe with notifications, observe cancellation, ping), each steered towards an ending (answered, peer never answers, slow handler outlasting the deadline, caller cancellation after 1-50 ms, separate response), partly concurrent, behind request limits 1/2/16 and NSTART 1/8, on a datagram link with drop/duplicate/re-order/replay tapes or on a stream; then 300 virtual seconds of idle time with housekeeping ticks every 100/500/4000 ms, after which the size of every per-exchange table of both connections (verif accessors: token and message-ID continuations, response cache, per-ID locks, block-wise receive/send caches, limiter queues, observations) must equal the model: zero, or the number of observations still live. scripted: one client connection against the scripted wire-level peer, 1-12 exchanges (GET, POST with block-wise upload, observe, cancel, ping, one-way write, a request that re-uses the token of an outstanding one) whose endings the peer chooses (answer, silence, bare ACK, reset, duplicated reply, stray reply, undecodable Block2 option, first block then silence, block-wise download), caller cancellation, NSTART 1/2/8, limits 1/2/16, MAX_RETRANSMIT 0-3; same idle phase and read-out. Non-trivial = at least one exchange ended with an error or an error status; distinct by scenario",
		Assumptions: []string{"tables of a connection that was closed during the history are not read", "the idle phase (300 s) exceeds every deadline in the scenario, the block-wise timeouts and the 247 s exchange lifetime"},
		Floor:       200,
	}, eng, scripted, backlogEngine(t, r))
}

func scriptedOracle(sc clientsim.Scenario, tr clientsim.Trace) *evid.Failure {
	if tr.Panic != "" {
		return evid.Failf("state/panic", sc, "panic in scenario: %s", tr.Panic)
	}
	if tr.Deadlock {
		return evid.Failf("state/deadlock", sc, "all goroutines blocked while the scenario was still running")
	}
	for i, op := range sc.Ops {
		if !tr.Ops[i].Returned {
			return evid.Failf("state/call-hangs", sc, "operation %d (%s, peer %s) never returned", i, op.Kind, op.Peer)
		}
	}
	if !tr.SizesRead {
		return nil
	}
	s := tr.Sizes
	type item struct {
		key  string
		got  int
		want int
	}
	for _, it := range []item{{"token-handlers", s.TokenHandlers, 0}, {"mid-handlers", s.MidHandlers, 0}, {"response-cache", s.ResponseCache, 0}, {"mid-locks", s.MidLocks, 0},
		{"bw-receiving", s.BlockwiseReceiving, 0}, {"bw-sending", s.BlockwiseSending, 0}, {"limiter-queues", s.LimiterQueues, 0}, {"observations", s.Observations, tr.LiveObs}} {
		if it.got != it.want {
			res := ""
			for i, op := range sc.Ops {
				res += fmt.Sprintf("[%d %s/%s code=%d err=%.40q]", i, op.Kind, op.Peer, tr.Ops[i].Code, tr.Ops[i].Err)
			}
			return evid.Failf("state/client/"+it.key, sc, "client connection, 300 s after the last exchange ended (housekeeping every %d ms): table %s holds %d entries, expected %d; results: %s", sc.TickMs, it.key, it.got, it.want, res)
		}
	}
	return nil
}
