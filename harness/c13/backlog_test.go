//go:build verif

package c13

// Engine "backlog": the tables after MANY exchanges. The other engines run histories of a dozen
// exchanges; a connection that has served thousands holds thousands of cached replies (and, with
// abandoned block-wise uploads, reassembly buffers) whose deadlines pass together. A datagram
// connection in a synctest bubble receives N confirmable requests with message IDs of their own from
// a scripted peer (a handler that answers, or one that leaves the bare acknowledgement to the
// library), some of them the first block of an upload that is never continued; then nothing happens
// for longer than the exchange lifetime and the block-wise timeout, and the housekeeping runs ONCE:
// every one of those entries is past its deadline at that tick, so the connection holds none of them
// afterwards - "the connection retains nothing for them once the housekeeping tick has passed their
// deadline".

import (
	"bytes"
	"encoding/json"
	"fmt"
	"testing"
	"time"

	"github.com/plgd-dev/go-coap/v3/message"
	"github.com/plgd-dev/go-coap/v3/message/codes"
	"github.com/plgd-dev/go-coap/v3/message/pool"
	"github.com/plgd-dev/go-coap/v3/net/responsewriter"
	"github.com/plgd-dev/go-coap/v3/options"
	udpClient "github.com/plgd-dev/go-coap/v3/udp/client"
	"pgregory.net/rapid"

	"verif/bubble"
	"verif/endpoints"
	"verif/evid"
	"verif/memnet"
	"verif/peer"
	"verif/refcodec"
	"verif/roles"
)

type backlogScenario struct {
	N       int    `json:"n"`       // requests
	Answer  bool   `json:"answer"`  // the handler sets a response (else the library acknowledges)
	Uploads int    `json:"uploads"` // every Uploads-th request is block 0 (more to follow) of an upload nobody continues (0 = none)
	Role    string `json:"role,omitempty"`
	SpanMs  int    `json:"spanMs"` // the requests arrive over this span
}

func execBacklog(t *testing.T, sc backlogScenario) *evid.Failure {
	var fail *evid.Failure
	res := bubble.Run(t, 120*time.Second, nil, func() {
		link := memnet.NewPacketLink(memnet.LinkCfg{LatencyMs: 1})
		var tk endpoints.Ticker
		cc, stopRole, err := roles.Packet(sc.Role, link, bubble.Wait,
			options.WithMessagePool(pool.New(8, 2048)), options.WithPeriodicRunner(tk.Runner()),
			options.WithBlockwise(true, 2, 3*time.Second), // SZX 64
			options.WithTransmission(1, time.Hour, 2),
			options.WithErrors(func(error) {}),
			options.WithHandlerFunc(udpClient.HandlerFunc(func(w *responsewriter.ResponseWriter[*udpClient.Conn], r *pool.Message) {
				if sc.Answer {
					_ = w.SetResponse(codes.Changed, message.TextPlain, bytes.NewReader([]byte("ok")))
				}
			})),
		)
		if err != nil {
			panic(err)
		}
		defer stopRole()
		bubble.Wait()
		gap := time.Duration(0)
		if sc.N > 1 {
			gap = time.Duration(sc.SpanMs) * time.Millisecond / time.Duration(sc.N)
		}
		for k := 0; k < sc.N; k++ {
			m := refcodec.Msg{Type: peer.CON, MID: (1000 + k) & 0xffff, Code: 2, Token: []byte{0xB1, byte(k >> 16), byte(k >> 8), byte(k)}, Opts: peer.PathOpts("backlog"), Payload: []byte("x")}
			if sc.Uploads > 0 && k%sc.Uploads == 0 {
				m.Opts = append(m.Opts, refcodec.Opt{Num: 27, Val: []byte{0x08 | 2}}) // Block1: num 0, more, SZX 64
				m.Payload = bytes.Repeat([]byte{'u'}, 64)
			}
			link.A.Inject(peer.Datagram(m))
			if gap > 0 {
				time.Sleep(gap)
			}
			if k%64 == 63 {
				bubble.Wait()
			}
		}
		bubble.Wait()
		held := cc.VerifSizes()
		if held.ResponseCache == 0 && held.BlockwiseReceiving == 0 {
			fail = evid.Failf("backlog/nothing-held", sc, "harness: after %d requests the connection holds no cached reply and no reassembly buffer (%+v)", sc.N, held)
			return
		}
		time.Sleep(udpClient.ExchangeLifetime + 5*time.Second)
		bubble.Wait()
		tk.Tick()
		bubble.Wait()
		after := cc.VerifSizes()
		if after.ResponseCache != 0 {
			fail = evid.Failf("state/after-one-tick-past-every-deadline/response-cache", sc, "%d replies were cached (%d requests); %v after the last of them - past the exchange lifetime of every one - the housekeeping ran once, and the connection still holds %d of them", held.ResponseCache, sc.N, udpClient.ExchangeLifetime+5*time.Second, after.ResponseCache)
			return
		}
		if after.BlockwiseReceiving != 0 || after.BlockwiseSending != 0 {
			fail = evid.Failf("state/after-one-tick-past-every-deadline/blockwise", sc, "%d reassembly buffers of abandoned uploads were held; after a housekeeping run past the block-wise timeout of every one the connection still holds %d (and %d send buffers)", held.BlockwiseReceiving, after.BlockwiseReceiving, after.BlockwiseSending)
			return
		}
		if after.MidLocks != 0 || after.MidHandlers != 0 || after.TokenHandlers != 0 {
			fail = evid.Failf("state/after-one-tick-past-every-deadline/tables", sc, "after the backlog and a housekeeping run: %+v", after)
			return
		}
		_ = cc.Close()
		bubble.Wait()
	})
	if fail != nil {
		return fail
	}
	if res.Panic != "" {
		return evid.Failf("backlog/panic", sc, "panic in scenario: %s", res.Panic)
	}
	if res.Deadlock {
		return evid.Failf("backlog/deadlock", sc, "all goroutines blocked while the scenario was still running")
	}
	return nil
}

func genBacklog(t *rapid.T) backlogScenario {
	sc := backlogScenario{N: rapid.SampledFrom([]int{5, 60, 300, 1000, 4000}).Draw(t, "n"), Answer: rapid.Bool().Draw(t, "answer"),
		Uploads: rapid.SampledFrom([]int{0, 0, 1, 3, 10}).Draw(t, "uploads"), SpanMs: rapid.SampledFrom([]int{0, 1000, 60000}).Draw(t, "span")}
	if rapid.IntRange(0, 2).Draw(t, "role") == 0 {
		sc.Role = "server"
	}
	return sc
}

func backlogEngine(t *testing.T, r *evid.Run) evid.Engine {
	return evid.RapidEngine("backlog", evid.RapidOpts{Quick: 60, Thorough: 3000, Crashy: true}, genBacklog, func(sc backlogScenario) *evid.Failure {
		f := execBacklog(t, sc)
		if f == nil {
			key := ""
			if sc.N >= 300 {
				b, _ := json.Marshal(sc)
				key = string(b)
			}
			r.Case("backlog", key, func() any { return sc }, fmt.Sprintf("backlog/requests=%d", sc.N))
		}
		return f
	})
}
