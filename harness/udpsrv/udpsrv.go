// Package udpsrv is the real-socket engine for the datagram server's per-peer connection table; C09,
// C10 and C18 each run the modes that belong to them.
package udpsrv

// Engine "udpserver": the per-peer connection table of the datagram server (anchor mechanism
// "per-peer connection table keyed by normalised (remote, local) address") on real loopback sockets
// with a wildcard-bound listener and a hand-driven housekeeping tick.
//
//   - twolocal: one remote socket talks to two local addresses of the server (127.0.0.1 and
//     127.0.0.2): two logical connections, so the same message ID / token on both must reach the
//     handler twice and each be answered with its own echo;
//   - closed: the handler closes its own server-side connection, the peer sends again before any tick:
//     every connection the server ever reported must have run its on-close callback exactly once and
//     completed its done signal by the time Serve has returned;
//   - keepalive: WithKeepAlive on the server, optionally a server-initiated NewConn before the peer's
//     first datagram; a peer that goes silent is closed by the monitor only after at least maxRetries
//     pings went out to it;
//   - idle: WithInactivityMonitor (the callback closes the connection, as the default one does); the
//     peer is served, stays silent for longer than the inactivity period and speaks again before any
//     housekeeping tick: the datagram that finds the expired entry is served by its replacement -
//     answered once, handled once, and announced as a new connection;
//   - retx: the server is configured with WithTransmission(1, 60 ms, R), R in 0..2; a request the
//     server application issues on the peer's server-side connection and the peer never acknowledges is
//     on the wire exactly 1+R times (the configured value, also when it is 0), copy k no earlier than
//     k x 60 ms after the first;
//   - alias: a wildcard-bound listener; the peer's confirmable request is handled, the application
//     then calls Server.NewConn for that peer, the peer retransmits: the copy is answered from the
//     de-duplication state (not handled again);
//   - monclose: a request monitor closes the connection of a datagram while the datagram is being taken
//     in: the datagram reaches the handler at most once;
//   - reconn: wildcard-bound listener, the server application talks first: NewConn, an exchange the peer
//     answers at once, Close, NewConn again, another exchange: each is on the wire once and succeeds.

import (
	"bytes"
	"context"
	"encoding/json"
	"fmt"
	"net"
	"sync"
	"time"

	"github.com/plgd-dev/go-coap/v3/message"
	"github.com/plgd-dev/go-coap/v3/message/codes"
	"github.com/plgd-dev/go-coap/v3/message/pool"
	coapNet "github.com/plgd-dev/go-coap/v3/net"
	"github.com/plgd-dev/go-coap/v3/net/responsewriter"
	"github.com/plgd-dev/go-coap/v3/options"
	"github.com/plgd-dev/go-coap/v3/udp"
	udpClient "github.com/plgd-dev/go-coap/v3/udp/client"
	udpServer "github.com/plgd-dev/go-coap/v3/udp/server"
	"pgregory.net/rapid"

	"verif/evid"
	"verif/peer"
	"verif/refcodec"
)

type Scenario struct {
	Mode         string `json:"mode"` // twolocal | closed | keepalive | idle | retx | alias | reconn | monclose
	N            int    `json:"n"`    // twolocal: message pairs; closed: close/again rounds
	SameMID      bool   `json:"sameMID"`
	Con          bool   `json:"con"`
	NewConnFirst bool   `json:"newConnFirst,omitempty"`
	MaxRetries   int    `json:"maxRetries,omitempty"`
	// Neighbour (keepalive): a second peer of the same server that answers every ping
	Neighbour bool `json:"neighbour,omitempty"`
	// NoResponse (twolocal): the requests to the second local address carry No-Response = 2 (they ask
	// for no 2.xx response): handled, and nothing but a bare acknowledgement comes back - while the
	// requests to the first address, same message IDs, are answered
	NoResponse bool `json:"noResponse,omitempty"`
}

type usConn struct {
	cc      *udpClient.Conn
	remote  string
	onClose int
}

func execOnce(sc Scenario) *evid.Failure {
	l, err := coapNet.NewListenUDP("udp4", "0.0.0.0:0")
	if err != nil {
		return nil // no UDP in this environment: nothing to decide
	}
	defer l.Close()
	port := l.LocalAddr().(*net.UDPAddr).Port
	var mu sync.Mutex
	var handled []string
	var conns []*usConn
	inactive := map[*udpClient.Conn]int{} // onInactive -> pings the peer had seen at that moment (filled below)
	var inactiveOrder []*udpClient.Conn
	var runner func(now time.Time) bool
	period := 100 * time.Millisecond
	opts := []udpServer.Option{
		options.WithHandlerFunc(udpClient.HandlerFunc(func(w *responsewriter.ResponseWriter[*udpClient.Conn], rq *pool.Message) {
			b, _ := rq.ReadBody()
			mu.Lock()
			handled = append(handled, string(b))
			mu.Unlock()
			_ = w.SetResponse(codes.Changed, message.TextPlain, bytes.NewReader(append([]byte("echo:"), b...)))
			if bytes.HasPrefix(b, []byte("close")) {
				_ = w.Conn().Close()
			}
		})),
		options.WithOnNewConn(func(cc *udpClient.Conn) {
			c := &usConn{cc: cc, remote: cc.RemoteAddr().String()}
			mu.Lock()
			conns = append(conns, c)
			mu.Unlock()
			cc.AddOnClose(func() { mu.Lock(); c.onClose++; mu.Unlock() })
		}),
		options.WithErrors(func(error) {}),
		options.WithMessagePool(pool.New(32, 2048)),
		options.WithPeriodicRunner(func(f func(now time.Time) bool) { mu.Lock(); runner = f; mu.Unlock() }),
		options.WithTransmission(1, time.Hour, 10),
	}
	if sc.Mode == "keepalive" {
		opts = append(opts, options.WithKeepAlive(uint32(sc.MaxRetries), period*time.Duration(sc.MaxRetries+1), func(cc *udpClient.Conn) {
			mu.Lock()
			inactive[cc] = -1
			inactiveOrder = append(inactiveOrder, cc)
			mu.Unlock()
			_ = cc.Close()
		}))
	}
	if sc.Mode == "retx" {
		opts[len(opts)-1] = options.WithTransmission(1, 60*time.Millisecond, uint32(sc.MaxRetries))
	}
	if sc.Mode == "monclose" {
		opts = append(opts, options.WithRequestMonitor(udpClient.RequestMonitorFunc(func(cc *udpClient.Conn, rq *pool.Message) (bool, error) {
			if b, _ := rq.ReadBody(); bytes.HasPrefix(b, []byte("mclose")) {
				_ = cc.Close() // e.g. an access-control decision taken when the datagram is looked at
			}
			return false, nil
		})))
	}
	if sc.Mode == "idle" {
		opts = append(opts, options.WithInactivityMonitor(period, func(cc *udpClient.Conn) { _ = cc.Close() }))
	}
	s := udp.NewServer(opts...)
	serveDone := make(chan error, 1)
	go func() { serveDone <- s.Serve(l) }()
	stopped := false
	stop := func() bool {
		if stopped {
			return true
		}
		stopped = true
		s.Stop()
		select {
		case <-serveDone:
			return true
		case <-time.After(5 * time.Second):
			return false
		}
	}
	defer stop()
	tick := func() {
		mu.Lock()
		f := runner
		mu.Unlock()
		if f != nil {
			f(time.Now())
		}
	}
	raw, err := net.ListenUDP("udp4", &net.UDPAddr{IP: net.IPv4(127, 0, 0, 1)})
	if err != nil {
		return nil
	}
	defer raw.Close()
	dst1 := &net.UDPAddr{IP: net.IPv4(127, 0, 0, 1), Port: port}
	dst2 := &net.UDPAddr{IP: net.IPv4(127, 0, 0, 2), Port: port}
	// read collects what arrives at the raw socket until nothing has come for the given time
	type rcvd struct {
		m    refcodec.Msg
		from string
	}
	read := func(quiet time.Duration) []rcvd {
		var out []rcvd
		buf := make([]byte, 2048)
		for {
			_ = raw.SetReadDeadline(time.Now().Add(quiet))
			n, from, err := raw.ReadFromUDP(buf)
			if err != nil {
				return out
			}
			if m, ok := peer.ParseDatagram(buf[:n]); ok {
				out = append(out, rcvd{m, from.IP.String()})
			}
		}
	}
	request := func(mid int, tok byte, body string) refcodec.Msg {
		m := refcodec.Msg{Type: peer.NON, MID: mid, Code: 2, Token: []byte{0x10, tok}, Opts: peer.PathOpts("u"), Payload: []byte(body)}
		if sc.Con {
			m.Type = peer.CON
		}
		return m
	}
	time.Sleep(20 * time.Millisecond) // let Serve install the listener
	switch sc.Mode {
	case "twolocal":
		if _, err := raw.WriteToUDP(peer.Datagram(request(1, 0, "probe")), dst2); err != nil {
			return nil // 127.0.0.2 is not usable here
		}
		if len(read(300*time.Millisecond)) == 0 {
			return nil // no answer from the second loopback address in this environment: nothing to decide
		}
		var want []string
		for k := 0; k < sc.N; k++ {
			mid2 := 100 + k
			if !sc.SameMID {
				mid2 = 500 + k
			}
			a, b := fmt.Sprintf("A%d", k), fmt.Sprintf("B%d", k)
			_, _ = raw.WriteToUDP(peer.Datagram(request(100+k, byte(k), a)), dst1)
			rb := request(mid2, byte(k), b)
			if sc.NoResponse {
				rb.Opts = append(rb.Opts, peer.Opt(258, []byte{2}))
			}
			_, _ = raw.WriteToUDP(peer.Datagram(rb), dst2)
			want = append(want, a, b)
		}
		got := read(400 * time.Millisecond)
		echoes := map[string]string{}
		for _, r := range got {
			if r.m.Code == 68 {
				echoes[string(r.m.Payload)] = r.from
			}
		}
		if sc.NoResponse {
			for _, r := range got {
				if r.m.Code != 0 && r.from == "127.0.0.2" {
					return evid.Failf("udpserver/suppressed-response-on-wire", sc, "the requests to the server's second address carried No-Response = 2, yet a response (code %d, payload %q) came back from that address (requests with the same message IDs to the first address, without the option, were answered just before)", r.m.Code, r.m.Payload)
				}
			}
		}
		mu.Lock()
		defer mu.Unlock()
		count := map[string]int{}
		for _, h := range handled {
			count[h]++
		}
		for i, b := range want {
			if count[b] != 1 {
				return evid.Failf("udpserver/two-local-addresses", sc, "request %q (sent to the server's address %d of 2 from one remote socket, message IDs equal: %v) reached the handler %d times, want once; handled: %v", b, i%2+1, sc.SameMID, count[b], handled)
			}
			from, ok := echoes["echo:"+b]
			if sc.NoResponse && i%2 == 1 {
				if ok {
					return evid.Failf("udpserver/suppressed-response-on-wire", sc, "request %q carried No-Response = 2, yet a 2.04 answer for it came back (a request with the same message ID to the server's other address, without the option, was answered just before)", b)
				}
				continue
			}
			if !ok {
				return evid.Failf("udpserver/two-local-addresses", sc, "request %q was not answered with its own echo (answers: %v)", b, echoes)
			}
			if wantFrom := []string{"127.0.0.1", "127.0.0.2"}[i%2]; from != wantFrom {
				return evid.Failf("udpserver/answer-from-other-address", sc, "the answer to %q came from %s, the request was sent to %s", b, from, wantFrom)
			}
		}
		pairs := map[string]bool{}
		for _, c := range conns {
			pairs[c.remote+"|"+fmt.Sprint(c.cc.LocalAddr())] = true
		}
		if len(conns) != 2 {
			return evid.Failf("udpserver/connection-count", sc, "one remote socket talking to two local addresses was reported as %d new connections, want 2 (one per (remote, local) pair)", len(conns))
		}
	case "closed":
		for k := 0; k < sc.N; k++ {
			_, _ = raw.WriteToUDP(peer.Datagram(request(200+2*k, byte(k), fmt.Sprintf("close%d", k))), dst1)
			_ = read(60 * time.Millisecond)
			// no tick in between: the closed connection is still in the server's table
			_, _ = raw.WriteToUDP(peer.Datagram(request(201+2*k, byte(k), fmt.Sprintf("again%d", k))), dst1)
			_ = read(60 * time.Millisecond)
		}
		tick()
		tick()
		if !stop() {
			return evid.Failf("udpserver/stop-hangs", sc, "Serve did not return within 5 s of Stop")
		}
		time.Sleep(50 * time.Millisecond)
		mu.Lock()
		defer mu.Unlock()
		count := map[string]int{}
		for _, h := range handled {
			count[h]++
		}
		for k := 0; k < sc.N; k++ {
			for _, b := range []string{fmt.Sprintf("close%d", k), fmt.Sprintf("again%d", k)} {
				if count[b] != 1 {
					return evid.Failf("udpserver/closed-then-again", sc, "request %q reached the handler %d times, want once (handled: %v)", b, count[b], handled)
				}
			}
		}
		for i, c := range conns {
			select {
			case <-c.cc.Done():
			default:
				return evid.Failf("udpserver/done-not-closed", sc, "connection %d of %d (%s) reported by OnNewConn has not completed its done signal after Stop", i, len(conns), c.remote)
			}
			if c.onClose != 1 {
				return evid.Failf("udpserver/on-close-count", sc, "the on-close callback of connection %d of %d (%s) ran %d times after Stop, want exactly once", i, len(conns), c.remote, c.onClose)
			}
		}
	case "idle":
		for k := 0; k < sc.N; k++ {
			body := fmt.Sprintf("idle%d", k)
			_, _ = raw.WriteToUDP(peer.Datagram(request(600+k, byte(k), body)), dst1)
			got := read(150 * time.Millisecond) // longer than the inactivity period, and no tick
			echo := 0
			for _, r := range got {
				if string(r.m.Payload) == "echo:"+body {
					echo++
				}
			}
			mu.Lock()
			cnt, nconn := 0, len(conns)
			for _, h := range handled {
				if h == body {
					cnt++
				}
			}
			mu.Unlock()
			if cnt != 1 || echo != 1 {
				return evid.Failf("udpserver/request-after-idle-period-lost", sc, "request %q (number %d from this peer, each sent after more than one inactivity period of silence and before any tick) reached the handler %d times and was answered %d times, want once each", body, k+1, cnt, echo)
			}
			if nconn != k+1 {
				return evid.Failf("udpserver/expired-entry-not-replaced", sc, "after request %d (each after more than one inactivity period of silence) the server had announced %d connections, want %d: the datagram that finds an expired entry belongs to its replacement", k+1, nconn, k+1)
			}
		}
	case "monclose":
		for k := 0; k < sc.N; k++ {
			_, _ = raw.WriteToUDP(peer.Datagram(request(900+k, byte(k), fmt.Sprintf("mclose%d", k))), dst1)
			_ = read(25 * time.Millisecond)
		}
		time.Sleep(50 * time.Millisecond)
		mu.Lock()
		count := map[string]int{}
		for _, h := range handled {
			count[h]++
		}
		mu.Unlock()
		for k := 0; k < sc.N; k++ {
			if b := fmt.Sprintf("mclose%d", k); count[b] > 1 {
				return evid.Failf("udpserver/datagram-handled-twice", sc, "datagram %q (its connection was closed by the request monitor while the datagram was being taken in) reached the handler %d times", b, count[b])
			}
		}
	case "retx":
		_, _ = raw.WriteToUDP(peer.Datagram(request(700, 1, "hello")), dst1)
		_ = read(60 * time.Millisecond)
		mu.Lock()
		var cc *udpClient.Conn
		if len(conns) > 0 {
			cc = conns[0].cc
		}
		mu.Unlock()
		if cc == nil {
			return evid.Failf("udpserver/no-connection", sc, "the server reported no connection for the peer's first datagram")
		}
		reqDone := make(chan error, 1)
		go func() {
			ctx, cancel := context.WithTimeout(context.Background(), time.Second)
			defer cancel()
			_, err := cc.Get(ctx, "/from-server")
			reqDone <- err
		}()
		var copies []time.Time
		var first []byte
		deadline := time.Now().Add(700 * time.Millisecond)
		buf := make([]byte, 2048)
		for time.Now().Before(deadline) {
			tick()
			_ = raw.SetReadDeadline(time.Now().Add(10 * time.Millisecond))
			n, _, err := raw.ReadFromUDP(buf)
			if err != nil {
				continue
			}
			if m, ok := peer.ParseDatagram(buf[:n]); ok && m.Type == peer.CON && m.Code == 1 {
				if first == nil {
					first = append([]byte(nil), buf[:n]...)
				} else if !bytes.Equal(first, buf[:n]) {
					return evid.Failf("udpserver/retx-copies-differ", sc, "transmission %d of the server's request differs from the first", len(copies))
				}
				copies = append(copies, time.Now())
			}
		}
		if len(copies) != 1+sc.MaxRetries {
			return evid.Failf("udpserver/retx-count", sc, "a request issued on a connection of a server configured with MAX_RETRANSMIT %d and never acknowledged was on the wire %d times in 700 ms (ACK_TIMEOUT 60 ms), want %d", sc.MaxRetries, len(copies), 1+sc.MaxRetries)
		}
		for k := 1; k < len(copies); k++ {
			if d := copies[k].Sub(copies[0]); d < time.Duration(k)*60*time.Millisecond-5*time.Millisecond {
				return evid.Failf("udpserver/retx-too-early", sc, "transmission %d of the server's request %v after the first, ACK_TIMEOUT is 60 ms", k, d)
			}
		}
		select {
		case err := <-reqDone:
			if err == nil {
				return evid.Failf("udpserver/retx-success-without-answer", sc, "the request succeeded although the peer never answered")
			}
		case <-time.After(2 * time.Second):
			return evid.Failf("udpserver/retx-call-hangs", sc, "the request has not returned 1 s after its deadline")
		}
	case "alias":
		// the listener of this engine is bound to the wildcard address
		rq := request(800, 1, "aliasA")
		rq.Type = peer.CON
		_, _ = raw.WriteToUDP(peer.Datagram(rq), dst1)
		first := read(80 * time.Millisecond)
		peerAddr := raw.LocalAddr().(*net.UDPAddr)
		ccN, err := s.NewConn(peerAddr)
		if err != nil {
			return nil
		}
		_, _ = raw.WriteToUDP(peer.Datagram(rq), dst1) // the retransmission
		second := read(80 * time.Millisecond)
		mu.Lock()
		cnt := 0
		for _, h := range handled {
			if h == "aliasA" {
				cnt++
			}
		}
		mu.Unlock()
		if cnt != 1 {
			return evid.Failf("udpserver/alias-handler-re-executed", sc, "a confirmable request and its retransmission (the application called Server.NewConn for the peer in between) reached the handler %d times, want once", cnt)
		}
		if len(first) != 1 || len(second) != 1 || !bytes.Equal(peer.Datagram(first[0].m), peer.Datagram(second[0].m)) {
			return evid.Failf("udpserver/alias-replies-differ", sc, "the request was answered with %d datagram(s), its retransmission with %d; want one identical reply each", len(first), len(second))
		}
		_ = ccN
	case "reconn":
		// the server application talks first: NewConn, an exchange, Close, NewConn again, an exchange
		peerAddr := raw.LocalAddr().(*net.UDPAddr)
		exchange := func(cc *udpClient.Conn, label string) *evid.Failure {
			reqDone := make(chan error, 1)
			go func() {
				ctx, cancel := context.WithTimeout(context.Background(), 600*time.Millisecond)
				defer cancel()
				_, err := cc.Get(ctx, "/from-server")
				reqDone <- err
			}()
			copies := 0
			deadline := time.Now().Add(700 * time.Millisecond)
			buf := make([]byte, 2048)
			var got error
			returned := false
			for time.Now().Before(deadline) && !returned {
				tick()
				_ = raw.SetReadDeadline(time.Now().Add(10 * time.Millisecond))
				if n, from, err := raw.ReadFromUDP(buf); err == nil {
					if m, ok := peer.ParseDatagram(buf[:n]); ok && m.Type == peer.CON && m.Code == 1 {
						copies++
						_, _ = raw.WriteToUDP(peer.Datagram(refcodec.Msg{Type: peer.ACK, MID: m.MID, Token: m.Token, Code: 69, Payload: []byte("ok")}), from)
					}
				}
				select {
				case got = <-reqDone:
					returned = true
				default:
				}
			}
			if !returned {
				select {
				case got = <-reqDone:
				case <-time.After(time.Second):
					return evid.Failf("udpserver/reconn-call-hangs", sc, "the request on the %s connection has not returned", label)
				}
			}
			if got != nil || copies != 1 {
				return evid.Failf("udpserver/reconn-answered-request-failed", sc, "the peer acknowledged and answered every copy at once, yet the request on the %s connection returned %v after %d transmissions (want success after one)", label, got, copies)
			}
			return nil
		}
		cc1, err := s.NewConn(peerAddr)
		if err != nil {
			return nil
		}
		if f := exchange(cc1, "first (Server.NewConn)"); f != nil {
			return f
		}
		for k := 0; k < sc.N; k++ {
			_ = cc1.Close()
			time.Sleep(20 * time.Millisecond)
			cc2, err := s.NewConn(peerAddr)
			if err != nil {
				return nil
			}
			if cc2.Context().Err() != nil {
				return evid.Failf("udpserver/reconn-newconn-returned-closed", sc, "Server.NewConn returned a closed connection after the previous one for that peer was closed")
			}
			if f := exchange(cc2, fmt.Sprintf("connection obtained from NewConn after close number %d", k+1)); f != nil {
				return f
			}
			cc1 = cc2
		}
	case "keepalive":
		if sc.NewConnFirst {
			if _, err := s.NewConn(raw.LocalAddr().(*net.UDPAddr)); err != nil {
				return nil
			}
		}
		_, _ = raw.WriteToUDP(peer.Datagram(request(300, 1, "hello")), dst1)
		_ = read(60 * time.Millisecond)
		// the neighbour: another peer of this server, which answers every ping it gets
		var nb *net.UDPConn
		nbStop := make(chan struct{})
		nbDone := make(chan struct{})
		if sc.Neighbour {
			if nb, err = net.ListenUDP("udp4", &net.UDPAddr{IP: net.IPv4(127, 0, 0, 1)}); err != nil {
				return nil
			}
			defer nb.Close()
			_, _ = nb.WriteToUDP(peer.Datagram(request(400, 2, "neighbour")), dst1)
			go func() {
				defer close(nbDone)
				buf := make([]byte, 2048)
				for {
					select {
					case <-nbStop:
						return
					default:
					}
					_ = nb.SetReadDeadline(time.Now().Add(20 * time.Millisecond))
					n, _, err := nb.ReadFromUDP(buf)
					if err != nil {
						continue
					}
					if m, ok := peer.ParseDatagram(buf[:n]); ok && m.Code == 0 && m.Type == peer.CON {
						_, _ = nb.WriteToUDP(peer.Datagram(refcodec.Msg{Type: peer.RST, MID: m.MID}), dst1)
					}
				}
			}()
			defer func() { close(nbStop); <-nbDone }()
			time.Sleep(30 * time.Millisecond)
		}
		pings, pingTicks := 0, 0
		closedAt := -1
		for k := 0; k < sc.MaxRetries+6 && closedAt < 0; k++ {
			time.Sleep(period + 20*time.Millisecond)
			tick()
			inThisTick := 0
			for _, r := range read(60 * time.Millisecond) {
				if r.m.Code == 0 && r.m.Type == peer.CON {
					pings++
					inThisTick++
				}
			}
			if inThisTick > 0 {
				pingTicks++
			}
			mu.Lock()
			for _, cc := range inactiveOrder {
				if cc.RemoteAddr().String() == raw.LocalAddr().String() {
					closedAt = k
				}
			}
			mu.Unlock()
		}
		for _, r := range read(100 * time.Millisecond) {
			if r.m.Code == 0 && r.m.Type == peer.CON {
				pings++
			}
		}
		if sc.Neighbour {
			mu.Lock()
			nbAddr := nb.LocalAddr().String()
			for _, cc := range inactiveOrder {
				if cc.RemoteAddr().String() == nbAddr {
					mu.Unlock()
					return evid.Failf("udpserver/live-neighbour-closed", sc, "the monitor closed the connection of a peer that answered every ping, next to a silent peer of the same server (maxRetries %d)", sc.MaxRetries)
				}
			}
			mu.Unlock()
		}
		if closedAt < 0 {
			return evid.Failf("udpserver/dead-connection-kept", sc, "the peer went silent, %d ticks (one per %v, keep-alive period %v, maxRetries %d) later the monitor has not closed it; %d pings seen", sc.MaxRetries+6, period+20*time.Millisecond, period, sc.MaxRetries, pings)
		}
		// a ping that is superseded in the same tick cannot be answered: what counts is the number of
		// ticks in which the peer was given a chance
		if pingTicks < sc.MaxRetries {
			return evid.Failf("udpserver/closed-before-its-own-pings", sc, "the monitor closed the silent peer at tick %d; pings had gone out to it in only %d ticks (%d pings in all, maxRetries %d, server-initiated connection first: %v)", closedAt+1, pingTicks, pings, sc.MaxRetries, sc.NewConnFirst)
		}
		if pings < sc.MaxRetries {
			return evid.Failf("udpserver/closed-before-its-own-pings", sc, "the monitor closed the silent peer at tick %d after only %d pings had been sent to it (maxRetries %d, server-initiated connection first: %v)", closedAt+1, pings, sc.MaxRetries, sc.NewConnFirst)
		}
	}
	return nil
}

// execUDPServer tolerates scheduling hiccups of a loaded machine: a failure counts only if it
// reproduces three times in a row.
// Exec runs one scenario.
func Exec(sc Scenario) *evid.Failure {
	var f *evid.Failure
	for try := 0; try < 3; try++ {
		if f = execOnce(sc); f == nil {
			return nil
		}
	}
	return f
}

// Gen draws a scenario of one of the given modes.
func Gen(modes []string) func(t *rapid.T) Scenario {
	return func(t *rapid.T) Scenario {
		sc := Scenario{Mode: rapid.SampledFrom(modes).Draw(t, "mode"), Con: rapid.Bool().Draw(t, "con")}
		switch sc.Mode {
		case "twolocal":
			sc.N, sc.SameMID = rapid.IntRange(1, 4).Draw(t, "n"), rapid.IntRange(0, 3).Draw(t, "samemid") > 0
		case "twolocal-nr":
			sc.Mode, sc.NoResponse = "twolocal", true
			sc.N, sc.SameMID = rapid.IntRange(1, 4).Draw(t, "n"), true
		case "closed":
			sc.N = rapid.IntRange(1, 3).Draw(t, "n")
		case "idle":
			sc.N = rapid.IntRange(2, 4).Draw(t, "n")
		case "retx":
			sc.MaxRetries = rapid.IntRange(0, 2).Draw(t, "retries")
		case "reconn":
			sc.N = rapid.IntRange(1, 2).Draw(t, "n")
		case "monclose":
			sc.N = rapid.IntRange(8, 16).Draw(t, "n")
		case "keepalive":
			sc.MaxRetries, sc.NewConnFirst = rapid.IntRange(2, 3).Draw(t, "retries"), rapid.Bool().Draw(t, "newconn")
			sc.Neighbour = rapid.Bool().Draw(t, "neighbour")
		}
		return sc
	}
}

// Engine is the rapid engine "udpserver" restricted to the given modes.
func Engine(r *evid.Run, modes []string, quick, thorough int) evid.Engine {
	return evid.RapidEngine("udpserver", evid.RapidOpts{Quick: quick, Thorough: thorough, Serial: true}, Gen(modes), func(sc Scenario) *evid.Failure {
		f := Exec(sc)
		if f == nil {
			b, _ := json.Marshal(sc)
			r.Case("udpserver", string(b), func() any { return sc }, "udpserver/"+sc.Mode)
		}
		return f
	})
}

// Rule describes the engine for the evidence files.
const Rule = "udpserver: the loopback udp/server behind a wildcard-bound listener with a hand-driven tick (real sockets, real time; a failure counts only if it reproduces three times in a row): twolocal - one remote socket talking to two local addresses is two logical connections (equal message IDs reach the handler twice, each answered from the address it was sent to); closed - a handler closes its own connection and the peer sends again before any tick: every connection ever reported runs its on-close callback exactly once and completes its done signal by the time Serve returned; keepalive - WithKeepAlive with an optional server-initiated NewConn first: a silent peer is closed only after pings went out to it in at least maxRetries ticks, and a second peer of the same server that answers every ping is not closed; idle - WithInactivityMonitor whose callback closes: a peer that speaks again after more than one period of silence and before any tick is answered once, handled once, by a newly announced connection; retx - a server configured with MAX_RETRANSMIT 0-2: an unacknowledged request issued on one of its connections is on the wire exactly 1+MAX_RETRANSMIT times, spaced by ACK_TIMEOUT; alias - wildcard listener, Server.NewConn between a confirmable request and its retransmission (handled once, same reply), ; monclose - a request monitor that closes the datagram's connection: the datagram is handled at most once; reconn - the server application talks first: NewConn, exchange, close, NewConn again, exchange, each answered at once by the peer (succeeds after one transmission)"
