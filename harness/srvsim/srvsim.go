//go:build verif

// Package srvsim runs the library's stream and DTLS-style servers on in-memory listeners
// (tcp/server.Server.Serve and dtls/server.Server.Serve accept any listener, DESIGN.md 2.3).
package srvsim

import (
	"context"
	"fmt"
	"net"
	"sync"
	"time"

	"github.com/plgd-dev/go-coap/v3/dtls"
	dtlsServer "github.com/plgd-dev/go-coap/v3/dtls/server"
	"github.com/plgd-dev/go-coap/v3/message/pool"
	coapNet "github.com/plgd-dev/go-coap/v3/net"
	"github.com/plgd-dev/go-coap/v3/options"
	"github.com/plgd-dev/go-coap/v3/tcp"
	tcpClient "github.com/plgd-dev/go-coap/v3/tcp/client"
	tcpServer "github.com/plgd-dev/go-coap/v3/tcp/server"
	udpClient "github.com/plgd-dev/go-coap/v3/udp/client"

	"verif/endpoints"
	"verif/memnet"
)

// Server is a running server on an in-memory listener.
type Server struct {
	Kind      string // tcp | dtls
	L         *memnet.Listener
	Tick      endpoints.Ticker
	Errs      endpoints.Errs
	stop      func()
	serveDone chan error

	mu       sync.Mutex
	NewConns []string // remote addresses reported by OnNewConn, in order
	Conns    []interface{ Done() <-chan struct{} }
}

func (s *Server) Stop() { s.stop() }

// ServeReturned reports whether Serve has returned (non-blocking).
func (s *Server) ServeReturned() (bool, error) {
	select {
	case err := <-s.serveDone:
		s.serveDone <- err
		return true, err
	default:
		return false, nil
	}
}

// StartTCP starts tcp.NewServer(...).Serve on a memory listener. extra options are appended.
func StartTCP(handler tcpClient.HandlerFunc, extra ...tcpServer.Option) *Server {
	s := &Server{Kind: "tcp", L: memnet.NewListener(coapNet.ErrListenerIsClosed), serveDone: make(chan error, 1)}
	opts := []tcpServer.Option{
		options.WithHandlerFunc(handler), options.WithPeriodicRunner(s.Tick.Runner()), options.WithErrors(s.Errs.Add),
		options.WithMessagePool(pool.New(16, 2048)),
		options.WithOnNewConn(func(cc *tcpClient.Conn) {
			s.mu.Lock()
			s.NewConns = append(s.NewConns, cc.RemoteAddr().String())
			s.Conns = append(s.Conns, cc)
			s.mu.Unlock()
		}),
	}
	opts = append(opts, extra...)
	srv := tcp.NewServer(opts...)
	s.stop = srv.Stop
	go func() { s.serveDone <- srv.Serve(s.L) }()
	return s
}

// StartDTLS starts dtls.NewServer(...).Serve on a memory listener (connections are datagram links).
func StartDTLS(handler udpClient.HandlerFunc, extra ...dtlsServer.Option) *Server {
	s := &Server{Kind: "dtls", L: memnet.NewListener(coapNet.ErrListenerIsClosed), serveDone: make(chan error, 1)}
	opts := []dtlsServer.Option{
		options.WithHandlerFunc(handler), options.WithPeriodicRunner(s.Tick.Runner()), options.WithErrors(s.Errs.Add),
		options.WithMessagePool(pool.New(16, 2048)),
		options.WithOnNewConn(func(cc *udpClient.Conn) {
			s.mu.Lock()
			s.NewConns = append(s.NewConns, cc.RemoteAddr().String())
			s.Conns = append(s.Conns, cc)
			s.mu.Unlock()
		}),
	}
	opts = append(opts, extra...)
	srv := dtls.NewServer(opts...)
	s.stop = srv.Stop
	go func() { s.serveDone <- srv.Serve(s.L) }()
	return s
}

// ConnectStream creates a stream link, hands the server end to the accept loop and returns
// the link (the caller owns link.A).
func (s *Server) ConnectStream(name string, cfg memnet.StreamCfg) *memnet.StreamLink {
	l := memnet.NewStreamLink(cfg)
	l.A.SetAddrs(name, "server")
	l.B.SetAddrs("server", name)
	s.L.Connect(l.B)
	return l
}

// ConnectPacket does the same with a datagram link.
func (s *Server) ConnectPacket(name string, cfg memnet.LinkCfg) *memnet.PacketLink {
	l := memnet.NewPacketLink(cfg)
	l.A.SetAddrs(name, "server")
	l.B.SetAddrs("server", name)
	s.L.Connect(l.B)
	return l
}

// Handshaker wraps a connection so that the server sees a HandshakeContext method.
type Handshaker struct {
	net.Conn
	Fn func(ctx context.Context) error
}

func (h Handshaker) HandshakeContext(ctx context.Context) error { return h.Fn(ctx) }

// ConnectStalled connects a peer whose handshake never completes (until the context ends).
func (s *Server) ConnectStalled(name string) (closed func() bool) {
	if s.Kind == "tcp" {
		l := memnet.NewStreamLink(memnet.StreamCfg{})
		l.B.SetAddrs("server", name)
		s.L.Connect(Handshaker{l.B, func(ctx context.Context) error { <-ctx.Done(); return fmt.Errorf("stalled handshake: %w", ctx.Err()) }})
		return l.A.PeerClosed
	}
	l := memnet.NewPacketLink(memnet.LinkCfg{LatencyMs: 1})
	l.B.SetAddrs("server", name)
	s.L.Connect(Handshaker{l.B, func(ctx context.Context) error { <-ctx.Done(); return fmt.Errorf("stalled handshake: %w", ctx.Err()) }})
	return l.B.Closed
}

// ConnsSnapshot returns what OnNewConn reported.
func (s *Server) ConnsSnapshot() ([]string, []interface{ Done() <-chan struct{} }) {
	s.mu.Lock()
	defer s.mu.Unlock()
	return append([]string(nil), s.NewConns...), append([]interface{ Done() <-chan struct{} }(nil), s.Conns...)
}

var _ = time.Second
