// C07 — stream framing is independent of how bytes are segmented.
package c07

import (
	"bytes"
	"encoding/json"
	"fmt"
	"runtime"
	"strings"
	"sync"
	"sync/atomic"
	"testing"
	"time"

	"github.com/plgd-dev/go-coap/v3/message/codes"
	"github.com/plgd-dev/go-coap/v3/message/pool"
	"github.com/plgd-dev/go-coap/v3/net/responsewriter"
	"github.com/plgd-dev/go-coap/v3/options"
	tcpClient "github.com/plgd-dev/go-coap/v3/tcp/client"
	"pgregory.net/rapid"

	"verif/bubble"
	"verif/codecx"
	"verif/endpoints"
	"verif/evid"
	"verif/memnet"
	"verif/peer"
	"verif/refcodec"
	"verif/roles"
)

type Scenario struct {
	CacheSize  int            `json:"cacheSize"`
	MaxMsg     int            `json:"maxMsg"`
	Frames     []refcodec.Msg `json:"frames"`
	Cuts       []int          `json:"cuts"`       // chunk sizes, cycled
	HeaderCuts bool           `json:"headerCuts"` // additionally cut after the first byte of every frame
	// Oversize: replace the frame at this index (if >= 0) by a header that declares Declared bytes of
	// options+payload; only the header bytes (Len, extended length, code, token) are supplied.
	OversizeAt int    `json:"oversizeAt"`
	Declared   uint64 `json:"declared"`
	// Queue is the received-message queue size (frames of one read burst pile up in it while the
	// handler is busy); SlowMs lets the handler take that long (virtual time) per ordinary message.
	Queue  int `json:"queue"`
	SlowMs int `json:"slowMs,omitempty"`
	// DropCode > 0: the connection has a request monitor (WithRequestMonitor) that asks to drop every
	// message with this code; all the others are delivered, whatever the segmentation
	DropCode int `json:"dropCode,omitempty"`
	// Role: "" the connection of tcp.Client; "server" the connection a tcp.NewServer creates for an
	// accepted peer (the configured sizes and monitors reach it through the server's configuration)
	Role string `json:"role,omitempty"`
}

func isSignal(code int) bool { return code >= 225 && code <= 229 }

func headerOnly(tkl int, code int, declared uint64) []byte {
	var out []byte
	switch {
	case declared < 13:
		out = []byte{byte(declared)<<4 | byte(tkl)}
	case declared < 269:
		out = []byte{13<<4 | byte(tkl), byte(declared - 13)}
	case declared < 65805:
		out = []byte{14<<4 | byte(tkl), byte((declared - 269) >> 8), byte(declared - 269)}
	default:
		e := declared - 65805
		out = []byte{15<<4 | byte(tkl), byte(e >> 24), byte(e >> 16), byte(e >> 8), byte(e)}
	}
	out = append(out, byte(code))
	for i := 0; i < tkl; i++ {
		out = append(out, byte(0xb0+i))
	}
	return out
}

type got struct {
	msgs    []refcodec.Msg
	signals []int
}

func Exec(t *testing.T, sc Scenario, r *evid.Run) *evid.Failure {
	var g got
	var mu sync.Mutex
	var errs endpoints.Errs
	var closed, dialErr bool
	var pongs []refcodec.Msg
	var badOut bool
	// build the byte stream and the expectation
	var stream []byte
	var frameStart []int
	var want got
	var wantPings [][]byte
	cutoff := -1 // index of the first frame that must not be delivered (oversize)
	for i, f := range sc.Frames {
		frameStart = append(frameStart, len(stream))
		if i == sc.OversizeAt {
			stream = append(stream, headerOnly(len(f.Token), f.Code, sc.Declared)...)
			cutoff = i
			break
		}
		b := peer.Frame(f)
		if len(b) > sc.MaxMsg {
			// a complete frame that is larger than the maximum: also an oversize frame
			cutoff = i
			stream = append(stream, b...)
			break
		}
		stream = append(stream, b...)
		if isSignal(f.Code) {
			want.signals = append(want.signals, f.Code)
			if f.Code == 226 {
				wantPings = append(wantPings, f.Token)
			}
		} else if sc.DropCode == 0 || f.Code != sc.DropCode {
			want.msgs = append(want.msgs, f)
		}
	}
	// segmentation
	var segs [][]byte
	nt := false
	{
		cutAfter := map[int]bool{}
		if sc.HeaderCuts {
			for _, s := range frameStart {
				cutAfter[s+1] = true
			}
		}
		pos, ci := 0, 0
		for pos < len(stream) {
			n := 1
			if len(sc.Cuts) > 0 {
				n = max(sc.Cuts[ci%len(sc.Cuts)], 1)
				ci++
			}
			end := min(pos+n, len(stream))
			for c := pos + 1; c < end; c++ {
				if cutAfter[c] {
					end = c
					break
				}
			}
			segs = append(segs, stream[pos:end])
			// non-triviality: a cut strictly inside a header, or two frame starts within one segment
			starts := 0
			for fi, s := range frameStart {
				if s >= pos && s < end {
					starts++
				}
				hdrEnd := s + 2 + len(sc.Frames[fi].Token)
				if end > s && end < hdrEnd && end < len(stream) {
					nt = true
				}
			}
			if starts >= 2 {
				nt = true
			}
			pos = end
		}
	}
	res := bubble.Run(t, 90*time.Second, nil, func() {
		link := memnet.NewStreamLink(memnet.StreamCfg{BufBytes: 1 << 20})
		var tk endpoints.Ticker
		handler := func(w *responsewriter.ResponseWriter[*tcpClient.Conn], rq *pool.Message) {
			m := refcodec.Msg{Code: int(rq.Code()), Token: append([]byte(nil), rq.Token()...)}
			for _, o := range rq.Options() {
				m.Opts = append(m.Opts, refcodec.Opt{Num: int(o.ID), Val: append([]byte(nil), o.Value...)})
			}
			b, _ := rq.ReadBody()
			m.Payload = append([]byte(nil), b...)
			mu.Lock()
			g.msgs = append(g.msgs, m)
			mu.Unlock()
			if sc.SlowMs > 0 {
				time.Sleep(time.Duration(sc.SlowMs) * time.Millisecond)
			}
		}
		monitor := tcpClient.RequestMonitorFunc(func(_ *tcpClient.Conn, rq *pool.Message) (bool, error) {
			return sc.DropCode > 0 && int(rq.Code()) == sc.DropCode, nil
		})
		cc, stopRole, err := roles.Stream(sc.Role, link, bubble.Wait, []any{
			endpoints.TCPCfg(func(cfg *tcpClient.Config) { cfg.RequestMonitor = monitor }), // what WithRequestMonitor sets on a server's connections
			options.WithRequestMonitor(monitor),
			options.WithReceivedMessageQueueSize(sc.Queue),
			options.WithHandlerFunc(tcpClient.HandlerFunc(handler)),
			options.WithMessagePool(pool.New(8, 2048)),
			options.WithPeriodicRunner(tk.Runner()),
			options.WithErrors(errs.Add),
			options.WithBlockwise(false, 6, time.Second),
			options.WithMaxMessageSize(uint32(sc.MaxMsg)),
			options.WithConnectionCacheSize(uint16(sc.CacheSize)),
			options.WithCloseSocket(),
		}...)
		if err != nil {
			dialErr = true
			return
		}
		cc.SetTCPSignalReceivedHandler(func(c codes.Code) {
			mu.Lock()
			g.signals = append(g.signals, int(c))
			mu.Unlock()
		})
		bubble.Wait()
		_ = link.B.TakeAll() // the library's own CSM
		var out []byte
		for _, s := range segs {
			if _, err := link.B.Write(s); err != nil {
				break
			}
			bubble.Wait()
			out = append(out, link.B.TakeAll()...)
		}
		bubble.Wait()
		if sc.SlowMs > 0 {
			// a sleeping handler is quiescent: give the queued messages their (virtual) time
			time.Sleep(time.Duration(sc.SlowMs*(len(sc.Frames)+2)) * time.Millisecond)
			bubble.Wait()
		}
		out = append(out, link.B.TakeAll()...)
		select {
		case <-cc.Done():
			closed = true
		default:
		}
		msgs, rest, bad := peer.ParseFrames(out)
		badOut = bad || len(rest) > 0
		for _, m := range msgs {
			if m.Code == 227 {
				pongs = append(pongs, m)
			}
		}
		_ = cc.Close()
		_ = link.B.Close()
		stopRole()
		bubble.Wait()
	})
	if res.Panic != "" {
		return evid.Failf("framing/panic", sc, "panic in scenario: %s", res.Panic)
	}
	if res.Deadlock {
		return evid.Failf("framing/deadlock", sc, "all goroutines blocked while the scenario was still running")
	}
	if dialErr {
		return evid.Failf("framing/harness", sc, "tcp.Client failed")
	}
	r.Class("teardown_leaks", b2i(res.Leaked))
	if nt && len(sc.Frames) >= 2 {
		r.Class("framing/nontrivial-segmentation", 1)
	}
	describe := func(ms []refcodec.Msg) string {
		var sb strings.Builder
		for _, m := range ms {
			fmt.Fprintf(&sb, "[code %d tok %x opts %d payload %d]", m.Code, m.Token, len(m.Opts), len(m.Payload))
		}
		return sb.String()
	}
	if cutoff >= 0 && len(g.msgs) < len(want.msgs) {
		// Messages that were read before the oversize header but still sat in the receive queue
		// when the connection closed may be discarded with it (nothing is delivered on a closed
		// connection): what was delivered must be a prefix of what preceded the oversize frame.
		want.msgs = want.msgs[:len(g.msgs)]
		r.Class("framing/oversize-close-overtook-queue", 1)
	}
	if len(g.msgs) != len(want.msgs) {
		key := "framing/message-count"
		if cutoff >= 0 && len(g.msgs) > len(want.msgs) {
			key = "framing/delivered-after-oversize"
		}
		return evid.Failf(key, sc, "%d ordinary messages delivered, %d expected (oversize frame index %d)\n got  %s\n want %s", len(g.msgs), len(want.msgs), cutoff, describe(g.msgs), describe(want.msgs))
	}
	for i := range want.msgs {
		if !refcodec.Equal(g.msgs[i], want.msgs[i], false) {
			return evid.Failf("framing/message-differs", sc, "message %d differs:\n got  %+v\n want %+v", i, g.msgs[i], want.msgs[i])
		}
	}
	if fmt.Sprint(g.signals) != fmt.Sprint(want.signals) {
		return evid.Failf("framing/signals", sc, "signal messages seen %v, sent %v", g.signals, want.signals)
	}
	if badOut {
		return evid.Failf("framing/garbage-written", sc, "the connection wrote bytes that are not a sequence of frames")
	}
	if len(pongs) != len(wantPings) {
		return evid.Failf("framing/pong-count", sc, "%d Ping frames sent, %d Pong frames received", len(wantPings), len(pongs))
	}
	for i := range wantPings {
		if string(pongs[i].Token) != string(wantPings[i]) {
			return evid.Failf("framing/pong-token", sc, "Pong %d carries token %x, the Ping had %x", i, pongs[i].Token, wantPings[i])
		}
	}
	if cutoff >= 0 {
		if !closed {
			return evid.Failf("framing/oversize-not-closed", sc, "frame %d declares more than the maximum message size (%d) but the connection is still open after its header was seen", cutoff, sc.MaxMsg)
		}
		if len(errs.List()) == 0 {
			return evid.Failf("framing/oversize-no-error", sc, "the connection was closed on an oversize frame without reporting an error")
		}
	} else if closed {
		return evid.Failf("framing/closed-on-valid-stream", sc, "the connection closed itself on a valid stream: %v", errs.List())
	}
	return nil
}

func b2i(b bool) int64 {
	if b {
		return 1
	}
	return 0
}

func gen(t *rapid.T) Scenario {
	sc := Scenario{
		CacheSize:  rapid.SampledFrom([]int{1, 2, 3, 7, 64, 2048}).Draw(t, "cache"),
		MaxMsg:     rapid.SampledFrom([]int{1152, 4096, 70000, 70000, 200000}).Draw(t, "maxmsg"),
		OversizeAt: -1,
		HeaderCuts: rapid.Bool().Draw(t, "hdrcuts"),
		Queue:      rapid.SampledFrom([]int{0, 1, 2, 16, 16}).Draw(t, "queue"),
		SlowMs:     rapid.SampledFrom([]int{0, 0, 1}).Draw(t, "slow"),
	}
	n := rapid.IntRange(1, 12).Draw(t, "nframes")
	total := 0
	for i := 0; i < n; i++ {
		f := codecx.GenMsg(t, true)
		if rapid.IntRange(0, 3).Draw(t, "signal") == 0 {
			f.Code = rapid.SampledFrom([]int{225, 226, 226, 227, 228, 229}).Draw(t, "sigcode")
			// signalling tables differ per code: keep only options that are legal for the new code
			var opts []refcodec.Opt
			tbl := codecx.Table(true, f.Code)
			for _, o := range f.Opts {
				if b, ok := tbl[o.Num]; !ok || (len(o.Val) >= b.Min && len(o.Val) <= b.Max) {
					opts = append(opts, o)
				}
			}
			f.Opts = opts
		}
		b, _ := refcodec.EncodeStream(f)
		if total+len(b) > 150000 {
			break
		}
		total += len(b)
		sc.Frames = append(sc.Frames, f)
	}
	if len(sc.Frames) == 0 {
		sc.Frames = []refcodec.Msg{{Code: 1, Token: []byte{1}}}
	}
	if rapid.IntRange(0, 2).Draw(t, "role") == 0 {
		sc.Role = "server"
	}
	if rapid.IntRange(0, 3).Draw(t, "monitor") == 0 {
		// drop the code of one of the ordinary frames (or one that does not occur)
		sc.DropCode = 4
		for _, f := range sc.Frames {
			if !isSignal(f.Code) && f.Code > 0 && rapid.Bool().Draw(t, "dropthis") {
				sc.DropCode = f.Code
				break
			}
		}
	}
	if rapid.IntRange(0, 3).Draw(t, "oversize") == 0 {
		sc.OversizeAt = rapid.IntRange(0, len(sc.Frames)-1).Draw(t, "oversizeAt")
		m := uint64(sc.MaxMsg)
		sc.Declared = rapid.SampledFrom([]uint64{m, m + 1, 2 * m, 1<<32 - 1, 1 << 32, 1<<32 + 65804 - 20, 1<<32 + 65804}).Draw(t, "declared")
		if sc.Declared > 1<<32+65804 {
			sc.Declared = 1<<32 + 65804
		}
	}
	// segmentation tape
	switch rapid.IntRange(0, 4).Draw(t, "cutstyle") {
	case 0:
		if total < 3000 {
			sc.Cuts = []int{1}
		} else {
			sc.Cuts = []int{1, 1, 1, 997}
		}
	case 1:
		sc.Cuts = rapid.SliceOfN(rapid.IntRange(1, 9), 1, 8).Draw(t, "cuts")
		if total > 6000 {
			sc.Cuts = append(sc.Cuts, 4093)
		}
	case 2:
		sc.Cuts = rapid.SliceOfN(rapid.IntRange(1, 300), 1, 6).Draw(t, "cuts")
		if total > 20000 {
			sc.Cuts = append(sc.Cuts, 16384)
		}
	case 3:
		sc.Cuts = []int{1 << 20} // everything in one segment
	case 4:
		sc.Cuts = []int{2, 3, 1, 65536}
	}
	return sc
}

func nonTrivial(sc Scenario) bool {
	if len(sc.Frames) < 2 {
		return false
	}
	if sc.HeaderCuts {
		return true
	}
	for _, c := range sc.Cuts {
		if c <= 2 || c >= 64 {
			return true
		}
	}
	return false
}

// cutsEngine: a fixed stream of four frames (Len classes 0-12, 13-268, 269+, a signalling frame) under
// every single cut position and every pair "cut, then one byte, then cut", for three cache sizes.
func cutsEngine(t *testing.T) evid.Engine {
	frames := []refcodec.Msg{
		{Code: 1, Token: []byte{0xa1}, Opts: []refcodec.Opt{{Num: 11, Val: []byte("a")}}},
		{Code: 2, Token: []byte{1, 2, 3, 4, 5, 6, 7, 8}, Opts: []refcodec.Opt{{Num: 11, Val: []byte("path")}, {Num: 12, Val: []byte{42}}}, Payload: bytes.Repeat([]byte{0x31}, 40)},
		{Code: 226, Token: []byte{0x77, 0x78}},
		{Code: 69, Token: []byte{0xb2, 0xb3}, Opts: []refcodec.Opt{{Num: 4, Val: []byte{1, 2, 3}}, {Num: 2049, Val: bytes.Repeat([]byte{7}, 20)}}, Payload: bytes.Repeat([]byte{0x32}, 300)},
	}
	total := 0
	for _, f := range frames {
		total += len(peer.Frame(f))
	}
	return evid.Engine{Name: "cuts",
		Replay: func(raw json.RawMessage) *evid.Failure {
			var sc Scenario
			if err := json.Unmarshal(raw, &sc); err != nil {
				return &evid.Failure{Key: "replay/decode", Msg: err.Error()}
			}
			return evid.SafeExec("cuts", func(s Scenario) *evid.Failure { return Exec(t, s, evid.New(t, "C07-replay")) }, sc)
		},
		Search: func(r *evid.Run) {
			var scs []Scenario
			for _, cache := range []int{1, 3, 2048} {
				for i := 1; i < total; i++ {
					scs = append(scs, Scenario{CacheSize: cache, MaxMsg: 70000, Frames: frames, OversizeAt: -1, Queue: 16, Cuts: []int{i, 1 << 20}})
					if i+1 < total {
						scs = append(scs, Scenario{CacheSize: cache, MaxMsg: 70000, Frames: frames, OversizeAt: -1, Queue: 16, Cuts: []int{i, 1, 1 << 20}})
					}
				}
			}
			var wg sync.WaitGroup
			var idx atomic.Int64
			for w := 0; w < runtime.GOMAXPROCS(0); w++ {
				wg.Add(1)
				go func() {
					defer wg.Done()
					for {
						i := int(idx.Add(1)) - 1
						if i >= len(scs) {
							return
						}
						if f := evid.SafeExec("cuts", func(s Scenario) *evid.Failure { return Exec(t, s, r) }, scs[i]); f != nil {
							r.Fail(f)
							return
						}
						r.Eval(1)
						r.AddDistinct(1)
					}
				}()
			}
			wg.Wait()
			r.Note("exhaustive_subdomain", fmt.Sprintf("a fixed 4-frame stream of %d bytes under every single cut and every cut/1 byte/cut triple, connection cache sizes 1, 3, 2048 (%d segmentations)", total, len(scs)))
		}}
}

func TestCheck(t *testing.T) {
	r := evid.New(t, "C07")
	eng := evid.RapidEngine("framing", evid.RapidOpts{Quick: 12000, Thorough: 300000, Crashy: true}, gen, func(sc Scenario) *evid.Failure {
		f := Exec(t, sc, r)
		if f == nil {
			key := ""
			if nonTrivial(sc) {
				b, _ := json.Marshal(sc)
				key = string(b)
			}
			cls := []string{fmt.Sprintf("framing/cache=%d", sc.CacheSize)}
			if sc.OversizeAt >= 0 {
				cls = append(cls, "framing/oversize")
			}
			if sc.DropCode > 0 {
				cls = append(cls, "framing/request-monitor-drops-a-code")
			}
			if sc.Role == "server" {
				cls = append(cls, "framing/connection-created-by-a-server")
			}
			r.Case("framing", key, func() any { return summary(sc) }, cls...)
		}
		return f
	})
	r.Main(evid.Meta{
		Rule:        "a stream connection (tcp.Client on an in-memory stream, or the connection a tcp.NewServer creates for a peer accepted from an in-memory listener, connection cache size in {1,2,3,7,64,2048}, received-message queue 0/1/2/16, handler instantaneous or taking 1 virtual ms, optionally a request monitor that asks to drop every message of one code) fed by the scripted peer with 1-12 frames from the C01 generator (all Len classes, TKL 0-8, signalling and ordinary codes, payloads beyond 65805 occasionally), cut by a generated segmentation (single bytes, cuts inside headers, several frames per segment), each segment followed by quiescence; optionally one frame is replaced by a header declaring more than the maximum message size (max, max+1, 2*max, next to 2^32) with no body byte supplied. Oracle: handler log and signal log equal the sent sequence whatever the segmentation, every Ping answered by a Pong with its token, oversize: nothing from that frame on is delivered and the connection is closed with an error reported. Non-trivial = >= 2 frames and a cut inside a header or >= 2 frames in one segment (measured: class framing/nontrivial-segmentation); distinct by scenario",
		Assumptions: []string{"connection cache size 0 is not a usable configuration and is not generated", "a frame's header is Len, extended length, code and token: all of them are supplied before the close is required"},
		Floor:       300,
	}, eng, cutsEngine(t))
}

// summary keeps evidence samples small (payload bytes elided).
func summary(sc Scenario) any {
	type fr struct {
		Code, TKL, Opts, Payload int
	}
	var fs []fr
	for _, f := range sc.Frames {
		fs = append(fs, fr{f.Code, len(f.Token), len(f.Opts), len(f.Payload)})
	}
	return map[string]any{"cacheSize": sc.CacheSize, "maxMsg": sc.MaxMsg, "frames": fs, "cuts": sc.Cuts, "headerCuts": sc.HeaderCuts, "oversizeAt": sc.OversizeAt, "declared": sc.Declared}
}
