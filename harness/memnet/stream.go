package memnet

import (
	"context"
	"io"
	"net"
	"sync"
	"sync/atomic"
	"time"
)

// half is one direction of a byte stream with a bounded buffer (like a socket buffer: an
// unbuffered pipe would dead-lock the library's synchronous CSM write, a harness artefact).
type half struct {
	mu       sync.Mutex
	cond     *sync.Cond
	buf      []byte
	capacity int
	wclosed  bool // writer closed: reader gets EOF after draining
	rclosed  bool // reader closed: writer gets an error
	segs     []int
	segIdx   int
	stalled  bool // reader side refuses to deliver (peer "stopped reading" is modelled by not reading)
	written  int
	writes   int
	maxW     int
	storm    bool // more writes than any scenario legitimately needs: a live-lock; the stream is cut
}

func newHalf(capacity int, segs []int) *half {
	h := &half{capacity: capacity, segs: segs}
	h.cond = sync.NewCond(&h.mu)
	return h
}

// StreamEnd is one end of a StreamLink: a net.Conn for the library, raw access for the harness.
type StreamEnd struct {
	r, w   *half
	la, ra Addr
	// HandshakeFn, if set, makes the end implement HandshakeContext (TLS-like listeners).
	HandshakeFn func(ctx context.Context) error
	failWrites  atomic.Int32
}

// FailNextWrites makes the next n writes at this end fail with an error (nothing is written).
func (c *StreamEnd) FailNextWrites(n int) { c.failWrites.Store(int32(n)) }

type StreamLink struct{ A, B *StreamEnd }

// Storm reports whether either direction was cut because it exceeded MaxWrites.
func (l *StreamLink) Storm() bool {
	for _, h := range []*half{l.A.w, l.B.w} {
		h.mu.Lock()
		st := h.storm
		h.mu.Unlock()
		if st {
			return true
		}
	}
	return false
}

type StreamCfg struct {
	BufBytes int   `json:"buf,omitempty"`    // per direction, default 256 KiB
	SegsAB   []int `json:"segsAB,omitempty"` // chunk sizes returned to B's reads (cycled); empty = as much as fits
	SegsBA   []int `json:"segsBA,omitempty"`
	// MaxWrites per direction (default 200000): a safeguard against live-locks, which on a stream
	// need no virtual time and would otherwise only end at the real-time watchdog
	MaxWrites int `json:"maxWrites,omitempty"`
}

func NewStreamLink(cfg StreamCfg) *StreamLink {
	if cfg.BufBytes <= 0 {
		cfg.BufBytes = 256 << 10
	}
	if cfg.MaxWrites <= 0 {
		cfg.MaxWrites = 200000
	}
	ab, ba := newHalf(cfg.BufBytes, cfg.SegsAB), newHalf(cfg.BufBytes, cfg.SegsBA)
	ab.maxW, ba.maxW = cfg.MaxWrites, cfg.MaxWrites
	return &StreamLink{
		A: &StreamEnd{r: ba, w: ab, la: "mem-a", ra: "mem-b"},
		B: &StreamEnd{r: ab, w: ba, la: "mem-b", ra: "mem-a"},
	}
}

func (c *StreamEnd) Read(b []byte) (int, error) {
	h := c.r
	h.mu.Lock()
	defer h.mu.Unlock()
	for (len(h.buf) == 0 || h.stalled) && !h.wclosed && !h.rclosed {
		h.cond.Wait()
	}
	if h.rclosed {
		return 0, net.ErrClosed
	}
	if len(h.buf) == 0 {
		return 0, io.EOF
	}
	n := min(len(h.buf), len(b))
	if len(h.segs) > 0 {
		k := h.segs[h.segIdx%len(h.segs)]
		h.segIdx++
		if k >= 1 && k < n {
			n = k
		}
	}
	copy(b, h.buf[:n])
	h.buf = h.buf[n:]
	h.cond.Broadcast()
	return n, nil
}

func (c *StreamEnd) Write(b []byte) (int, error) {
	if c.failWrites.Load() > 0 {
		c.failWrites.Add(-1)
		return 0, io.ErrShortWrite
	}
	h := c.w
	h.mu.Lock()
	defer h.mu.Unlock()
	h.writes++
	if h.maxW > 0 && h.writes > h.maxW {
		h.storm = true
		return 0, io.ErrClosedPipe
	}
	written := 0
	for written < len(b) {
		for len(h.buf) >= h.capacity && !h.wclosed && !h.rclosed {
			h.cond.Wait()
		}
		if h.wclosed || h.rclosed {
			return written, io.ErrClosedPipe
		}
		n := min(len(b)-written, h.capacity-len(h.buf))
		h.buf = append(h.buf, b[written:written+n]...)
		written += n
		h.written += n
		h.cond.Broadcast()
	}
	return written, nil
}

// Close closes both directions of this end.
func (c *StreamEnd) Close() error {
	c.w.mu.Lock()
	c.w.wclosed = true
	c.w.cond.Broadcast()
	c.w.mu.Unlock()
	c.r.mu.Lock()
	c.r.rclosed = true
	c.r.cond.Broadcast()
	c.r.mu.Unlock()
	return nil
}

// CloseWrite half-closes: the peer reads EOF, this end can still read.
func (c *StreamEnd) CloseWrite() {
	c.w.mu.Lock()
	c.w.wclosed = true
	c.w.cond.Broadcast()
	c.w.mu.Unlock()
}

func (c *StreamEnd) LocalAddr() net.Addr              { return c.la }
func (c *StreamEnd) RemoteAddr() net.Addr             { return c.ra }
func (c *StreamEnd) SetDeadline(time.Time) error      { return nil }
func (c *StreamEnd) SetReadDeadline(time.Time) error  { return nil }
func (c *StreamEnd) SetWriteDeadline(time.Time) error { return nil }
func (c *StreamEnd) SetAddrs(local, remote string)    { c.la, c.ra = Addr(local), Addr(remote) }

// Pending is the number of bytes written to this end's peer direction and not read yet.
func (c *StreamEnd) Pending() int {
	c.r.mu.Lock()
	defer c.r.mu.Unlock()
	return len(c.r.buf)
}

// TakeAll drains the bytes that arrived at this end (raw harness use; ignores the seg tape).
func (c *StreamEnd) TakeAll() []byte {
	h := c.r
	h.mu.Lock()
	defer h.mu.Unlock()
	out := h.buf
	h.buf = nil
	h.cond.Broadcast()
	return out
}

// ReadClosed reports whether the peer closed its writing side and everything was drained.
func (c *StreamEnd) PeerClosed() bool {
	c.r.mu.Lock()
	defer c.r.mu.Unlock()
	return c.r.wclosed || c.r.rclosed
}

// HandshakeEnd wraps a StreamEnd so that the library sees a HandshakeContext method.
type HandshakeEnd struct {
	*StreamEnd
}

func (h HandshakeEnd) HandshakeContext(ctx context.Context) error {
	if h.HandshakeFn == nil {
		return nil
	}
	return h.HandshakeFn(ctx)
}

// ---- listener -------------------------------------------------------------------------------------------

var ErrListenerClosed = net.ErrClosed

type Listener struct {
	ch     chan net.Conn
	closed chan struct{}
	once   sync.Once
	// ClosedErr is returned by AcceptWithContext after Close (the library checks for its own sentinel).
	ClosedErr error
	errs      chan error
}

func NewListener(closedErr error) *Listener {
	return &Listener{ch: make(chan net.Conn, 64), closed: make(chan struct{}), ClosedErr: closedErr, errs: make(chan error, 64)}
}

// FailAccept makes one (the next) call of AcceptWithContext return err - a transient failure of the
// accept system call (descriptor table full, connection aborted before it was accepted); the
// listener itself stays open and connections handed over afterwards are accepted normally.
func (l *Listener) FailAccept(err error) {
	select {
	case l.errs <- err:
	case <-l.closed:
	}
}

func (l *Listener) AcceptWithContext(ctx context.Context) (net.Conn, error) {
	select {
	case err := <-l.errs:
		return nil, err
	default:
	}
	select {
	case err := <-l.errs:
		return nil, err
	case c := <-l.ch:
		return c, nil
	case <-l.closed:
		return nil, l.ClosedErr
	case <-ctx.Done():
		return nil, ctx.Err()
	}
}

func (l *Listener) Close() error { l.once.Do(func() { close(l.closed) }); return nil }

// Connect hands a connection to the server's accept loop.
func (l *Listener) Connect(c net.Conn) bool {
	select {
	case l.ch <- c:
		return true
	case <-l.closed:
		return false
	}
}

func (l *Listener) IsClosed() bool {
	select {
	case <-l.closed:
		return true
	default:
		return false
	}
}
