// Package memnet provides in-memory networks whose every delivery decision comes from the
// generated scenario (DESIGN.md 2.2): a datagram link with fault tapes and a wire log, a
// byte-stream link with a segmentation tape, and a listener.
//
// Rules of the datagram link, each learnt from a hang in the design probes:
//   - UDP semantics: a write never blocks; a full receive queue tail-drops (counted);
//   - every hop has a positive virtual latency (>= 1 ms);
//   - fault tapes are finite and explicit and each link has a hard datagram budget, after
//     which it goes silent (recorded as a storm, never a verdict).
package memnet

import (
	"io"
	"net"
	"sync"
	"sync/atomic"
	"time"
)

type Addr string

func (a Addr) Network() string { return "mem" }
func (a Addr) String() string  { return string(a) }

// Fault is one entry of a fault tape: it applies to the At-th datagram (0-based) sent in
// one direction.
type Fault struct {
	At   int    `json:"at"`
	Kind string `json:"kind"` // drop | dup | hold | replay | alien
	Arg  int    `json:"arg"`  // dup: extra copies; hold: release after Arg later datagrams; replay: how many datagrams back
}

type LinkCfg struct {
	LatencyMs int     `json:"latencyMs"`
	FaultsAB  []Fault `json:"faultsAB,omitempty"`
	FaultsBA  []Fault `json:"faultsBA,omitempty"`
	Budget    int     `json:"budget,omitempty"`
	// Alien derives, for the fault kind "alien", a foreign look-alike of a datagram (nil: none);
	// it is delivered 1 ms after the original. Set by the scenario executor, not part of the scenario.
	Alien func(data []byte) []byte `json:"-"`
}

// Record is one wire-log entry.
type Record struct {
	T    time.Duration // virtual time since the link was created
	Dir  int           // 0: A->B, 1: B->A
	N    int           // index within the direction
	Data []byte
	Fate string // deliver | drop | dup | hold | replay | budget | taildrop | closed
}

type held struct {
	data    []byte
	release int // deliver once count[dir] reaches this value
}

type PacketLink struct {
	A, B *PacketEnd

	mu      sync.Mutex
	cfg     LinkCfg
	start   time.Time
	count   [2]int
	total   int
	log     []Record
	held    [2][]held
	history [2][][]byte
	Storms  int
	Aliens  int // foreign look-alikes actually delivered (fault kind "alien")
	Drops   int
}

// PacketEnd is one end of the link. It is a datagram-preserving net.Conn for the library;
// the harness can also use it raw through Send/Drain.
type PacketEnd struct {
	link   *PacketLink
	dir    int // direction of datagrams written at this end
	in     chan []byte
	closed chan struct{}
	once   sync.Once
	la, ra Addr
	// Tap, if set, sees every datagram written at this end before the fault tape is applied.
	Tap func([]byte)
	// FailMatch restricts FailWriteAt to the datagrams it accepts (set before use).
	FailMatch  func([]byte) bool
	failWrites atomic.Int32
	failAt     atomic.Int32 // 1-based index of the write at this end that fails (0: none)
	writes     atomic.Int32
	fmu        sync.Mutex
	failedAt   []time.Duration // link time of every failed write
}

// FailWriteAt makes the k-th write at this end (1-based) fail; with FailMatch set, the k-th write
// whose datagram satisfies it.
func (e *PacketEnd) FailWriteAt(k int) { e.failAt.Store(int32(k)) }

// FailedWrites returns the link times of the writes that were made to fail.
func (e *PacketEnd) FailedWrites() []time.Duration {
	e.fmu.Lock()
	defer e.fmu.Unlock()
	return append([]time.Duration(nil), e.failedAt...)
}

// FailNextWrites makes the next n writes at this end fail with an error (nothing is sent).
func (e *PacketEnd) FailNextWrites(n int) { e.failWrites.Store(int32(n)) }

func NewPacketLink(cfg LinkCfg) *PacketLink {
	if cfg.LatencyMs < 1 {
		cfg.LatencyMs = 1
	}
	if cfg.Budget <= 0 {
		cfg.Budget = 4000
	}
	l := &PacketLink{cfg: cfg, start: time.Now()}
	l.A = &PacketEnd{link: l, dir: 0, in: make(chan []byte, 1024), closed: make(chan struct{}), la: "mem-a", ra: "mem-b"}
	l.B = &PacketEnd{link: l, dir: 1, in: make(chan []byte, 1024), closed: make(chan struct{}), la: "mem-b", ra: "mem-a"}
	return l
}

func (l *PacketLink) peer(dir int) *PacketEnd {
	if dir == 0 {
		return l.B
	}
	return l.A
}

func (l *PacketLink) faults(dir int) []Fault {
	if dir == 0 {
		return l.cfg.FaultsAB
	}
	return l.cfg.FaultsBA
}

// deliverAfter queues data for the other end after the hop latency (+extra ms).
func (l *PacketLink) deliverAfter(dir int, data []byte, extraMs int) {
	dst := l.peer(dir)
	time.AfterFunc(time.Duration(l.cfg.LatencyMs+extraMs)*time.Millisecond, func() {
		select {
		case <-dst.closed:
			return
		default:
		}
		select {
		case dst.in <- data:
		default:
			l.mu.Lock()
			l.Drops++
			l.mu.Unlock()
		}
	})
}

func (l *PacketLink) send(dir int, data []byte) {
	l.mu.Lock()
	n := l.count[dir]
	l.count[dir]++
	l.total++
	l.history[dir] = append(l.history[dir], data)
	fate := "deliver"
	var f *Fault
	for i := range l.faults(dir) {
		if l.faults(dir)[i].At == n {
			f = &l.faults(dir)[i]
			break
		}
	}
	if l.total > l.cfg.Budget {
		if l.total == l.cfg.Budget+1 {
			l.Storms++
		}
		fate = "budget"
		f = nil
	} else if f != nil {
		fate = f.Kind
	}
	l.log = append(l.log, Record{T: time.Since(l.start), Dir: dir, N: n, Data: data, Fate: fate})
	// releases of held datagrams
	var release [][]byte
	keep := l.held[dir][:0]
	for _, h := range l.held[dir] {
		if l.count[dir] >= h.release {
			release = append(release, h.data)
		} else {
			keep = append(keep, h)
		}
	}
	l.held[dir] = keep
	var replay []byte
	switch fate {
	case "hold":
		l.held[dir] = append(l.held[dir], held{data, l.count[dir] + max(f.Arg, 1)})
	case "replay":
		if back := n - max(f.Arg, 1); back >= 0 {
			replay = l.history[dir][back]
		}
	}
	l.mu.Unlock()

	switch fate {
	case "deliver", "replay", "alien":
		l.deliverAfter(dir, data, 0)
		if replay != nil {
			l.deliverAfter(dir, replay, 1)
		}
		if fate == "alien" && l.cfg.Alien != nil {
			if a := l.cfg.Alien(data); a != nil {
				l.mu.Lock()
				l.Aliens++
				l.mu.Unlock()
				l.deliverAfter(dir, a, 1)
			}
		}
	case "dup":
		for i := 0; i <= max(f.Arg, 1); i++ {
			l.deliverAfter(dir, data, i)
		}
	case "drop", "budget", "hold":
	}
	for i, r := range release {
		l.deliverAfter(dir, r, 1+i)
	}
}

// Flush delivers every datagram still held for re-ordering.
func (l *PacketLink) Flush() {
	l.mu.Lock()
	var rel [2][]held
	rel, l.held = l.held, [2][]held{}
	l.mu.Unlock()
	for dir := 0; dir < 2; dir++ {
		for _, h := range rel[dir] {
			l.deliverAfter(dir, h.data, 0)
		}
	}
}

// Log returns a copy of the wire log.
func (l *PacketLink) Log() []Record {
	l.mu.Lock()
	defer l.mu.Unlock()
	return append([]Record(nil), l.log...)
}

// Sent returns the datagrams written in one direction so far (before faults).
func (l *PacketLink) Sent(dir int) [][]byte {
	l.mu.Lock()
	defer l.mu.Unlock()
	return append([][]byte(nil), l.history[dir]...)
}

func (l *PacketLink) Now() time.Duration { return time.Since(l.start) }

// ---- net.Conn ---------------------------------------------------------------------------------

func (e *PacketEnd) Read(b []byte) (int, error) {
	select {
	case p := <-e.in:
		return copy(b, p), nil
	case <-e.closed:
		return 0, io.EOF
	}
}

func (e *PacketEnd) Write(b []byte) (int, error) {
	select {
	case <-e.closed:
		return 0, net.ErrClosed
	default:
	}
	n := int32(0)
	if e.FailMatch == nil || e.FailMatch(b) {
		n = e.writes.Add(1)
	}
	if e.failWrites.Load() > 0 || (n > 0 && e.failAt.Load() == n) {
		if e.failWrites.Load() > 0 {
			e.failWrites.Add(-1)
		}
		e.fmu.Lock()
		e.failedAt = append(e.failedAt, time.Since(e.link.start))
		e.fmu.Unlock()
		return 0, io.ErrShortWrite
	}
	data := append([]byte(nil), b...)
	if e.Tap != nil {
		e.Tap(data)
	}
	e.link.send(e.dir, data)
	return len(b), nil
}

func (e *PacketEnd) Close() error                     { e.once.Do(func() { close(e.closed) }); return nil }
func (e *PacketEnd) LocalAddr() net.Addr              { return e.la }
func (e *PacketEnd) RemoteAddr() net.Addr             { return e.ra }
func (e *PacketEnd) SetDeadline(time.Time) error      { return nil }
func (e *PacketEnd) SetReadDeadline(time.Time) error  { return nil }
func (e *PacketEnd) SetWriteDeadline(time.Time) error { return nil }
func (e *PacketEnd) SetAddrs(local, remote string)    { e.la, e.ra = Addr(local), Addr(remote) }

// ---- raw use by the harness ---------------------------------------------------------------------

// Send writes a datagram at this end as the scripted peer (fault tape and latency apply).
func (e *PacketEnd) Send(b []byte) { _, _ = e.Write(b) }

// Inject delivers a datagram to this end's reader immediately, bypassing tape and latency.
func (e *PacketEnd) Inject(b []byte) bool {
	select {
	case e.in <- append([]byte(nil), b...):
		return true
	default:
		return false
	}
}

// Drain returns everything that has arrived at this end and was not read yet.
func (e *PacketEnd) Drain() [][]byte {
	var out [][]byte
	for {
		select {
		case p := <-e.in:
			out = append(out, p)
		default:
			return out
		}
	}
}

func (e *PacketEnd) Closed() bool {
	select {
	case <-e.closed:
		return true
	default:
		return false
	}
}
