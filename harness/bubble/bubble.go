// Package bubble wraps testing/synctest: virtual clock, quiescence detection, leak detection and
// a real-time watchdog that lives outside the bubble (DESIGN.md 2.5).
package bubble

import (
	"fmt"
	"os"
	"runtime/debug"
	"runtime/pprof"
	"strings"
	"testing"
	"testing/synctest"
	"time"
)

type Result struct {
	Leaked   bool   // blocked goroutines remained when the scenario function returned
	Deadlock bool   // everything blocked while the scenario function was still running
	Panic    string // panic on the scenario goroutine
}

// Wait blocks until every other goroutine of the bubble is durably blocked.
func Wait() { synctest.Wait() }

// Run executes f in a fresh bubble. realTimeout bounds the real time of the whole scenario;
// on expiry onHang is called from outside the bubble (it normally exits the process).
func Run(t *testing.T, realTimeout time.Duration, onHang func(), f func()) (res Result) {
	var wd *time.Timer
	if realTimeout > 0 {
		// generous: a scenario takes milliseconds; the budget only has to separate "slow because the
		// machine is loaded" from "stuck" (a mutex dead-lock is invisible to the virtual clock)
		realTimeout *= 3
		wd = time.AfterFunc(realTimeout, func() {
			if onHang != nil {
				onHang()
			}
			fmt.Fprintf(os.Stderr, "WATCHDOG bubble: scenario exceeded %v of real time\n", realTimeout)
			os.Exit(3)
		})
		defer wd.Stop()
	}
	defer func() {
		if p := recover(); p != nil {
			s := fmt.Sprint(p)
			switch {
			case strings.Contains(s, "blocked goroutines remain"):
				res.Leaked = true
			case strings.Contains(s, "all goroutines in bubble are blocked"):
				res.Deadlock = true
			default:
				res.Panic = s
			}
		}
	}()
	synctest.Test(t, func(*testing.T) {
		defer func() {
			if p := recover(); p != nil {
				st := string(debug.Stack())
				if len(st) > 2500 {
					st = st[:2500]
				}
				res.Panic = fmt.Sprintf("%v\n%s", p, st)
			}
		}()
		f()
		if os.Getenv("VERIF_DUMP") != "" {
			synctest.Wait()
			_ = pprof.Lookup("goroutine").WriteTo(os.Stdout, 1)
		}
	})
	return res
}

// Settle lets the bubble run for d of virtual time and then waits for quiescence.
func Settle(d time.Duration) {
	time.Sleep(d)
	synctest.Wait()
}
