//go:build verif

package c04

import (
	"fmt"
	"os"
	"testing"

	"verif/memnet"
	"verif/pairsim"
)

// TestSweep: single-fault sweep over one exchange (debugging aid, VERIF_SWEEP=1).
func TestSweep(t *testing.T) {
	if os.Getenv("VERIF_SWEEP") == "" {
		t.Skip()
	}
	for _, kind := range []string{"post", "get", "write"} {
		for _, dir := range []string{"AB", "BA"} {
			for _, fk := range []string{"dup", "drop", "hold", "replay"} {
				for at := 0; at < 10; at++ {
					f := []memnet.Fault{{At: at, Kind: fk, Arg: 1}}
					sc := pairsim.Scenario{Transport: "udp", Cli: pairsim.EndCfg{SZX: 0, Blockwise: true, Queue: 16, AckTimeoutMs: 1000, MaxRetransmit: 3}, Srv: pairsim.EndCfg{SZX: 0, Blockwise: true, Queue: 16, AckTimeoutMs: 1000, MaxRetransmit: 3},
						Link: memnet.LinkCfg{LatencyMs: 1, Budget: 600}, TickMs: 500, SettleMs: 40000}
					if dir == "AB" {
						sc.Link.FaultsAB = f
					} else {
						sc.Link.FaultsBA = f
					}
					op := pairsim.Op{Kind: kind, DeadlineMs: 20000}
					switch kind {
					case "post":
						op.Up, op.Down = 40, 40
					case "get":
						op.Down = 40
					case "write":
						op.Up, op.Code, op.Con = 40, 2, true
					}
					sc.Ops = []pairsim.Op{op}
					tr := pairsim.Run(t, sc, false)
					keys := ""
					for _, f := range OracleAll(sc, tr) {
						keys += f.Key + " "
					}
					if keys != "" {
						fmt.Printf("%-5s %s %-6s at=%d: %s (code %d err %q)\n", kind, dir, fk, at, keys, tr.Ops[0].Code, tr.Ops[0].Err)
					}
				}
			}
		}
	}
}
