//go:build verif

package c04

import (
	"encoding/json"
	"fmt"
	"os"
	"testing"

	"verif/pairsim"
)

// TestTrace prints the trace of the scenario in $VERIF_TRACE (debugging aid, not a check).
func TestTrace(t *testing.T) {
	p := os.Getenv("VERIF_TRACE")
	if p == "" {
		t.Skip()
	}
	b, err := os.ReadFile(p)
	if err != nil {
		t.Fatal(err)
	}
	var in struct {
		Scenario pairsim.Scenario `json:"scenario"`
	}
	if err := json.Unmarshal(b, &in); err != nil {
		t.Fatal(err)
	}
	pairsim.Debug = true
	tr := pairsim.Run(t, in.Scenario, os.Getenv("VERIF_TRACK") != "")
	for i, o := range tr.Ops {
		fmt.Printf("op %d %+v -> %+v\n", i, in.Scenario.Ops[i], o)
	}
	for _, w := range tr.Wire {
		fmt.Println("wire", w)
	}
	for _, h := range tr.Handler {
		fmt.Printf("handler %+v\n", h)
	}
	fmt.Printf("cliErrs %q\nsrvErrs %q\n", tr.CliErrs, tr.SrvErrs)
	fmt.Printf("sizes cli %+v srv %+v read=%v datagrams=%d storms=%d leaked=%v pool=%v\n", tr.CliSizes, tr.SrvSizes, tr.SizesRead, tr.Datagrams, tr.Storms, tr.Leaked, tr.PoolViolation)
	if f := Oracle(in.Scenario, tr); f != nil {
		fmt.Printf("ORACLE %s: %s\n", f.Key, f.Msg)
	}
}
