package c04

// Engine "receiver": one receiving blockwise.BlockWise driven directly through Handle (observe_at:
// "blockwise.BlockWise.{Do,WriteMessage,Handle}") with the schedule in the harness's hands: 1-3
// uploads (Block1 POST, 16-byte blocks, own tokens) are fed block by block; the processing of a
// block can be parked in the middle (the block's body is a reader that waits at its first use, i.e.
// inside the copy into the reassembly buffer, with the per-token guard held) while other steps run:
// blocks of other uploads, duplicates of earlier blocks (also ones that queue on the guard of the
// parked block), and the housekeeping sweep
// (CheckExpirations) at a time before, around or after the expiry of the reassembly entries. The
// pool behind the BlockWise is a last-in-first-out free list, so that a message given back while
// it is still in use is deterministically handed to the next taker.
//
// Oracle: whatever reaches the application handler carries the token of an upload and exactly
// that upload's bytes, at most once per upload; no call panics or hangs.

import (
	"bytes"
	"context"
	"encoding/json"
	"fmt"
	"io"
	"sync"
	"testing"
	"time"

	"github.com/plgd-dev/go-coap/v3/message"
	"github.com/plgd-dev/go-coap/v3/message/codes"
	"github.com/plgd-dev/go-coap/v3/message/pool"
	"github.com/plgd-dev/go-coap/v3/net/blockwise"
	"github.com/plgd-dev/go-coap/v3/net/responsewriter"
	"pgregory.net/rapid"

	"verif/evid"
	"verif/pairsim"
)

type rcvXfer struct {
	Blocks int `json:"blocks"` // 2-4
	Last   int `json:"last"`   // bytes in the final block, 1-16
}

type rcvStep struct {
	Kind string `json:"kind"` // block | park | dup | qdup | resume | tick
	// qdup: a duplicate of an earlier block (not block 0) of an upload whose current block is
	// parked: it finds the reassembly entry, queues on its guard and goes on when the parked block is done
	T   int    `json:"t,omitempty"`
	Num int    `json:"num,omitempty"`
	Adv string `json:"adv,omitempty"` // tick: none | half | past (relative to the expiration of the entries)
}

type rcvScenario struct {
	Transfers []rcvXfer `json:"transfers"`
	Steps     []rcvStep `json:"steps"`
}

// lifoClient is the blockwise.Client: messages come from, and go back to, a last-in-first-out list.
type lifoClient struct {
	mu   sync.Mutex
	free []*pool.Message
}

func (c *lifoClient) AcquireMessage(ctx context.Context) *pool.Message {
	c.mu.Lock()
	defer c.mu.Unlock()
	if n := len(c.free); n > 0 {
		m := c.free[n-1]
		c.free = c.free[:n-1]
		m.SetContext(ctx) //nolint:staticcheck
		return m
	}
	return pool.NewMessage(ctx)
}

func (c *lifoClient) ReleaseMessage(m *pool.Message) {
	m.Reset()
	c.mu.Lock()
	c.free = append(c.free, m)
	c.mu.Unlock()
}

// gatedBody parks its first user until released.
type gatedBody struct {
	*bytes.Reader
	once    sync.Once
	parked  chan struct{}
	release chan struct{}
}

func (g *gatedBody) wait() {
	g.once.Do(func() {
		close(g.parked)
		<-g.release
	})
}

func (g *gatedBody) Seek(off int64, whence int) (int64, error) {
	g.wait()
	return g.Reader.Seek(off, whence)
}

func (g *gatedBody) Read(p []byte) (int, error) {
	g.wait()
	return g.Reader.Read(p)
}

func rcvBody(sc rcvScenario, t int) []byte {
	x := sc.Transfers[t]
	return pairsim.Body(100+t, 16*(x.Blocks-1)+x.Last)
}

func execReceiver(sc rcvScenario) *evid.Failure {
	cl := &lifoClient{}
	bw := blockwise.New(cl, time.Hour, func(error) {}, nil)
	type delivery struct {
		token []byte
		body  []byte
	}
	var mu sync.Mutex
	var got []delivery
	var panics []string
	next := func(w *responsewriter.ResponseWriter[*lifoClient], r *pool.Message) {
		d := delivery{token: append([]byte(nil), r.Token()...)}
		if r.Body() != nil {
			if _, err := r.Body().Seek(0, io.SeekStart); err == nil {
				d.body, _ = io.ReadAll(r.Body())
			}
		}
		mu.Lock()
		got = append(got, d)
		mu.Unlock()
		_ = w.SetResponse(codes.Changed, message.TextPlain, nil)
	}
	token := func(t int) message.Token { return message.Token{0xB0, byte(t)} }
	type parkedRec struct {
		release chan struct{}
		done    chan struct{}
	}
	parked := map[int]*parkedRec{}
	queued := map[int][]chan struct{}{}
	// handle feeds block num of upload t; with gate the processing parks at the first use of the body
	handle := func(t, num int, gate, queue bool) *evid.Failure {
		body := rcvBody(sc, t)
		lo := 16 * num
		hi := min(lo+16, len(body))
		more := hi < len(body)
		ctx := context.Background()
		r := cl.AcquireMessage(ctx)
		r.SetCode(codes.POST)
		r.SetToken(token(t))
		r.MustSetPath("/up")
		bv, _ := blockwise.EncodeBlockOption(blockwise.SZX16, int64(num), more)
		r.SetOptionUint32(message.Block1, bv)
		if num == 0 {
			r.SetOptionUint32(message.Size1, uint32(len(body)))
		}
		var g *gatedBody
		if gate {
			g = &gatedBody{Reader: bytes.NewReader(body[lo:hi]), parked: make(chan struct{}), release: make(chan struct{})}
			r.SetBody(g)
		} else {
			r.SetBody(bytes.NewReader(body[lo:hi]))
		}
		done := make(chan struct{})
		go func() {
			defer close(done)
			defer func() {
				if p := recover(); p != nil {
					mu.Lock()
					panics = append(panics, fmt.Sprintf("block %d of upload %d: %v", num, t, p))
					mu.Unlock()
				}
			}()
			w := responsewriter.New(cl.AcquireMessage(ctx), cl)
			bw.Handle(w, r, blockwise.SZX16, 1152, next)
			// what the connection does afterwards: the request and the response go back to the pool
			if !r.IsHijacked() {
				cl.ReleaseMessage(r)
			}
			cl.ReleaseMessage(w.Message())
		}()
		if queue {
			queued[t] = append(queued[t], done)
			time.Sleep(200 * time.Microsecond) // let it reach the guard
			return nil
		}
		if gate {
			select {
			case <-g.parked:
				parked[t] = &parkedRec{release: g.release, done: done}
				return nil
			case <-done:
				return nil // refused before its body was looked at
			case <-time.After(10 * time.Second):
				return evid.Failf("receiver/hang", sc, "the processing of block %d of upload %d neither reached its body nor returned within 10 s", num, t)
			}
		}
		select {
		case <-done:
		case <-time.After(10 * time.Second):
			return evid.Failf("receiver/hang", sc, "the processing of block %d of upload %d did not return within 10 s", num, t)
		}
		return nil
	}
	resume := func(t int) *evid.Failure {
		p := parked[t]
		if p == nil {
			return nil
		}
		delete(parked, t)
		close(p.release)
		select {
		case <-p.done:
		case <-time.After(10 * time.Second):
			return evid.Failf("receiver/hang", sc, "the parked block of upload %d did not finish within 10 s of being released", t)
		}
		for _, d := range queued[t] {
			select {
			case <-d:
			case <-time.After(10 * time.Second):
				return evid.Failf("receiver/hang", sc, "a duplicate block of upload %d that was queued behind the parked block did not finish within 10 s of its release", t)
			}
		}
		delete(queued, t)
		return nil
	}
	var fail *evid.Failure
	for _, st := range sc.Steps {
		switch st.Kind {
		case "block", "dup":
			fail = handle(st.T, st.Num, false, false)
		case "qdup":
			fail = handle(st.T, st.Num, false, true)
		case "park":
			fail = handle(st.T, st.Num, true, false)
		case "resume":
			fail = resume(st.T)
		case "tick":
			now := time.Now()
			switch st.Adv {
			case "half":
				now = now.Add(30 * time.Minute)
			case "past":
				now = now.Add(2 * time.Hour)
			}
			func() {
				defer func() {
					if p := recover(); p != nil {
						mu.Lock()
						panics = append(panics, fmt.Sprintf("sweep: %v", p))
						mu.Unlock()
					}
				}()
				bw.CheckExpirations(now)
			}()
		}
		if fail != nil {
			break
		}
	}
	for t := range sc.Transfers {
		if f := resume(t); f != nil && fail == nil {
			fail = f
		}
	}
	if fail != nil {
		return fail
	}
	mu.Lock()
	defer mu.Unlock()
	if len(panics) > 0 {
		return evid.Failf("receiver/panic", sc, "panic inside the block-wise layer: %s", panics[0])
	}
	seen := map[int]int{}
	for _, d := range got {
		t := -1
		for k := range sc.Transfers {
			if bytes.Equal(d.token, token(k)) {
				t = k
			}
		}
		if t < 0 {
			return evid.Failf("receiver/foreign-token", sc, "the application was handed a message with token %x, which no upload uses", d.token)
		}
		if want := rcvBody(sc, t); !bytes.Equal(d.body, want) {
			return evid.Failf("receiver/wrong-body", sc, "the application was handed a body of %d bytes under the token of upload %d, whose body is %d bytes (equal prefix: %d bytes)", len(d.body), t, len(want), commonPrefix(d.body, want))
		}
		seen[t]++
		if seen[t] > 1 {
			return evid.Failf("receiver/delivered-twice", sc, "the body of upload %d reached the application %d times", t, seen[t])
		}
	}
	return nil
}

func commonPrefix(a, b []byte) int {
	n := 0
	for n < len(a) && n < len(b) && a[n] == b[n] {
		n++
	}
	return n
}

func genReceiver(t *rapid.T) rcvScenario {
	var sc rcvScenario
	nx := rapid.IntRange(1, 3).Draw(t, "nx")
	for i := 0; i < nx; i++ {
		sc.Transfers = append(sc.Transfers, rcvXfer{Blocks: rapid.IntRange(2, 4).Draw(t, "blocks"), Last: rapid.SampledFrom([]int{1, 7, 15, 16}).Draw(t, "last")})
	}
	cursor := make([]int, nx)
	isParked := make([]bool, nx)
	n := rapid.IntRange(2, 14).Draw(t, "nsteps")
	for i := 0; i < n; i++ {
		var opts []rcvStep
		for x := 0; x < nx; x++ {
			if isParked[x] {
				opts = append(opts, rcvStep{Kind: "resume", T: x})
				if cursor[x] >= 3 {
					// not block 0: whether a duplicate of block 0 finds the entry or arrives just after
					// the body was completed is a matter of microseconds here, and in the latter case it
					// legitimately starts a new upload under the same token
					opts = append(opts, rcvStep{Kind: "qdup", T: x, Num: rapid.IntRange(1, cursor[x]-2).Draw(t, "qdupnum")})
				}
				continue
			}
			if cursor[x] < sc.Transfers[x].Blocks {
				opts = append(opts, rcvStep{Kind: "block", T: x, Num: cursor[x]}, rcvStep{Kind: "park", T: x, Num: cursor[x]})
			}
			if cursor[x] >= 2 {
				opts = append(opts, rcvStep{Kind: "dup", T: x, Num: 1 + rapid.IntRange(0, cursor[x]-2).Draw(t, "dupnum")})
			}
		}
		opts = append(opts, rcvStep{Kind: "tick", Adv: rapid.SampledFrom([]string{"none", "half", "past", "past"}).Draw(t, "adv")})
		st := rapid.SampledFrom(opts).Draw(t, "step")
		switch st.Kind {
		case "block":
			cursor[st.T]++
		case "park":
			cursor[st.T]++
			isParked[st.T] = true
		case "resume":
			isParked[st.T] = false
		}
		sc.Steps = append(sc.Steps, st)
	}
	// the uploads run to their end
	for x := 0; x < nx; x++ {
		if isParked[x] {
			sc.Steps = append(sc.Steps, rcvStep{Kind: "resume", T: x})
		}
		for ; cursor[x] < sc.Transfers[x].Blocks; cursor[x]++ {
			sc.Steps = append(sc.Steps, rcvStep{Kind: "block", T: x, Num: cursor[x]})
		}
	}
	return sc
}

func receiverEngine(t *testing.T, r *evid.Run) evid.Engine {
	return evid.RapidEngine("receiver", evid.RapidOpts{Quick: 20000, Thorough: 600000, Crashy: true}, genReceiver, func(sc rcvScenario) *evid.Failure {
		f := execReceiver(sc)
		if f == nil {
			// non-trivial: a sweep runs while the processing of a block is parked
			open, overlap, pastOverlap := 0, false, false
			for _, st := range sc.Steps {
				switch st.Kind {
				case "park":
					open++
				case "resume":
					open--
				case "tick":
					if open > 0 {
						overlap = true
						pastOverlap = pastOverlap || st.Adv == "past"
					}
				}
			}
			key := ""
			cls := []string{"receiver/scenarios"}
			if overlap {
				b, _ := json.Marshal(sc)
				key = string(b)
				cls = append(cls, "receiver/sweep-while-a-block-is-being-processed")
			}
			for _, st := range sc.Steps {
				if st.Kind == "qdup" {
					cls = append(cls, "receiver/duplicate-queued-on-the-guard-of-a-block-in-progress")
					break
				}
			}
			if pastOverlap {
				cls = append(cls, "receiver/entry-expires-while-a-block-is-being-processed")
			}
			r.Case("receiver", key, func() any { return sc }, cls...)
		}
		return f
	})
}
