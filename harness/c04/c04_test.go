//go:build verif

// C04 — block-wise transfer delivers the exact body exactly once, or fails.
package c04

import (
	"encoding/json"
	"fmt"
	"os"
	"runtime"
	"sync"
	"sync/atomic"
	"testing"

	"pgregory.net/rapid"

	"verif/discsim"
	"verif/evid"
	"verif/memnet"
	"verif/pairsim"
)

func blockSize(szx int) int {
	if szx >= 6 {
		return 1024
	}
	return 16 << uint(szx)
}

// Oracle evaluates the C04 statement over a trace and returns the first failure.
func Oracle(sc pairsim.Scenario, tr pairsim.Trace) *evid.Failure {
	if fs := OracleAll(sc, tr); len(fs) > 0 {
		return fs[0]
	}
	return nil
}

// OracleAll returns every failure of the trace (at most one per rule and operation).
func OracleAll(sc pairsim.Scenario, tr pairsim.Trace) (out []*evid.Failure) {
	report := func(f *evid.Failure) { out = append(out, f) }
	if tr.StreamStorm {
		// no scenario needs 200000 writes in one direction of a stream (nothing is duplicated or
		// retransmitted there): the endpoints were exchanging messages without making progress
		report(evid.Failf("bw/stream-livelock", sc, "the exchange on the stream never made progress: a direction exceeded 200000 writes (an exchange that cannot complete must end with an error or a timeout, not spin)"))
		return
	}
	if tr.Panic != "" {
		report(evid.Failf("bw/panic", sc, "panic in scenario: %s", tr.Panic))
		return
	}
	if tr.Deadlock {
		report(evid.Failf("bw/deadlock", sc, "all goroutines blocked while the scenario was still running"))
		return
	}
	for i, op := range sc.Ops {
		r := tr.Ops[i]
		switch op.Kind {
		case "post", "put", "get", "delete", "write", "observe":
		default:
			continue
		}
		if !r.Returned {
			report(evid.Failf("bw/call-hangs", sc, "operation %d (%s) never returned although its deadline passed", i, op.Kind))
			continue
		}
		// what reached the receiving application
		inv := 0
		badBody, badOpts := false, false
		for _, h := range tr.Handler {
			if h.Op != i || h.Side != "srv" || h.Method < 1 || h.Method > 4 {
				continue
			}
			inv++
			if !h.BodyOK && !badBody {
				badBody = true
				key := "bw/partial-request-body"
				if h.BodyLen > op.Up {
					key = "bw/extended-request-body"
				}
				report(evid.Failf(key, sc, "operation %d (%s, %d bytes up): the server application received a request body of %d bytes that is not the body the client supplied", i, op.Kind, op.Up, h.BodyLen))
			}
			if !h.OptsOK && !badOpts {
				badOpts = true
				report(evid.Failf("bw/options-lost", sc, "operation %d: the request reached the application without its ETag option", i))
			}
		}
		success := r.Err == "" && r.Code >= 64 && r.Code < 96
		if op.Kind == "write" {
			// (a non-confirmable message whose reply is withheld by its own No-Response option got no
			// reply, so there is nothing a duplicated datagram could be answered from: it is handled
			// again, which C05's statement leaves open - not a matter of block-wise transfer)
			if inv > 1 && (op.Con || op.NoResp&2 == 0) {
				report(evid.Failf("bw/write-delivered-twice", sc, "operation %d: a one-way message was handed to the application %d times", i, inv))
			}
			// the receiver drops a reassembly that takes longer than its block-wise timeout: delivery is
			// only required when the transfer fits comfortably
			bs := blockSize(min(sc.Cli.SZX, sc.Srv.SZX))
			roundTrips := (op.Up + bs - 1) / bs
			fits := roundTrips*2*max(sc.Link.LatencyMs, 1)*2 < 3000 && len(sc.Ops) == 1
			// (and the link's datagram budget, a harness safeguard against storms, must not have cut it off)
			if inv == 0 && faultFree(sc) && fits && tr.Storms == 0 && op.Code >= 1 && op.Code <= 4 {
				report(evid.Failf("bw/oneway-write-never-delivered", sc, "operation %d: a one-way %d-byte message on a fault-free link never reached the receiving application (waited %d ms of virtual time)", i, op.Up, sc.SettleMs))
			}
			continue
		}
		if op.Kind == "observe" {
			for k, n := range r.Notifs {
				// the server application puts an Observe option on every notification it sends; a
				// notification that was reassembled from blocks must still carry it ("with the message's
				// other options preserved") - the follow-up blocks themselves have none
				if n.Code >= 64 && n.Code < 96 && n.Code != 95 && n.Seq < 0 && op.NotifLen > 0 {
					report(evid.Failf("bw/notification-options-lost", sc, "operation %d: notification %d (%d bytes) reached the callback without the Observe option the server sent it with", i, k, n.BodyLen))
					break
				}
				if n.ETagBad != "" {
					report(evid.Failf("bw/notification-options-lost", sc, "operation %d: notification %d (%d bytes, seq %d) reached the callback with a complete body but not with the ETag of that version: %s", i, k, n.BodyLen, n.Seq, n.ETagBad))
					break
				}
				if n.Code >= 64 && n.Code < 96 && n.Code != 95 && !n.BodyOK {
					report(evid.Failf("bw/partial-notification", sc, "operation %d: notification %d (seq %d) delivered with a body of %d bytes that is not what the server sent", i, k, n.Seq, n.BodyLen))
					break
				}
			}
			continue
		}
		if r.Err == "" && r.Code == 95 {
			report(evid.Failf("bw/continue-as-final-response", sc, "operation %d (%s): the call returned 2.31 Continue as its final response", i, op.Kind))
		}
		if success && r.Code != 95 {
			if !r.BodyOK {
				key := "bw/partial-response-body"
				if r.BodyLen > op.Down {
					key = "bw/extended-response-body"
				}
				report(evid.Failf(key, sc, "operation %d (%s): the call succeeded (code %d) with a body of %d bytes that is not the %d-byte body the server supplied", i, op.Kind, r.Code, r.BodyLen, op.Down))
			}
			// "exactly once" is a statement about bodies: it is asserted for uploads that really are
			// block-wise. How often the handler of a body-less request (GET, or a POST without a
			// body) runs while its response is fetched block by block is not constrained here;
			// duplicates of plain requests are C05's subject.
			if inv != 1 && op.Mode == "" && op.Up > blockSize(min(sc.Cli.SZX, sc.Srv.SZX)) {
				report(evid.Failf("bw/handler-count", sc, "operation %d (%s): the call succeeded but the server application saw the request %d times", i, op.Kind, inv))
			}
		}
	}
	return out
}

func faultFree(sc pairsim.Scenario) bool {
	return sc.Transport == "tcp" || (len(sc.Link.FaultsAB) == 0 && len(sc.Link.FaultsBA) == 0)
}

func completed(sc pairsim.Scenario, tr pairsim.Trace) (done, total int) {
	for i, op := range sc.Ops {
		switch op.Kind {
		case "post", "put", "get", "delete":
			total++
			if r := tr.Ops[i]; r.Err == "" && r.Code >= 64 && r.Code < 96 {
				done++
			}
		}
	}
	return
}

func multiBlock(sc pairsim.Scenario) bool {
	for _, op := range sc.Ops {
		if op.Up > blockSize(min(sc.Cli.SZX, sc.Srv.SZX)) || op.Down > blockSize(min(sc.Cli.SZX, sc.Srv.SZX)) || op.NotifLen > blockSize(min(sc.Cli.SZX, sc.Srv.SZX)) {
			return true
		}
	}
	return false
}

func sizesFor(s int) []int {
	return []int{0, 1, s - 1, s, s + 1, 2*s - 1, 2 * s, 2*s + 1, 3*s + 5}
}

// grid: every SZX pair x boundary sizes, fault-free, both transports (BERT on the stream).
func gridEngine(t *testing.T) evid.Engine {
	exec := func(sc pairsim.Scenario) *evid.Failure { return Oracle(sc, pairsim.Run(t, sc, false)) }
	return evid.Engine{Name: "grid",
		Replay: func(raw json.RawMessage) *evid.Failure {
			var sc pairsim.Scenario
			if err := json.Unmarshal(raw, &sc); err != nil {
				return &evid.Failure{Key: "replay/decode", Msg: err.Error()}
			}
			return evid.SafeExec("grid", exec, sc)
		},
		Search: func(r *evid.Run) {
			var scs []pairsim.Scenario
			add := func(transport string, c, s, cmax, smax, up, down int, kind string) {
				scs = append(scs, pairsim.Scenario{Transport: transport,
					Cli: pairsim.EndCfg{SZX: c, Blockwise: true, MaxMsg: cmax, Queue: 16}, Srv: pairsim.EndCfg{SZX: s, Blockwise: true, MaxMsg: smax, Queue: 16},
					Link: memnet.LinkCfg{LatencyMs: 1}, TickMs: 500, SettleMs: 40000,
					Ops: []pairsim.Op{{Kind: kind, Up: up, Down: down, DeadlineMs: 20000, ETag: (up+down)%2 == 0}}})
			}
			for c := 0; c <= 6; c++ {
				for s := 0; s <= 6; s++ {
					if !r.Thorough() && (c+s)%2 == 1 && c != s {
						continue // quick tier: half of the off-diagonal pairs
					}
					for _, up := range sizesFor(blockSize(c)) {
						for _, down := range []int{0, blockSize(s) - 1, blockSize(s), 2*blockSize(s) + 1} {
							add("udp", c, s, 0, 0, up, down, "post")
						}
					}
					add("udp", c, s, 0, 0, 0, 3*blockSize(s)+7, "get")
					add("udp", c, s, 0, 0, 5*blockSize(c)+1, 0, "put")
				}
			}
			// stream transport, BERT included (only with max message size >= 1152)
			for _, c := range []int{0, 4, 6, 7} {
				for _, s := range []int{0, 5, 6, 7} {
					for _, mm := range [][2]int{{1152, 1152}, {2500, 4096}, {4096, 1152}, {70000, 70000}} {
						unit := 1024
						if c == 7 {
							unit = mm[0] / 1024 * 1024
						}
						for _, up := range []int{0, unit - 1, unit, unit + 1, 2*unit + 1, 5000} {
							add("tcp", c, s, mm[0], mm[1], up, 3000, "post")
						}
						add("tcp", c, s, mm[0], mm[1], 0, 9000, "get")
					}
				}
			}
			var wg sync.WaitGroup
			var idx, done, total atomic.Int64
			for w := 0; w < runtime.GOMAXPROCS(0); w++ {
				w := w
				wg.Add(1)
				go func() {
					defer wg.Done()
					for {
						i := int(idx.Add(1)) - 1
						if i >= len(scs) {
							return
						}
						sc := scs[i]
						r.SetCurrent("grid", w, sc)
						tr := pairsim.Run(t, sc, false)
						r.ClearCurrent(w)
						if f := Oracle(sc, tr); f != nil {
							f.Engine = "grid"
							r.Fail(f)
							continue
						}
						d, n := completed(sc, tr)
						// On a fault-free link, with one exchange, ample deadlines and both ends allowing the
						// same message size, nothing but the library can keep an exchange from completing:
						// "exactly once" then includes "once" (see DESIGN.md 3/C04).
						if d != n && sc.Cli.MaxMsg == sc.Srv.MaxMsg && tr.Storms == 0 {
							o := tr.Ops[0]
							f := evid.Failf("bw/fault-free-exchange-does-not-complete", sc, "%s %s of %d bytes up / %d bytes down between SZX %d (max %d) and SZX %d (max %d) on a fault-free link ended with code %d, err %q; client errors %.200q, server errors %.200q", sc.Transport, sc.Ops[0].Kind, sc.Ops[0].Up, sc.Ops[0].Down, sc.Cli.SZX, sc.Cli.MaxMsg, sc.Srv.SZX, sc.Srv.MaxMsg, o.Code, o.Err, tr.CliErrs, tr.SrvErrs)
							f.Engine = "grid"
							r.Fail(f)
							continue
						}
						done.Add(int64(d))
						total.Add(int64(n))
						key := ""
						if multiBlock(sc) {
							key = fmt.Sprint(sc.Transport, sc.Cli.SZX, sc.Srv.SZX, sc.Cli.MaxMsg, sc.Srv.MaxMsg, sc.Ops[0].Kind, sc.Ops[0].Up, sc.Ops[0].Down)
						}
						r.Case("grid", key, func() any { return sc }, "grid/"+sc.Transport)
					}
				}()
			}
			wg.Wait()
			r.Class("grid/exchanges", total.Load())
			r.Class("grid/exchanges-completed", done.Load())
			if total.Load() > 0 && done.Load()*100 < total.Load()*95 {
				r.Inconclusive("fault-free grid: only %d of %d exchanges completed — the check would be vacuous", done.Load(), total.Load())
			}
		}}
}

func genFaults(t *rapid.T, label string) []memnet.Fault {
	n := rapid.IntRange(0, 4).Draw(t, label+"n")
	var fs []memnet.Fault
	for i := 0; i < n; i++ {
		fs = append(fs, memnet.Fault{
			At:   rapid.IntRange(0, 14).Draw(t, label+"at"),
			Kind: rapid.SampledFrom([]string{"drop", "dup", "dup", "hold", "replay", "alien"}).Draw(t, label+"kind"),
			Arg:  rapid.IntRange(1, 3).Draw(t, label+"arg"),
		})
	}
	return fs
}

func genFaulty(t *rapid.T) pairsim.Scenario {
	sc := pairsim.Scenario{Transport: "udp", TickMs: 500, SettleMs: 40000}
	sc.Cli = pairsim.EndCfg{SZX: rapid.IntRange(0, 6).Draw(t, "cszx"), Blockwise: true, Queue: rapid.SampledFrom([]int{0, 1, 16}).Draw(t, "cq"), AckTimeoutMs: 1000, MaxRetransmit: 3}
	sc.Srv = pairsim.EndCfg{SZX: rapid.IntRange(0, 6).Draw(t, "sszx"), Blockwise: true, Queue: rapid.SampledFrom([]int{0, 1, 16}).Draw(t, "sq"), AckTimeoutMs: 1000, MaxRetransmit: 3}
	sc.Link = memnet.LinkCfg{LatencyMs: rapid.SampledFrom([]int{1, 1, 5, 40}).Draw(t, "lat"), FaultsAB: genFaults(t, "ab"), FaultsBA: genFaults(t, "ba"), Budget: 600}
	sc.Srv.GoPool = rapid.IntRange(0, 3).Draw(t, "gopool") == 0 // duplicates and blocks of one transfer processed concurrently
	// either endpoint may be a connection created by a server (dtls.NewServer / tcp.NewServer)
	if rapid.IntRange(0, 2).Draw(t, "srvrole") == 0 {
		sc.Srv.Role = "server"
	}
	if rapid.IntRange(0, 3).Draw(t, "clirole") == 0 {
		sc.Cli.Role = "server"
	}
	nops := rapid.SampledFrom([]int{1, 1, 2, 3, 4}).Draw(t, "nops")
	cs, ss := blockSize(sc.Cli.SZX), blockSize(sc.Srv.SZX)
	size := func(label string, s int) int {
		return rapid.OneOf(rapid.SampledFrom([]int{0, 1, s - 1, s, s + 1, 2*s - 1, 2 * s, 2*s + 1, 3*s + 5}), rapid.IntRange(0, 8*s)).Draw(t, label)
	}
	for i := 0; i < nops; i++ {
		op := pairsim.Op{Kind: rapid.SampledFrom([]string{"post", "post", "put", "get", "write", "observe"}).Draw(t, "kind"), DeadlineMs: 20000,
			Async: i < nops-1 && rapid.Bool().Draw(t, "async"), ETag: rapid.Bool().Draw(t, "etag")}
		switch op.Kind {
		case "post", "put":
			op.Up, op.Down = size("up", cs), size("down", ss)
			// an upload may be abandoned half-way as well, and a later one may take its token again
			if rapid.IntRange(0, 5).Draw(t, "cancelup") == 0 {
				op.CancelMs = rapid.SampledFrom([]int{3, 8, 30}).Draw(t, "cancelupms")
				op.Async = false
			}
			var earlierUp []int
			for j, o := range sc.Ops {
				if (o.Kind == "post" || o.Kind == "put") && !o.Async {
					earlierUp = append(earlierUp, j)
				}
			}
			if len(earlierUp) > 0 && rapid.IntRange(0, 2).Draw(t, "tokrefup") == 0 {
				op.TokRef = earlierUp[rapid.IntRange(0, len(earlierUp)-1).Draw(t, "tokrefupwhich")] + 1
				op.Async = false
				if rapid.Bool().Draw(t, "samefirst") {
					// the retried upload of a changed document: as long as, and beginning like, the
					// abandoned one (its first block or two), different afterwards
					op.Up = sc.Ops[op.TokRef-1].Up
					op.BodyLike = op.TokRef
					op.SameFirst = min(cs, ss) * rapid.IntRange(1, 2).Draw(t, "sameblocks")
				}
				sc.Ops = append(sc.Ops, pairsim.Op{Kind: "sleep", Ms: 6*sc.Link.LatencyMs + 20})
			}
		case "get":
			op.Down = size("down", ss)
			// a download may be abandoned half-way (cancelled by the caller), and a later download may
			// re-use the token of an earlier one that has ended
			if rapid.IntRange(0, 4).Draw(t, "cancelget") == 0 {
				op.CancelMs = rapid.SampledFrom([]int{3, 8, 30}).Draw(t, "cancelms")
				op.Async = false
			}
			var earlier []int
			for j, o := range sc.Ops {
				if o.Kind == "get" && !o.Async {
					earlier = append(earlier, j)
				}
			}
			if len(earlier) > 0 && rapid.IntRange(0, 2).Draw(t, "tokref") == 0 {
				op.TokRef = earlier[rapid.IntRange(0, len(earlier)-1).Draw(t, "tokrefwhich")] + 1
				op.Async = false
				// the token is taken again once nothing of the earlier exchange is on its way any more
				sc.Ops = append(sc.Ops, pairsim.Op{Kind: "sleep", Ms: 6*sc.Link.LatencyMs + 20})
			}
		case "write":
			op.Up = size("up", cs)
			op.Con = rapid.Bool().Draw(t, "con")
			op.Code = 2
		case "observe":
			op.Down = size("down", ss)
			op.Notifs = rapid.IntRange(0, 3).Draw(t, "notifs")
			op.NotifLen = size("nlen", ss)
			if rapid.IntRange(0, 2).Draw(t, "plainfollowup") == 0 {
				// a server that puts the ETag on the notification only, not on the blocks fetched afterwards
				sc.PlainFollowUp = true
			}
		}
		// a second feature in the same exchange: the request carries No-Response (RFC 7967). The body
		// still has to reach the handler intact and once; a response that is not withheld still has to
		// be the complete one
		if op.Kind != "observe" && rapid.IntRange(0, 5).Draw(t, "norespq") == 0 {
			op.NoResp = rapid.SampledFrom([]int{2, 8, 16, 26, 24}).Draw(t, "noresp")
		}
		sc.Ops = append(sc.Ops, op)
	}
	if sc.PlainFollowUp {
		// (the representation must not change while a transfer is in flight: the registration response
		// fits into one block, and there is one notification, whose representation stays)
		for i := range sc.Ops {
			if sc.Ops[i].Kind == "observe" {
				sc.Ops[i].Notifs = min(sc.Ops[i].Notifs, 1)
				sc.Ops[i].Down = min(sc.Ops[i].Down, 9)
			}
		}
	}
	// A caller that re-uses a token accepts that a late copy of an answer to the earlier exchange
	// matches the later one (RFC 7252 5.3.1 leaves that to the client); with a re-used token the
	// network therefore only loses datagrams and adds foreign-token ones, it keeps no old copies.
	for _, op := range sc.Ops {
		if op.TokRef == 0 {
			continue
		}
		for _, fs := range [][]memnet.Fault{sc.Link.FaultsAB, sc.Link.FaultsBA} {
			for i := range fs {
				if fs[i].Kind != "drop" && fs[i].Kind != "alien" {
					fs[i].Kind = "drop"
				}
			}
		}
		break
	}
	return sc
}

func genTCP(t *rapid.T) pairsim.Scenario {
	sc := pairsim.Scenario{Transport: "tcp", TickMs: 500, SettleMs: 40000}
	mm := rapid.SampledFrom([]int{1152, 1500, 2048, 4096, 10000, 70000})
	sc.Cli = pairsim.EndCfg{SZX: rapid.IntRange(0, 7).Draw(t, "cszx"), Blockwise: true, Queue: 16, MaxMsg: mm.Draw(t, "cmax")}
	sc.Srv = pairsim.EndCfg{SZX: rapid.IntRange(0, 7).Draw(t, "sszx"), Blockwise: true, Queue: 16, MaxMsg: mm.Draw(t, "smax")}
	sc.Stream = memnet.StreamCfg{SegsAB: rapid.SliceOfN(rapid.IntRange(1, 700), 0, 4).Draw(t, "segsAB"), SegsBA: rapid.SliceOfN(rapid.IntRange(1, 700), 0, 4).Draw(t, "segsBA")}
	// either endpoint may be a connection created by a server (dtls.NewServer / tcp.NewServer)
	if rapid.IntRange(0, 2).Draw(t, "srvrole") == 0 {
		sc.Srv.Role = "server"
	}
	if rapid.IntRange(0, 3).Draw(t, "clirole") == 0 {
		sc.Cli.Role = "server"
	}
	nops := rapid.IntRange(1, 3).Draw(t, "nops")
	for i := 0; i < nops; i++ {
		op := pairsim.Op{Kind: rapid.SampledFrom([]string{"post", "put", "get"}).Draw(t, "kind"), DeadlineMs: 20000, Async: i < nops-1 && rapid.Bool().Draw(t, "async"), ETag: rapid.Bool().Draw(t, "etag")}
		sz := func(label string) int {
			return rapid.OneOf(rapid.SampledFrom([]int{0, 1, 15, 16, 17, 1023, 1024, 1025, 2047, 2048, 2049, 3072, 5000}), rapid.IntRange(0, 12000)).Draw(t, label)
		}
		if op.Kind != "get" {
			op.Up = sz("up")
		}
		op.Down = sz("down")
		if rapid.IntRange(0, 5).Draw(t, "norespq") == 0 {
			op.NoResp = rapid.SampledFrom([]int{2, 8, 16, 26, 24}).Draw(t, "noresp")
		}
		sc.Ops = append(sc.Ops, op)
	}
	return sc
}

func TestCheck(t *testing.T) {
	r := evid.New(t, "C04")
	triage := os.Getenv("VERIF_TRIAGE") != ""
	account := func(engine string) func(sc pairsim.Scenario) *evid.Failure {
		return func(sc pairsim.Scenario) *evid.Failure {
			tr := pairsim.Run(t, sc, false)
			var first *evid.Failure
			for _, f := range OracleAll(sc, tr) {
				f.Engine = engine
				switch {
				case triage:
					r.Class("triage/"+f.Key, 1)
				case r.IsKnown(f):
					r.Fail(f) // counted as a hit of an open known finding; the other rules still apply
				case first == nil:
					first = f
				}
			}
			if first != nil {
				return first
			}
			key := ""
			if multiBlock(sc) {
				b, _ := json.Marshal(sc)
				key = string(b)
			}
			d, n := completed(sc, tr)
			cls := []string{engine + "/scenarios"}
			if sc.Srv.GoPool {
				cls = append(cls, engine+"/goroutine-per-message")
			}
			if tr.Storms > 0 {
				cls = append(cls, engine+"/storms")
			}
			r.Case(engine, key, func() any { return sc }, cls...)
			r.Class(engine+"/foreign-token-blocks", int64(tr.Aliens))
			r.Class(engine+"/exchanges", int64(n))
			r.Class(engine+"/exchanges-completed", int64(d))
			return nil
		}
	}
	faulty := evid.RapidEngine("faulty", evid.RapidOpts{Quick: 10000, Thorough: 300000, Crashy: true}, genFaulty, account("faulty"))
	stream := evid.RapidEngine("stream", evid.RapidOpts{Quick: 3000, Thorough: 80000, Crashy: true}, genTCP, account("stream"))
	r.Main(evid.Meta{
		Rule:        discsim.RuleBlocks + ". Others: two library endpoints on the in-memory network in a synctest bubble. grid (fault-free): every SZX pair 0-6 x request sizes {0,1,s-1,s,s+1,2s-1,2s,2s+1,3s+5} x response sizes around the responder's block size on the datagram transport, and SZX {0,4,6,7}x{0,5,6,7} x four max-message-size pairs (BERT only with >= 1152) on the stream transport. faulty: generated SZX pairs, 1-4 (partly concurrent) POST/PUT/GET/one-way write/observe exchanges with bodies at block boundaries +-1, the responder processing messages one by one or each on a goroutine of its own, per-direction fault tapes (drop, duplicate, re-order, replay an older datagram, add a foreign-token copy of a later block) and latencies. stream: SZX 0-7 x max message sizes x read segmentations. Oracle: whatever body reaches an application or a caller equals a complete original (position-dependent pseudo-random bytes), exactly once for a successful exchange, options preserved, never 2.31 as a final response, every call returns by its deadline. receiver: one receiving BlockWise driven directly through Handle, 1-3 uploads fed block by block with the processing of a block parked inside the copy into the reassembly buffer while blocks of other uploads, duplicates of earlier blocks and the housekeeping sweep (before, around and after the expiry of the reassembly entries) run; the pool is a last-in-first-out list; oracle: what reaches the handler is exactly one upload's bytes under its token, at most once, and nothing panics or hangs. Non-trivial = at least one body needs >= 2 blocks; distinct by scenario",
		Assumptions: []string{"completion is not required by the statement; a completion rate under 95% on the fault-free grid makes the run inconclusive instead of silently vacuous", "a call that returns a response with an error status (e.g. 4.08) counts as ended with an error", "the library never advertises Block-Wise-Transfer in its CSM, so on the stream transport a peer that does is modelled by a CSM frame placed on the stream before each endpoint starts"},
		Floor:       300,
	}, gridEngine(t), faulty, stream, receiverEngine(t, r), discsim.Engine(r, "blocks", 6, 120))
}
