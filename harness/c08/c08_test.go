// C08 — observers only ever see a resource move forward in time.
package c08

import (
	"context"
	"encoding/json"
	"fmt"
	"sync"
	"testing"
	"time"

	"github.com/plgd-dev/go-coap/v3/message"
	"github.com/plgd-dev/go-coap/v3/message/pool"
	"github.com/plgd-dev/go-coap/v3/net/observation"
	"github.com/plgd-dev/go-coap/v3/options"
	tcpClient "github.com/plgd-dev/go-coap/v3/tcp/client"
	udpClient "github.com/plgd-dev/go-coap/v3/udp/client"
	"pgregory.net/rapid"

	"verif/bubble"
	"verif/endpoints"
	"verif/evid"
	"verif/memnet"
	"verif/peer"
	"verif/refcodec"
	"verif/roles"
	"verif/wire"
)

// ---- RFC 7641 section 3.4, written out independently ------------------------------------------
//
// An incoming notification (V2, T2) is fresher than the freshest one received so far (V1, T1) iff
//   (V1 < V2 and V2 - V1 < 2^23) or (V1 > V2 and V1 - V2 > 2^23) or (T2 > T1 + 128 seconds).

func specFresh(v1, v2 uint32, dt time.Duration) bool {
	a, b := int64(v1), int64(v2)
	return (a < b && b-a < 1<<23) || (a > b && a-b > 1<<23) || dt > 128*time.Second
}

type gridCase struct {
	V1   uint32 `json:"v1"`
	V2   uint32 `json:"v2"`
	DtNs int64  `json:"dtNs"`
}

func execGrid(c gridCase) *evid.Failure {
	base := time.Unix(1_700_000_000, 0)
	got := observation.ValidSequenceNumber(c.V1, c.V2, base, base.Add(time.Duration(c.DtNs)))
	if want := specFresh(c.V1, c.V2, time.Duration(c.DtNs)); got != want {
		return evid.Failf("grid/valid-sequence-number", c, "ValidSequenceNumber(%d, %d, dt=%v) = %v, RFC 7641 3.4 says %v", c.V1, c.V2, time.Duration(c.DtNs), got, want)
	}
	return nil
}

func gridEngine() evid.Engine {
	return evid.Engine{Name: "grid",
		Replay: func(raw json.RawMessage) *evid.Failure {
			var c gridCase
			if err := json.Unmarshal(raw, &c); err != nil {
				return &evid.Failure{Key: "replay/decode", Msg: err.Error()}
			}
			return evid.SafeExec("grid", execGrid, c)
		},
		Search: func(r *evid.Run) {
			vals := []uint32{0, 1, 2, 1<<23 - 2, 1<<23 - 1, 1 << 23, 1<<23 + 1, 1<<23 + 2, 1<<24 - 2, 1<<24 - 1, 5, 1000, 1 << 22, 3 << 22}
			// sampled values
			x := uint32(r.Seed())*2654435761 + 1
			for i := 0; i < 40; i++ {
				x = x*1664525 + 1013904223
				vals = append(vals, x>>8)
			}
			s := int64(time.Second)
			dts := []int64{0, 1, s, 127 * s, 128*s - 1, 128 * s, 128*s + 1, 129 * s, 3600 * s, -s}
			var n int64
			for _, a := range vals {
				for _, b := range vals {
					for _, dt := range dts {
						r.Fail(evid.SafeExec("grid", execGrid, gridCase{a, b, dt}))
						n++
					}
				}
			}
			r.Eval(n)
			r.AddDistinct(n)
			r.Sample("grid", gridCase{1<<24 - 1, 0, 0})
			r.Sample("grid", gridCase{0, 1 << 23, 128*s + 1})
		}}
}

// ---- stream engine -----------------------------------------------------------------------------------

type Obs struct {
	Answer string `json:"answer"` // 205obs | 203obs | 205 | 404 | 500 | silence
	Seq0   uint32 `json:"seq0"`
}

type Event struct {
	Kind      string `json:"kind"` // notify | cancel
	Obs       int    `json:"obs"`  // token owner; -1 = a token nobody registered
	Seq       uint32 `json:"seq"`
	NoObserve bool   `json:"noObserve,omitempty"`
	Con       bool   `json:"con,omitempty"`
	GapMs     int64  `json:"gapMs"`
	CancelAns string `json:"cancelAns,omitempty"` // 205 | 404 | silence
}

type Scenario struct {
	Transport string  `json:"transport"` // udp | tcp
	Obs       []Obs   `json:"obs"`
	Events    []Event `json:"events"`
	// Role: "" a client connection; "server" the connection a tcp / dtls server creates for an accepted
	// peer (the observer may be a server application)
	Role string `json:"role,omitempty"`
	// TokFam: the family the tokens of the registrations come from (see tokenOf)
	TokFam int `json:"tokFam,omitempty"`
}

type cbRec struct {
	obs     int
	payload string
	hasSeq  bool
	seq     uint32
	t       time.Duration
}

type injected struct {
	obs    int
	seq    uint32
	hasSeq bool
	t      time.Duration
	ev     int // event index, -1 for the registration response
}

// tokenOf is the token of registration i. Family 0: two bytes that differ in the second; family 1: the
// same byte followed by i zero bytes (01, 0100, 010000); family 2: i zero bytes in front of it.
func tokenOf(fam, i int) []byte {
	switch fam {
	case 1:
		return append([]byte{0x01}, make([]byte, i)...)
	case 2:
		return append(make([]byte, i), 0x01)
	}
	return []byte{0x0B, byte(i + 1)}
}

func Exec(t *testing.T, sc Scenario, r *evid.Run) *evid.Failure {
	var cbs []cbRec
	var mu sync.Mutex
	n := len(sc.Obs)
	regErr := make([]error, n)
	regDone := make([]bool, n)
	cancelReturned := make([]time.Duration, n) // -1: never cancelled
	regFailedAt := make([]time.Duration, n)
	var inj []injected
	var badWire bool
	for i := range cancelReturned {
		cancelReturned[i], regFailedAt[i] = -1, -1
	}
	res := bubble.Run(t, 60*time.Second, nil, func() {
		start := time.Now()
		var w wire.Wire
		var tk endpoints.Ticker
		tokCounter := 0
		var tokMu sync.Mutex
		getToken := func() (message.Token, error) {
			tokMu.Lock()
			defer tokMu.Unlock()
			tok := tokenOf(sc.TokFam, tokCounter)
			tokCounter++
			return tok, nil
		}
		type conn interface {
			Observe(ctx context.Context, path string, observeFunc func(*pool.Message), opts ...message.Option) (observer, error)
			Close() error
		}
		var observe func(ctx context.Context, path string, f func(*pool.Message)) (observer, error)
		var closeConn func()
		stopRole := func() {}
		if sc.Transport == "udp" {
			link := memnet.NewPacketLink(memnet.LinkCfg{LatencyMs: 1})
			cc, stop, errRole := roles.Packet(sc.Role, link, bubble.Wait, []any{
				options.WithMessagePool(pool.New(8, 2048)), options.WithPeriodicRunner(tk.Runner()),
				options.WithBlockwise(false, 6, time.Second), options.WithGetToken(getToken),
				options.WithLimitClientParallelRequest(16), options.WithLimitClientEndpointParallelRequest(16),
				options.WithTransmission(8, 2*time.Second, 2),
			}...)
			if errRole != nil {
				panic(errRole)
			}
			stopRole = stop
			w = wire.UDP(link)
			observe = func(ctx context.Context, path string, f func(*pool.Message)) (observer, error) {
				return cc.Observe(ctx, path, f)
			}
			closeConn = func() { _ = cc.Close() }
			_ = udpClient.ExchangeLifetime
		} else {
			link := memnet.NewStreamLink(memnet.StreamCfg{})
			cc, stop, err := roles.Stream(sc.Role, link, bubble.Wait, []any{
				options.WithMessagePool(pool.New(8, 2048)), options.WithPeriodicRunner(tk.Runner()),
				options.WithBlockwise(false, 6, time.Second), options.WithGetToken(getToken),
				options.WithLimitClientParallelRequest(16), options.WithLimitClientEndpointParallelRequest(16),
				options.WithCloseSocket(),
			}...)
			if err != nil {
				panic(err)
			}
			stopRole = stop
			w = wire.TCP(link)
			observe = func(ctx context.Context, path string, f func(*pool.Message)) (observer, error) {
				return cc.Observe(ctx, path, f)
			}
			closeConn = func() { _ = cc.Close(); _ = link.B.Close() }
			_ = tcpClient.DefaultConfig
		}
		bubble.Wait()
		_ = w.FromLib() // CSM on streams
		nextMID := 40000
		observers := make([]observer, n)
		// ---- registrations, one after the other
		for i, o := range sc.Obs {
			i, o := i, o
			ctx, cancel := context.WithTimeout(context.Background(), 5*time.Second)
			go func() {
				defer cancel()
				ob, err := observe(ctx, fmt.Sprintf("/o%d", i), func(m *pool.Message) {
					rec := cbRec{obs: i, t: time.Since(start)}
					b, _ := m.ReadBody()
					rec.payload = string(b)
					if s, err := m.Observe(); err == nil {
						rec.hasSeq, rec.seq = true, s
					}
					mu.Lock()
					cbs = append(cbs, rec)
					mu.Unlock()
				})
				mu.Lock()
				regErr[i], regDone[i] = err, true
				if err == nil {
					observers[i] = ob
				}
				if err != nil {
					regFailedAt[i] = time.Since(start)
				}
				mu.Unlock()
			}()
			bubble.Wait()
			var req *refcodec.Msg
			for _, m := range w.FromLib() {
				if m.Code == 1 && string(m.Token) == string(tokenOf(sc.TokFam, i)) {
					mm := m
					req = &mm
				}
			}
			if req == nil {
				time.Sleep(6 * time.Second)
				bubble.Wait()
				continue
			}
			code, withObs := 69, false
			switch o.Answer {
			case "205obs":
				withObs = true
			case "203obs":
				code, withObs = 67, true
			case "205":
			case "404":
				code = 132
			case "500":
				code = 160
			case "silence":
				time.Sleep(6 * time.Second)
				bubble.Wait()
				continue
			}
			var opts []refcodec.Opt
			if withObs {
				opts = append(opts, peer.Opt(6, peer.UintBytes(o.Seq0&0xffffff)))
			}
			mu.Lock()
			inj = append(inj, injected{obs: i, seq: o.Seq0 & 0xffffff, hasSeq: withObs, t: time.Since(start), ev: -1})
			mu.Unlock()
			w.ToLib(wire.Respond(w, *req, code, opts, []byte(fmt.Sprintf("R%d", i)), &nextMID))
			bubble.Wait()
		}
		// ---- the notification stream
		for k, e := range sc.Events {
			if e.GapMs > 0 {
				time.Sleep(time.Duration(e.GapMs) * time.Millisecond)
			}
			bubble.Wait()
			switch e.Kind {
			case "notify":
				tok := []byte{0x7f, 0x7f, 0x7f}
				if e.Obs >= 0 && e.Obs < n {
					tok = tokenOf(sc.TokFam, e.Obs)
				}
				m := refcodec.Msg{Code: 69, Token: tok, Payload: []byte(fmt.Sprintf("N%d.%d", e.Obs, k))}
				if !e.NoObserve {
					m.Opts = append(m.Opts, peer.Opt(6, peer.UintBytes(e.Seq&0xffffff)))
				}
				if w.Datagram() {
					nextMID++
					m.MID = nextMID & 0xffff
					m.Type = peer.NON
					if e.Con {
						m.Type = peer.CON
					}
				}
				mu.Lock()
				inj = append(inj, injected{obs: e.Obs, seq: e.Seq & 0xffffff, hasSeq: !e.NoObserve, t: time.Since(start), ev: k})
				mu.Unlock()
				w.ToLib(m)
				bubble.Wait()
				_ = w.FromLib()
			case "cancel":
				i := e.Obs
				if i < 0 || i >= n {
					continue
				}
				mu.Lock()
				ob := observers[i]
				already := cancelReturned[i] >= 0
				mu.Unlock()
				if ob == nil || already {
					continue
				}
				ctx, cancel := context.WithTimeout(context.Background(), 3*time.Second)
				done := make(chan struct{})
				go func() {
					defer cancel()
					_ = ob.Cancel(ctx)
					mu.Lock()
					cancelReturned[i] = time.Since(start)
					mu.Unlock()
					close(done)
				}()
				bubble.Wait()
				for _, m := range w.FromLib() {
					if m.Code == 1 && string(m.Token) == string(tokenOf(sc.TokFam, i)) && e.CancelAns != "silence" {
						code := 69
						if e.CancelAns == "404" {
							code = 132
						}
						w.ToLib(wire.Respond(w, m, code, nil, []byte("C"), &nextMID))
					}
				}
				bubble.Wait()
				select {
				case <-done:
				default:
					time.Sleep(4 * time.Second)
					bubble.Wait()
				}
			}
		}
		bubble.Wait()
		badWire = w.Bad()
		closeConn()
		stopRole()
		bubble.Wait()
	})
	if res.Panic != "" {
		return evid.Failf("observe/panic", sc, "panic in scenario: %s", res.Panic)
	}
	if res.Deadlock {
		return evid.Failf("observe/deadlock", sc, "all goroutines blocked while the scenario was still running")
	}
	r.Class("teardown_leaks", b2i(res.Leaked))
	if badWire {
		return evid.Failf("observe/garbage-on-wire", sc, "the client wrote undecodable bytes")
	}
	// ---- oracle -------------------------------------------------------------------------------------
	for i, o := range sc.Obs {
		if !regDone[i] {
			return evid.Failf("observe/registration-hangs", sc, "registration %d has not returned 1 s after its 5 s deadline", i)
		}
		ok := o.Answer == "205obs" || o.Answer == "203obs" || o.Answer == "205"
		if ok != (regErr[i] == nil) {
			return evid.Failf("observe/registration-result", sc, "registration %d answered with %q returned err=%v", i, o.Answer, regErr[i])
		}
	}
	type state struct {
		has bool
		seq uint32
		t   time.Duration
	}
	st := make([]state, n)
	delivered := map[string]bool{}
	for _, c := range cbs {
		delivered[fmt.Sprintf("%d|%s", c.obs, c.payload)] = true
		// own token only: the payload names the token owner
		var owner, ev int
		if _, err := fmt.Sscanf(c.payload, "N%d.%d", &owner, &ev); err == nil {
			if owner != c.obs {
				return evid.Failf("observe/foreign-notification", sc, "the callback of observation %d received %q, a notification for token owner %d", c.obs, c.payload, owner)
			}
		} else if _, err := fmt.Sscanf(c.payload, "R%d", &owner); err == nil {
			if owner != c.obs {
				return evid.Failf("observe/foreign-notification", sc, "the callback of observation %d received the registration response %q of observation %d", c.obs, c.payload, owner)
			}
		} else {
			return evid.Failf("observe/unknown-delivery", sc, "the callback of observation %d received %q, which the peer never sent as a notification", c.obs, c.payload)
		}
		// nothing after cancellation returned / registration failed
		for _, in := range inj {
			if in.obs == c.obs && fmt.Sprintf("N%d.%d", in.obs, in.ev) == c.payload {
				if cr := cancelReturned[c.obs]; cr >= 0 && in.t > cr {
					return evid.Failf("observe/delivered-after-cancel", sc, "observation %d: %q was injected at %v, after Cancel had returned at %v, and reached the callback", c.obs, c.payload, in.t, cr)
				}
				if rf := regFailedAt[c.obs]; rf >= 0 && in.t > rf {
					return evid.Failf("observe/delivered-after-failed-registration", sc, "observation %d: %q was injected at %v, after the registration had failed at %v, and reached the callback", c.obs, c.payload, in.t, rf)
				}
			}
		}
		// freshness w.r.t. the last sequenced notification delivered to this callback
		if c.hasSeq {
			s := &st[c.obs]
			if s.has && !specFresh(s.seq, c.seq, c.t-s.t) {
				return evid.Failf("observe/stale-delivered", sc, "observation %d: %q (seq %d at %v) was delivered although the last delivered notification had seq %d at %v: not fresher by RFC 7641 3.4", c.obs, c.payload, c.seq, c.t, s.seq, s.t)
			}
			s.has, s.seq, s.t = true, c.seq, c.t
		}
	}
	// restricted completeness: fresher than everything injected before, live observation => delivered
	for _, in := range inj {
		if in.ev < 0 || in.obs < 0 || in.obs >= n || !in.hasSeq || regErr[in.obs] != nil {
			continue
		}
		if sc.Obs[in.obs].Answer == "205" {
			continue // the server does not support observe: the library drops the registration
		}
		if cr := cancelReturned[in.obs]; cr >= 0 {
			continue // cancelled at some point: not asserted (the cancel exchange reuses the token)
		}
		must := true
		for _, e := range inj {
			if e.obs == in.obs && e.hasSeq && e.t <= in.t && e != in {
				if !specFresh(e.seq, in.seq, in.t-e.t) {
					must = false
				}
			}
		}
		if must && !delivered[fmt.Sprintf("%d|N%d.%d", in.obs, in.obs, in.ev)] {
			return evid.Failf("observe/fresh-not-delivered", sc, "observation %d: notification N%d.%d (seq %d at %v) is fresher than everything sent before on a live observation but never reached the callback", in.obs, in.obs, in.ev, in.seq, in.t)
		}
	}
	return nil
}

type observer interface {
	Cancel(ctx context.Context, opts ...message.Option) error
	Canceled() bool
}

func b2i(b bool) int64 {
	if b {
		return 1
	}
	return 0
}

var seqVals = []uint32{0, 1, 2, 3, 5, 10, 1<<23 - 1, 1 << 23, 1<<23 + 1, 1<<24 - 2, 1<<24 - 1, 100, 1<<23 + 100}

func gen(t *rapid.T) Scenario {
	sc := Scenario{Transport: rapid.SampledFrom([]string{"udp", "tcp"}).Draw(t, "transport")}
	if rapid.IntRange(0, 2).Draw(t, "role") == 0 {
		sc.Role = "server"
	}
	sc.TokFam = rapid.SampledFrom([]int{0, 0, 1, 2}).Draw(t, "tokfam")
	n := rapid.IntRange(1, 3).Draw(t, "nobs")
	for i := 0; i < n; i++ {
		sc.Obs = append(sc.Obs, Obs{
			Answer: rapid.SampledFrom([]string{"205obs", "205obs", "205obs", "203obs", "205", "404", "500", "silence"}).Draw(t, "answer"),
			Seq0:   rapid.SampledFrom(seqVals).Draw(t, "seq0"),
		})
	}
	m := rapid.IntRange(1, 14).Draw(t, "nev")
	base := rapid.SampledFrom(seqVals).Draw(t, "base")
	if rapid.IntRange(0, 5).Draw(t, "backlog") == 0 {
		// a long delayed series: one notification far ahead, then 8-80 older ones in their own
		// (increasing) order, milliseconds apart - a backlog that a slow path delivers late
		o := rapid.IntRange(0, n-1).Draw(t, "bobs")
		k := rapid.IntRange(8, 80).Draw(t, "blen")
		step := rapid.SampledFrom([]int{1, 1, 2, 7}).Draw(t, "bstep")
		sc.Events = append(sc.Events, Event{Kind: "notify", Obs: o, Seq: (base + uint32(k*step+3)) & 0xffffff, GapMs: 1})
		for i := 0; i < k; i++ {
			sc.Events = append(sc.Events, Event{Kind: "notify", Obs: o, Seq: (base + uint32(i*step)) & 0xffffff, GapMs: rapid.SampledFrom([]int64{0, 1, 1, 50}).Draw(t, "bgap")})
		}
	}
	for k := 0; k < m; k++ {
		e := Event{Kind: "notify", Obs: rapid.IntRange(-1, n-1).Draw(t, "obs")}
		if rapid.IntRange(0, 9).Draw(t, "iscancel") == 0 {
			e.Kind = "cancel"
			e.Obs = rapid.IntRange(0, n-1).Draw(t, "cobs")
			e.CancelAns = rapid.SampledFrom([]string{"205", "205", "404", "silence"}).Draw(t, "cans")
		} else {
			switch rapid.IntRange(0, 3).Draw(t, "seqkind") {
			case 0: // around a base value: permutations, duplicates
				e.Seq = (base + uint32(rapid.IntRange(-3, 6).Draw(t, "off"))) & 0xffffff
			case 1:
				e.Seq = rapid.SampledFrom(seqVals).Draw(t, "seq")
			case 2: // monotone
				e.Seq = (base + uint32(k)) & 0xffffff
			case 3:
				e.Seq = uint32(rapid.IntRange(0, 1<<24-1).Draw(t, "rseq"))
			}
			e.NoObserve = rapid.IntRange(0, 11).Draw(t, "noobs") == 0
			e.Con = rapid.IntRange(0, 3).Draw(t, "con") == 0
		}
		e.GapMs = rapid.SampledFrom([]int64{0, 1, 1, 1000, 60000, 127999, 128000, 128001, 200000}).Draw(t, "gap")
		sc.Events = append(sc.Events, e)
	}
	return sc
}

func nonTrivial(sc Scenario) bool {
	var last uint32
	first := true
	for _, e := range sc.Events {
		if e.Kind != "notify" {
			continue
		}
		if e.GapMs > 128000 {
			return true
		}
		if !first && !specFresh(last, e.Seq, 0) {
			return true // re-ordering, duplicate or wrap relative to the previous one
		}
		last, first = e.Seq, false
	}
	return false
}

func TestCheck(t *testing.T) {
	r := evid.New(t, "C08")
	eng := evid.RapidEngine("stream", evid.RapidOpts{Quick: 12000, Thorough: 300000, Crashy: true}, gen, func(sc Scenario) *evid.Failure {
		f := Exec(t, sc, r)
		if f == nil {
			key := ""
			if nonTrivial(sc) {
				b, _ := json.Marshal(sc)
				key = string(b)
			}
			r.Case("stream", key, func() any { return sc }, "stream/transport="+sc.Transport)
		}
		return f
	})
	r.Main(evid.Meta{
		Rule:        "grid: ValidSequenceNumber over {0,1,2,2^23-2..2^23+2,2^24-2,2^24-1,...}^2 x time differences around 128 s against RFC 7641 3.4 written out independently. stream: a client connection (datagram and stream, in a synctest bubble) registers 1-3 observations answered with 2.05+Observe / 2.03+Observe / 2.05 without Observe / 4.04 / 5.00 / silence, then receives a generated notification stream (sequence numbers around a base with permutations and duplicates, around 0 / 2^23 / 2^24-1, random, and in a sixth of the cases a backlog of 8-80 older notifications in increasing order behind one that is far ahead; virtual inter-arrival times 0..200 s incl. 127.999/128/128.001 s; own, other and unknown tokens; NON and CON) with Cancel (answered, refused, timed out) at generated positions; oracle: per-observation model of the last delivered (seq, time): every sequenced delivery must be fresher by 3.4; own token only; registration succeeds iff 2.05/2.03; nothing injected after Cancel returned / registration failed is delivered; a notification fresher than everything sent before on a live observation is delivered. Non-trivial = stream with a re-ordering, duplicate, wrap or > 128 s gap; distinct by scenario. blockwise: observation together with block-wise notification bodies - two library endpoints (pairsim) on an in-memory datagram network with latencies 1-40 ms and per-direction fault tapes (drop, duplicate, hold back, replay), 1-2 observations with 1-5 notifications of 5 bytes to 4 blocks sent 20 ms apart (transfers overlap later notifications, the resource changes during a transfer); the server sends every notification with an Observe option; oracle: every delivery to a callback carries a sequence number and the numbers strictly increase; non-trivial = a notification body of several blocks and at least one notification delivered",
		Assumptions: []string{"notifications without an Observe option are not constrained by the freshness rule", "the scripted-peer engine generates no block-wise notifications; engine blockwise does, between two library endpoints, and asserts the order of the sequence numbers only (the bodies are C04's subject)"},
		Floor:       300,
	}, gridEngine(), eng, pairEngine(t, r))
}
