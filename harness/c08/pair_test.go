package c08

import (
	"encoding/json"
	"testing"
	"time"

	"pgregory.net/rapid"

	"verif/evid"
	"verif/memnet"
	"verif/pairsim"
)

// Engine "blockwise": observation together with a second feature - notifications whose bodies need
// several blocks (RFC 7959 2.6: the first block is the notification, the rest is fetched with GETs),
// between two library endpoints on the in-memory network (pairsim), with latencies that make
// transfers overlap later notifications, resources that change during a transfer (the ETag changes,
// the transfer starts afresh) and a network that duplicates, delays and loses datagrams.
//
// The server application sends every notification with an Observe option. Oracle: every notification
// that reaches the callback carries one, and the sequence numbers seen by one callback strictly
// increase (all times here are far below 128 s and the numbers far below 2^23, so "fresher by RFC 7641
// 3.4" is "greater"). A reassembled notification that lost its sequence number on the way cannot
// have been judged and counts as a violation.
func genPair(t *rapid.T) pairsim.Scenario {
	sc := pairsim.Scenario{Transport: "udp", TickMs: 500, SettleMs: 20000}
	sc.Cli = pairsim.EndCfg{SZX: rapid.IntRange(0, 3).Draw(t, "cszx"), Blockwise: true, Queue: 16, AckTimeoutMs: 1000, MaxRetransmit: 3}
	sc.Srv = pairsim.EndCfg{SZX: rapid.IntRange(0, 3).Draw(t, "sszx"), Blockwise: true, Queue: 16, AckTimeoutMs: 1000, MaxRetransmit: 3}
	fault := func(label string) []memnet.Fault {
		var fs []memnet.Fault
		for i, n := 0, rapid.IntRange(0, 3).Draw(t, label+"n"); i < n; i++ {
			fs = append(fs, memnet.Fault{At: rapid.IntRange(0, 20).Draw(t, label+"at"), Kind: rapid.SampledFrom([]string{"drop", "dup", "hold", "hold", "replay"}).Draw(t, label+"kind"), Arg: rapid.IntRange(1, 4).Draw(t, label+"arg")})
		}
		return fs
	}
	sc.Link = memnet.LinkCfg{LatencyMs: rapid.SampledFrom([]int{1, 5, 15, 40}).Draw(t, "lat"), FaultsAB: fault("ab"), FaultsBA: fault("ba"), Budget: 600}
	ss := 16 << sc.Srv.SZX
	n := rapid.IntRange(1, 2).Draw(t, "nobs")
	for i := 0; i < n; i++ {
		sc.Ops = append(sc.Ops, pairsim.Op{Kind: "observe", DeadlineMs: 15000, Async: i < n-1,
			Down:     rapid.SampledFrom([]int{3, ss - 1, 2*ss + 1}).Draw(t, "down"),
			Notifs:   rapid.IntRange(1, 5).Draw(t, "notifs"),
			NotifLen: rapid.SampledFrom([]int{5, ss, ss + 1, 2*ss + 1, 4*ss + 3}).Draw(t, "nlen")})
	}
	sc.Ops = append(sc.Ops, pairsim.Op{Kind: "sleep", Ms: 3000})
	return sc
}

func pairEngine(t *testing.T, r *evid.Run) evid.Engine {
	return evid.RapidEngine("blockwise", evid.RapidOpts{Quick: 2500, Thorough: 60000, Crashy: true}, genPair, func(sc pairsim.Scenario) *evid.Failure {
		tr := pairsim.Run(t, sc, false)
		if tr.Panic != "" {
			return evid.Failf("observe-bw/panic", sc, "panic: %s", tr.Panic)
		}
		if tr.Deadlock {
			return evid.Failf("observe-bw/deadlock", sc, "all goroutines blocked while the scenario was still running")
		}
		multi, delivered := false, 0
		for i, op := range sc.Ops {
			if op.Kind != "observe" {
				continue
			}
			last, lastT := int64(-1), time.Duration(0)
			for k, n := range tr.Ops[i].Notifs {
				if n.Code < 64 || n.Code >= 96 {
					continue
				}
				delivered++
				if n.Seq < 0 {
					return evid.Failf("observe-bw/delivered-without-sequence-number", sc, "observation %d: delivery %d (%d bytes) reached the callback without an Observe option although the server sends every notification with one: it was delivered without being judged against the last one delivered (seq %d)", i, k, n.BodyLen, last)
				}
				if last >= 0 && n.Seq <= last && n.T-lastT < 128*time.Second {
					return evid.Failf("observe-bw/stale-delivered", sc, "observation %d: delivery %d has sequence number %d, not fresher than the last one delivered (%d, %v earlier)", i, k, n.Seq, last, n.T-lastT)
				}
				last, lastT = n.Seq, n.T
			}
			bs := min(16<<sc.Cli.SZX, 16<<sc.Srv.SZX)
			multi = multi || (op.NotifLen > bs && op.Notifs > 0)
		}
		key := ""
		if multi && delivered > len(sc.Ops)-1 {
			b, _ := json.Marshal(sc)
			key = string(b)
		}
		r.Case("blockwise", key, func() any { return sc }, "blockwise/scenarios")
		r.Class("blockwise/deliveries", int64(delivered))
		return nil
	})
}
