// C02 — decoders are total, safe and canonicalising on arbitrary bytes.
package c02

import (
	"bytes"
	"context"
	"encoding/hex"
	"errors"
	"fmt"
	"math"

	"github.com/plgd-dev/go-coap/v3/message"
	"github.com/plgd-dev/go-coap/v3/message/codes"
	"github.com/plgd-dev/go-coap/v3/message/pool"
	tcpcoder "github.com/plgd-dev/go-coap/v3/tcp/coder"
	udpcoder "github.com/plgd-dev/go-coap/v3/udp/coder"

	"verif/codecx"
	"verif/evid"
	"verif/refcodec"
)

// Input is the scenario of every C02 engine: one byte string for one coder.
type Input struct {
	Stream bool   `json:"stream"`
	Hex    string `json:"hex"`
}

func mk(stream bool, b []byte) Input { return Input{stream, hex.EncodeToString(b)} }

type coderI interface {
	Size(m message.Message) (int, error)
	Encode(m message.Message, buf []byte) (int, error)
	Decode(buf []byte, m *message.Message) (int, error)
}

func show(b []byte) string {
	if len(b) > 40 {
		return hex.EncodeToString(b[:40]) + fmt.Sprintf("..(%d)", len(b))
	}
	return hex.EncodeToString(b)
}

// Result says how interesting the input was (for the non-triviality rule).
type Result struct {
	Accepted  bool
	ParsedAny bool
}

// Check runs every C02 oracle on one input.
func Check(in Input, wd *evid.Watchdog) (res Result, f *evid.Failure) {
	data, err := hex.DecodeString(in.Hex)
	if err != nil {
		return res, evid.Failf("harness/hex", in, "%v", err)
	}
	if wd != nil {
		wd.Enter(in)
		defer wd.Leave()
	}
	var cd coderI = udpcoder.DefaultCoder
	if in.Stream {
		cd = tcpcoder.DefaultCoder
	}
	// ---- reference
	var ref refcodec.Msg
	var refErr error
	refUsed := len(data)
	if in.Stream {
		ref, refUsed, res.ParsedAny, refErr = refcodec.ParseStream(data, codecx.StreamTableFor)
	} else {
		// the datagram table does not depend on the code
		ref, res.ParsedAny, refErr = refcodec.ParseDatagram(data, codecx.Table(false, 0))
	}
	// ---- stream header pre-parsing
	if in.Stream {
		if f := checkHeader(in, data); f != nil {
			return res, f
		}
	}
	// ---- library, direct decoder call
	var lm message.Message
	lm.Options = make(message.Options, 0, len(data)+1)
	own := append([]byte(nil), data...)
	used, libErr := cd.Decode(own, &lm)
	if f := compare(in, "direct", data, ref, refErr, refUsed, codecx.FromLib(lm), libErr, used); f != nil {
		return res, f
	}
	res.Accepted = refErr == nil
	if libErr == nil {
		// ---- canonicalisation: re-encode, decode again, encode again
		if f := canonical(in, cd, lm); f != nil {
			return res, f
		}
	}
	// ---- pooled API: fresh, recycled, recycled after SetMessage with nil / empty options
	for _, mode := range []string{"fresh", "recycled", "setmessage-nil", "setmessage-empty", "prepared"} {
		if f := pooled(in, mode, cd, data, ref, refErr, refUsed); f != nil {
			return res, f
		}
	}
	return res, nil
}

func isShort(err error) bool { return errors.Is(err, message.ErrShortRead) }

func compare(in Input, path string, data []byte, ref refcodec.Msg, refErr error, refUsed int, got refcodec.Msg, libErr error, used int) *evid.Failure {
	if in.Stream {
		// three outcomes: short read, reject, accept
		if errors.Is(refErr, refcodec.ErrShort) != isShort(libErr) {
			return evid.Failf("decode/"+path+"/short-read-disagrees", in, "reference: %v, library: %v (input %s)", refErr, libErr, show(data))
		}
	}
	if (refErr == nil) != (libErr == nil) {
		key := "accepts-invalid"
		if libErr != nil {
			key = "rejects-valid"
		}
		return evid.Failf("decode/"+path+"/"+key, in, "reference parser: %v, library: %v (input %s)", refErr, libErr, show(data))
	}
	if refErr != nil {
		return nil
	}
	if used != refUsed {
		return evid.Failf("decode/"+path+"/consumed", in, "library consumed %d bytes, reference %d of %d (input %s)", used, refUsed, len(data), show(data))
	}
	if !refcodec.Equal(ref, got, !in.Stream) {
		return evid.Failf("decode/"+path+"/fields-differ", in, "input %s\nreference %+v\nlibrary   %+v", show(data), ref, got)
	}
	return nil
}

func checkHeader(in Input, data []byte) *evid.Failure {
	rh, totalKnown, rerr := refcodec.ParseStreamHeader(data)
	var h tcpcoder.MessageHeader
	n, err := tcpcoder.DefaultCoder.DecodeHeader(append([]byte(nil), data...), &h)
	switch {
	case errors.Is(rerr, refcodec.ErrShort):
		if !isShort(err) {
			return evid.Failf("header/short-not-reported", in, "the header is incomplete, DecodeHeader returned n=%d err=%v (input %s)", n, err, show(data))
		}
	case rerr != nil: // token length 9-15
		if err == nil || isShort(err) {
			return evid.Failf("header/invalid-tkl-accepted", in, "token length nibble > 8 must be refused, DecodeHeader returned n=%d err=%v (input %s)", n, err, show(data))
		}
	default:
		if err != nil {
			return evid.Failf("header/valid-refused", in, "DecodeHeader refused a complete valid header: %v (input %s)", err, show(data))
		}
		if n != rh.HeaderLen || int(h.Length) != rh.HeaderLen || int(h.Code) != rh.Code || !bytes.Equal(h.Token, rh.Token) {
			return evid.Failf("header/fields-differ", in, "DecodeHeader n=%d Length=%d Code=%d Token=%x, reference headerLen=%d code=%d token=%x", n, h.Length, h.Code, h.Token, rh.HeaderLen, rh.Code, rh.Token)
		}
	}
	if totalKnown && !errors.Is(rerr, refcodec.ErrTKL) && (err == nil || isShort(err)) {
		// The declared total length is what the session compares with the maximum message
		// size. It must be exact, or saturate at the top of the 32-bit field — never wrap.
		want := rh.Total
		if want > math.MaxUint32 {
			want = math.MaxUint32
		}
		if err == nil && uint64(h.MessageLength) != want {
			return evid.Failf("header/message-length", in, "declared total length is %d, DecodeHeader reports MessageLength=%d (input %s)", rh.Total, h.MessageLength, show(data))
		}
	}
	return nil
}

func canonical(in Input, cd coderI, lm message.Message) *evid.Failure {
	size, err := cd.Size(lm)
	if err != nil {
		return evid.Failf("canonical/size", in, "accepted message cannot be sized for re-encoding: %v", err)
	}
	buf := make([]byte, size)
	n, err := cd.Encode(lm, buf)
	if err != nil || n != size {
		return evid.Failf("canonical/encode", in, "accepted message cannot be re-encoded: n=%d size=%d err=%v", n, size, err)
	}
	var m2 message.Message
	m2.Options = make(message.Options, 0, len(lm.Options)+1)
	used, err := cd.Decode(append([]byte(nil), buf...), &m2)
	if err != nil || used != size {
		return evid.Failf("canonical/redecode", in, "Decode(Encode(decoded)) failed: used=%d size=%d err=%v (%s)", used, size, err, show(buf))
	}
	if !refcodec.Equal(codecx.FromLib(lm), codecx.FromLib(m2), !in.Stream) {
		return evid.Failf("canonical/not-idempotent", in, "Decode(Encode(decoded)) != decoded:\n first  %+v\n second %+v", codecx.FromLib(lm), codecx.FromLib(m2))
	}
	buf2 := make([]byte, size)
	n2, err := cd.Encode(m2, buf2)
	if err != nil || n2 != size || !bytes.Equal(buf, buf2) {
		return evid.Failf("canonical/encode-not-stable", in, "Encode is not stable on its own output: %s vs %s (err %v)", show(buf), show(buf2), err)
	}
	// and the canonical bytes are the reference encoder's
	var want []byte
	if in.Stream {
		want, err = refcodec.EncodeStream(codecx.FromLib(lm))
	} else {
		want, err = refcodec.EncodeDatagram(codecx.FromLib(lm))
	}
	if err == nil && !bytes.Equal(want, buf) {
		return evid.Failf("canonical/not-canonical", in, "re-encoding %s differs from the canonical form %s", show(buf), show(want))
	}
	return nil
}

func snapshot(pm *pool.Message) refcodec.Msg {
	got := refcodec.Msg{Code: int(pm.Code()), Token: append([]byte(nil), pm.Token()...), Type: int(pm.Type()), MID: int(pm.MessageID())}
	for _, o := range pm.Options() {
		got.Opts = append(got.Opts, refcodec.Opt{Num: int(o.ID), Val: append([]byte(nil), o.Value...)})
	}
	b, _ := pm.ReadBody()
	got.Payload = append([]byte(nil), b...)
	return got
}

func pooled(in Input, mode string, cd coderI, data []byte, ref refcodec.Msg, refErr error, refUsed int) *evid.Failure {
	p := pool.New(4, 1024)
	var pm *pool.Message
	switch mode {
	case "fresh":
		pm = pool.NewMessage(context.Background())
	case "recycled":
		first := p.AcquireMessage(context.Background())
		// a previous life with different content
		prev, _ := refcodec.EncodeDatagram(refcodec.Msg{Code: 2, MID: 7, Token: []byte{9, 9, 9, 9, 9, 9, 9, 9}, Opts: []refcodec.Opt{{Num: 11, Val: []byte("previous")}, {Num: 60, Val: []byte{1, 2}}}, Payload: bytes.Repeat([]byte{0x77}, 300)})
		_, _ = first.UnmarshalWithDecoder(udpcoder.DefaultCoder, prev)
		p.ReleaseMessage(first)
		pm = p.AcquireMessage(context.Background())
	case "prepared":
		// entry points in another order: the destination was given a token, a code, a type and a
		// message ID before the datagram is decoded into it (the library does so itself when it
		// answers a duplicate from its response cache); the decoded message does not depend on them
		pm = p.AcquireMessage(context.Background())
		pm.SetToken(message.Token{0xde, 0xad, 0xbe, 0xef})
		pm.SetCode(codes.Content)
		pm.SetType(message.Confirmable)
		pm.SetMessageID(7)
	case "setmessage-nil", "setmessage-empty":
		first := p.AcquireMessage(context.Background())
		m := message.Message{Code: codes.Content, Token: message.Token{1}, Payload: []byte("app")}
		if mode == "setmessage-empty" {
			m.Options = message.Options{}
		}
		first.SetMessage(m)
		p.ReleaseMessage(first)
		pm = p.AcquireMessage(context.Background())
	}
	wire := append([]byte(nil), data...)
	used, err := pm.UnmarshalWithDecoder(cd, wire)
	var got refcodec.Msg
	if err == nil {
		got = snapshot(pm)
		if !in.Stream {
			// type/MID are only meaningful for datagrams
		} else {
			got.Type, got.MID = 0, 0
		}
	}
	if f := compare(in, "pool-"+mode, data, ref, refErr, refUsed, got, err, used); f != nil {
		return f
	}
	if err != nil {
		return nil
	}
	// aliasing: the caller may reuse its receive buffer
	for i := range wire {
		wire[i] = 0xAA
	}
	after := snapshot(pm)
	if in.Stream {
		after.Type, after.MID = 0, 0
	}
	if !refcodec.Equal(got, after, !in.Stream) {
		return evid.Failf("alias/pool-"+mode, in, "overwriting the receive buffer changed the decoded message:\n before %+v\n after  %+v", got, after)
	}
	return nil
}
