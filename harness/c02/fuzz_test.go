package c02

import (
	"encoding/hex"
	"encoding/json"
	"os"
	"path/filepath"
	"testing"

	"verif/refcodec"
)

// FuzzDecode is the native coverage-guided target of the thorough tier. The oracle (Check) is
// inside the target; a failing input is also written as an ordinary replay file.
func FuzzDecode(f *testing.F) {
	seeds := []refcodec.Msg{
		{Type: 0, MID: 1, Code: 1, Token: []byte{1, 2}, Opts: []refcodec.Opt{{Num: 11, Val: []byte("a")}, {Num: 11, Val: []byte("b")}, {Num: 12, Val: []byte{42}}}, Payload: []byte("hello")},
		{Type: 2, MID: 65535, Code: 69, Token: []byte{1, 2, 3, 4, 5, 6, 7, 8}, Opts: []refcodec.Opt{{Num: 6, Val: []byte{1}}, {Num: 23, Val: []byte{0x0e}}, {Num: 65000, Val: make([]byte, 300)}}, Payload: make([]byte, 20)},
		{Code: 225, Token: []byte{9}, Opts: []refcodec.Opt{{Num: 2, Val: []byte{4, 0}}, {Num: 4}}},
	}
	for _, m := range seeds {
		d, _ := refcodec.EncodeDatagram(m)
		s, _ := refcodec.EncodeStream(m)
		f.Add(d, false)
		f.Add(s, true)
	}
	for _, h := range []string{"40", "4000000e10", "f0fffffffa00ff", "0d00", "000000", "49011234aabbccddeeff001122", "4001123400", "40011234ff", "d1e1ff", "f0ffffffff"} {
		b, _ := hex.DecodeString(h)
		f.Add(b, false)
		f.Add(b, true)
	}
	f.Fuzz(func(t *testing.T, data []byte, stream bool) {
		if len(data) > 70000 {
			return
		}
		in := mk(stream, data)
		if _, fail := Check(in, nil); fail != nil {
			if dir := os.Getenv("VERIF_FUZZ_OUT"); dir != "" {
				b, _ := json.MarshalIndent(map[string]any{"property": "C02", "engine": "mutation", "key": fail.Key, "msg": fail.Msg, "scenario": in}, "", " ")
				_ = os.WriteFile(filepath.Join(dir, "fuzz-violation.json"), b, 0o644)
			}
			t.Fatalf("%s: %s", fail.Key, fail.Msg)
		}
	})
}
