package c02

import (
	"encoding/binary"
	"encoding/hex"
	"encoding/json"
	"runtime"
	"sync"
	"testing"
	"time"

	"pgregory.net/rapid"

	"verif/codecx"
	"verif/evid"
	"verif/refcodec"
)

func ntKey(in Input, res Result) string {
	if res.Accepted || res.ParsedAny {
		return in.Hex
	}
	return ""
}

func execInput(r *evid.Run, engine string, wd *evid.Watchdog) func(Input) *evid.Failure {
	return func(in Input) *evid.Failure {
		res, f := Check(in, wd)
		if f == nil && r != nil {
			cls := engine + "/rejected"
			if res.Accepted {
				cls = engine + "/accepted"
			}
			r.Case(engine, ntKey(in, res), func() any { return in }, cls)
		}
		return f
	}
}

// ---- (1) exhaustive short strings over a structure-relevant alphabet ------------------------

var alphabet = []byte{0x00, 0x01, 0x0d, 0x0e, 0x0f, 0x10, 0x40, 0x41, 0x48, 0x49, 0xd1, 0xe1, 0xf0, 0xff}

var udpPrefixes = []string{"", "40", "4001", "400112", "40011234", "41011234", "42011234", "48011234", "49011234", "4f011234",
	"00011234", "80011234", "c0011234", "50451234", "60000000", "70000000", "6045ffff", "44e1fffe"}

func enumerate(prefix []byte, maxLen int, shard, shards int, f func([]byte) bool) {
	buf := make([]byte, len(prefix)+maxLen)
	copy(buf, prefix)
	var rec func(depth int) bool
	count := 0
	rec = func(depth int) bool {
		count++
		if count%shards == shard {
			if !f(buf[:len(prefix)+depth]) {
				return false
			}
		}
		if depth == maxLen {
			return true
		}
		for _, a := range alphabet {
			buf[len(prefix)+depth] = a
			if !rec(depth + 1) {
				return false
			}
		}
		return true
	}
	rec(0)
}

func exhaustiveEngine() evid.Engine {
	return evid.Engine{Name: "exhaustive",
		Replay: replayInput("exhaustive"),
		Search: func(r *evid.Run) {
			L := 4 // tail length for datagram prefixes; stream strings are one longer
			if r.Thorough() {
				L = 5
			}
			shards := runtime.GOMAXPROCS(0)
			var wg sync.WaitGroup
			for k := 0; k < shards; k++ {
				wg.Add(1)
				go func(k int) {
					defer wg.Done()
					wd := r.StartWatchdog("exhaustive", k, 60*time.Second)
					defer wd.Stop()
					ex := execInput(r, "exhaustive", wd)
					stop := false
					run := func(stream bool) func([]byte) bool {
						return func(b []byte) bool {
							if f := evid.SafeExec("exhaustive", ex, mk(stream, b)); f != nil {
								r.Fail(f)
								if !r.IsKnown(f) {
									stop = true
								}
							}
							return !stop
						}
					}
					for _, p := range udpPrefixes {
						pb, _ := hex.DecodeString(p)
						enumerate(pb, L, k, shards, run(false))
					}
					enumerate(nil, L+1, k, shards, run(true))
					// stream header: every first byte x extended-length patterns x 0..10 following bytes
					if k == 0 {
						exts := [][]byte{{}, {0}, {0xff}, {0, 0}, {0xff, 0xff}, {0, 0, 0, 0}, {0, 0, 0, 1}, {0xff, 0xff, 0xff, 0xff},
							{0xff, 0xfe, 0xfe, 0xf3}, {0xff, 0xfe, 0xfe, 0xe0}, {0xff, 0xfe, 0xfe, 0xf2}, {0xff, 0xfe, 0xff, 0x00}, {0x7f, 0xff, 0xff, 0xff}, {0x80, 0, 0, 0}}
						for fb := 0; fb < 256; fb++ {
							for _, e := range exts {
								for follow := 0; follow <= 10; follow++ {
									b := append([]byte{byte(fb)}, e...)
									for i := 0; i < follow; i++ {
										b = append(b, byte(0x45+i))
									}
									if !run(true)(b) {
										return
									}
								}
							}
						}
					}
				}(k)
			}
			wg.Wait()
			r.SetExhaustive()
			r.Note("exhaustive_subdomain", "all byte strings prefix+tail, tail length <= L over a 14-symbol alphabet, for 18 datagram prefixes and the empty stream prefix (L=4/5 quick, 5/6 thorough); all first bytes x 14 extended-length patterns x 0-10 following bytes for the stream header")
		}}
}

func replayInput(name string) func(raw json.RawMessage) *evid.Failure {
	return func(raw json.RawMessage) *evid.Failure {
		var in Input
		if err := json.Unmarshal(raw, &in); err != nil {
			return &evid.Failure{Key: "replay/decode", Msg: err.Error()}
		}
		return evid.SafeExec(name, func(in Input) *evid.Failure { _, f := Check(in, nil); return f }, in)
	}
}

// ---- (2) mutations of valid encodings -----------------------------------------------------------

var hostile = []byte{0x00, 0x0d, 0x0e, 0x0f, 0xd0, 0xe0, 0xf0, 0xff, 0xdd, 0xee, 0x4f, 0x49, 0x80}

func genMutation(t *rapid.T) Input {
	stream := rapid.Bool().Draw(t, "stream")
	m := codecx.GenMsg(t, stream)
	if len(m.Payload) > 600 {
		m.Payload = m.Payload[:rapid.IntRange(0, 600).Draw(t, "cut")]
	}
	for i := range m.Opts {
		if len(m.Opts[i].Val) > 600 {
			m.Opts[i].Val = m.Opts[i].Val[:300]
		}
	}
	var b []byte
	if stream {
		b, _ = refcodec.EncodeStream(m)
	} else {
		b, _ = refcodec.EncodeDatagram(m)
	}
	nmut := rapid.IntRange(0, 3).Draw(t, "nmut")
	for i := 0; i < nmut && len(b) > 0; i++ {
		pos := rapid.IntRange(0, len(b)-1).Draw(t, "pos")
		if rapid.Bool().Draw(t, "front") && pos > 24 {
			pos %= 24 // bias towards headers and the first options
		}
		switch rapid.IntRange(0, 6).Draw(t, "kind") {
		case 0: // truncate
			b = b[:pos]
		case 1: // bit flip
			b[pos] ^= 1 << uint(rapid.IntRange(0, 7).Draw(t, "bit"))
		case 2: // hostile constant
			b[pos] = rapid.SampledFrom(hostile).Draw(t, "hostile")
		case 3: // insert
			ins := rapid.SliceOfN(rapid.SampledFrom(hostile), 1, 4).Draw(t, "ins")
			b = append(b[:pos:pos], append(ins, b[pos:]...)...)
		case 4: // delete a byte
			b = append(b[:pos:pos], b[pos+1:]...)
		case 5: // splice: repeat a slice of itself
			end := rapid.IntRange(pos, min(len(b), pos+16)).Draw(t, "end")
			b = append(b[:end:end], b[pos:]...)
		case 6: // append trailing bytes
			b = append(b, rapid.SliceOfN(rapid.Byte(), 1, 6).Draw(t, "trail")...)
		}
	}
	return mk(stream, b)
}

// truncation at every offset of generated valid encodings
type truncCase struct {
	Stream bool         `json:"stream"`
	Msg    refcodec.Msg `json:"msg"`
}

// ---- (3) grammar with injected faults -------------------------------------------------------------

func genGrammar(t *rapid.T) Input {
	stream := rapid.Bool().Draw(t, "stream")
	var body []byte
	nopt := rapid.IntRange(0, 5).Draw(t, "nopt")
	for i := 0; i < nopt; i++ {
		dn := rapid.SampledFrom([]int{0, 1, 3, 11, 12, 13, 14, 15, 6, 4}).Draw(t, "dn")
		ln := rapid.SampledFrom([]int{0, 1, 2, 4, 8, 12, 13, 14, 15, 9}).Draw(t, "ln")
		body = append(body, byte(dn<<4|ln))
		ext := func(n int, label string) int {
			switch n {
			case 13:
				if rapid.IntRange(0, 9).Draw(t, label+"miss") == 0 {
					return -1
				}
				v := rapid.SampledFrom([]int{0, 1, 100, 255}).Draw(t, label)
				body = append(body, byte(v))
				return v + 13
			case 14:
				if rapid.IntRange(0, 9).Draw(t, label+"miss") == 0 {
					if rapid.Bool().Draw(t, label+"half") {
						body = append(body, 0)
					}
					return -1
				}
				v := rapid.SampledFrom([]int{0, 1, 300, 65535, 65266, 65000}).Draw(t, label)
				body = append(body, byte(v>>8), byte(v))
				return v + 269
			}
			return n
		}
		if ext(dn, "dext") < 0 {
			break
		}
		l := ext(ln, "lext")
		if l < 0 {
			break
		}
		if l > 400 {
			l = rapid.SampledFrom([]int{0, 1, 50}).Draw(t, "shortval") // declared long, supplied short
		} else if rapid.IntRange(0, 9).Draw(t, "valtrunc") == 0 && l > 0 {
			l--
		}
		for j := 0; j < l; j++ {
			body = append(body, byte(0x30+j%64))
		}
	}
	switch rapid.IntRange(0, 5).Draw(t, "tailkind") {
	case 0: // marker at the very end
		body = append(body, 0xff)
	case 1, 2:
		body = append(body, 0xff)
		body = append(body, rapid.SliceOfN(rapid.Byte(), 1, 20).Draw(t, "payload")...)
	case 3: // double marker
		body = append(body, 0xff, 0xff)
	}
	tkl := rapid.SampledFrom([]int{0, 1, 4, 8, 8, 9, 12, 15, 0, 2}).Draw(t, "tkl")
	tokenBytes := tkl
	if rapid.IntRange(0, 7).Draw(t, "toktrunc") == 0 && tokenBytes > 0 {
		tokenBytes = rapid.IntRange(0, tokenBytes-1).Draw(t, "tokbytes")
	}
	tok := make([]byte, tokenBytes)
	for i := range tok {
		tok[i] = byte(0xa0 + i)
	}
	code := rapid.SampledFrom([]int{0, 1, 2, 69, 95, 132, 225, 226, 227, 228, 229, 255}).Draw(t, "code")
	var out []byte
	if !stream {
		ver := rapid.SampledFrom([]int{1, 1, 1, 1, 1, 0, 2, 3}).Draw(t, "ver")
		typ := rapid.IntRange(0, 3).Draw(t, "type")
		out = []byte{byte(ver<<6 | typ<<4 | tkl), byte(code), byte(rapid.IntRange(0, 255).Draw(t, "midh")), byte(rapid.IntRange(0, 255).Draw(t, "midl"))}
		out = append(out, tok...)
		out = append(out, body...)
		return mk(false, out)
	}
	// stream: the declared length may be right, short, long, or next to 2^32
	decl := len(body)
	switch rapid.IntRange(0, 9).Draw(t, "lenfault") {
	case 0:
		decl += rapid.IntRange(1, 5).Draw(t, "more")
	case 1:
		decl -= rapid.IntRange(1, min(5, max(1, decl))).Draw(t, "less")
		if decl < 0 {
			decl = 0
		}
	case 2:
		decl = rapid.SampledFrom([]int{1<<32 - 1 + 65805 - 5, 1<<32 - 16, 1<<32 - 7, 1<<32 + 65804, 1 << 31, 70000}).Draw(t, "huge")
	}
	enc := rapid.SampledFrom([]string{"canon", "canon", "canon", "wide"}).Draw(t, "lenenc")
	switch {
	case decl < 13 && enc == "canon":
		out = []byte{byte(decl<<4 | tkl)}
	case decl < 269 && (enc == "canon" || decl < 13):
		if decl < 13 {
			out = []byte{byte(13<<4 | tkl), 0}
			// a non-canonical Len encoding cannot express < 13 with nibble 13; keep 13
		} else {
			out = []byte{byte(13<<4 | tkl), byte(decl - 13)}
		}
	case decl < 65805 && decl >= 269:
		out = []byte{byte(14<<4 | tkl), byte((decl - 269) >> 8), byte(decl - 269)}
	case decl >= 65805:
		out = []byte{byte(15<<4 | tkl), 0, 0, 0, 0}
		binary.BigEndian.PutUint32(out[1:], uint32(decl-65805))
	default:
		out = []byte{byte(13<<4 | tkl), byte(max(decl, 13) - 13)}
	}
	out = append(out, byte(code))
	out = append(out, tok...)
	out = append(out, body...)
	if rapid.IntRange(0, 5).Draw(t, "trail") == 0 {
		out = append(out, rapid.SliceOfN(rapid.Byte(), 1, 8).Draw(t, "trailing")...)
	}
	return mk(true, out)
}

func TestCheck(t *testing.T) {
	r := evid.New(t, "C02")
	wdOf := func(name string) func(Input) *evid.Failure {
		// rapid engines run sharded; one watchdog per call site is enough to attribute hangs
		wd := r.StartWatchdog(name, 99, 90*time.Second)
		ex := execInput(r, name, nil)
		return func(in Input) *evid.Failure {
			wd.Enter(in)
			defer wd.Leave()
			return ex(in)
		}
	}
	mutation := evid.RapidEngine("mutation", evid.RapidOpts{Quick: 40000, Thorough: 2000000}, genMutation, wdOf("mutation"))
	grammar := evid.RapidEngine("grammar", evid.RapidOpts{Quick: 40000, Thorough: 2000000}, genGrammar, wdOf("grammar"))
	truncation := evid.RapidEngine("truncation", evid.RapidOpts{Quick: 1500, Thorough: 60000},
		func(t *rapid.T) truncCase {
			c := truncCase{Stream: rapid.Bool().Draw(t, "stream")}
			c.Msg = codecx.GenMsg(t, c.Stream)
			if len(c.Msg.Payload) > 100 {
				c.Msg.Payload = c.Msg.Payload[:100]
			}
			for i := range c.Msg.Opts {
				if len(c.Msg.Opts[i].Val) > 300 {
					c.Msg.Opts[i].Val = c.Msg.Opts[i].Val[:300]
				}
			}
			return c
		},
		func(c truncCase) *evid.Failure {
			var b []byte
			if c.Stream {
				b, _ = refcodec.EncodeStream(c.Msg)
			} else {
				b, _ = refcodec.EncodeDatagram(c.Msg)
			}
			ex := execInput(r, "truncation", nil)
			for k := 0; k <= len(b); k++ {
				if f := ex(mk(c.Stream, b[:k])); f != nil {
					return f
				}
			}
			return nil
		})
	r.Main(evid.Meta{
		Rule:        "every input goes through both the direct decoder, stream DecodeHeader and four pooled-message modes (fresh, recycled, recycled after SetMessage with nil / empty options) and is compared with an independent RFC 7252 s.3 / RFC 8323 s.3 parser (accept/reject/short-read, all fields, bytes consumed, 64-bit declared length), then re-encoded, re-decoded and re-encoded (idempotence, canonical bytes), then the receive buffer is overwritten (aliasing). Sources: exhaustive short strings over a 14-symbol structural alphabet behind 18 datagram prefixes / as stream frames; rapid mutations of valid encodings; truncation of valid encodings at every offset; a fault-injecting grammar (nibble 15, missing extension bytes, option number overflow, TKL 9-15, marker at the end, wrong/huge declared stream lengths, trailing bytes). Non-trivial = accepted by the reference, or rejected only after at least one complete option was parsed; distinct by input bytes",
		Assumptions: []string{"refcodec transcribes RFC 7252 section 3 / RFC 8323 section 3 plus exactly the three documented leniencies", "RFC 7252 section 4.1 (an Empty message carries nothing after the message ID) is not part of the reference: the statement names section 3 and the library is lenient there", "registry numbers known only to the library's table follow the library's bounds"},
		Floor:       5000,
	}, exhaustiveEngine(), mutation, truncation, grammar)
}
