//go:build verif

// Package pairsim runs two library endpoints against each other on the in-memory network inside
// a synctest bubble, driven by a JSON scenario (configuration, fault tapes, application
// operations), and records a trace that the oracles of C04, C09, C12 and C13 evaluate.
package pairsim

import (
	"bytes"
	"context"
	"fmt"
	"io"
	"runtime"
	"strconv"
	"strings"
	"sync"
	"testing"
	"time"

	"github.com/plgd-dev/go-coap/v3/message"
	"github.com/plgd-dev/go-coap/v3/message/codes"
	"github.com/plgd-dev/go-coap/v3/message/pool"
	"github.com/plgd-dev/go-coap/v3/net/blockwise"
	"github.com/plgd-dev/go-coap/v3/net/client"
	"github.com/plgd-dev/go-coap/v3/net/responsewriter"
	"github.com/plgd-dev/go-coap/v3/options"
	"github.com/plgd-dev/go-coap/v3/options/config"
	tcpClient "github.com/plgd-dev/go-coap/v3/tcp/client"
	udpClient "github.com/plgd-dev/go-coap/v3/udp/client"

	"verif/bubble"
	"verif/endpoints"
	"verif/memnet"
	"verif/peer"
	"verif/pooltrack"
	"verif/refcodec"
	"verif/roles"
)

type EndCfg struct {
	SZX           int  `json:"szx"`
	MaxMsg        int  `json:"maxMsg"`
	Blockwise     bool `json:"blockwise"`
	Queue         int  `json:"queue"`
	PoolSize      int  `json:"poolSize"`
	NStart        int  `json:"nstart,omitempty"`
	AckTimeoutMs  int  `json:"ackTimeoutMs,omitempty"`
	MaxRetransmit int  `json:"maxRetransmit,omitempty"`
	BwTimeoutMs   int  `json:"bwTimeoutMs,omitempty"`
	Limit         int  `json:"limit,omitempty"` // parallel request limit (total and per endpoint); 0 = 16
	// GoPool (datagram): every received message is processed on a goroutine of its own
	// (WithProcessReceivedMessageFunc), so duplicates and blocks of one transfer run concurrently
	GoPool bool `json:"goPool,omitempty"`
	// Role: "" the endpoint is built by a client constructor; "server" it is the connection a
	// dtls.NewServer / tcp.NewServer creates for a peer accepted from an in-memory listener (its
	// configuration travels through the server's)
	Role string `json:"role,omitempty"`
}

// bwTimeout: 0 = the default 3 s, a negative value = a block-wise transfer timeout of exactly 0
// (documented as: state expires at the next housekeeping tick)
func bwTimeout(c EndCfg) time.Duration {
	if c.BwTimeoutMs < 0 {
		return 0
	}
	return time.Duration(def(c.BwTimeoutMs, 3000)) * time.Millisecond
}

type Op struct {
	Kind       string `json:"kind"` // post | put | get | delete | write | observe | cancelobs | ping | sleep | close | closesrv
	Up         int    `json:"up,omitempty"`
	Down       int    `json:"down,omitempty"`
	Mode       string `json:"mode,omitempty"` // server behaviour: "" (respond) | none | slow | sep
	SlowMs     int    `json:"slowMs,omitempty"`
	DeadlineMs int    `json:"deadlineMs,omitempty"`
	CancelMs   int    `json:"cancelMs,omitempty"`
	Async      bool   `json:"async,omitempty"`
	Con        bool   `json:"con,omitempty"`      // write: confirmable
	Code       int    `json:"code,omitempty"`     // write: message code (POST=2, Content=69 ...)
	Notifs     int    `json:"notifs,omitempty"`   // observe: notifications the server sends afterwards
	NotifLen   int    `json:"notifLen,omitempty"` // observe: body size of each notification
	Ref        int    `json:"ref,omitempty"`      // cancelobs: index of the observe op
	ETag       bool   `json:"etag,omitempty"`
	Ms         int    `json:"ms,omitempty"` // sleep
	// TokRef > 0 (post/put/get/delete): the request re-uses the token of operation TokRef-1 (which has
	// returned, or is still outstanding if it was started asynchronously)
	TokRef int `json:"tokRef,omitempty"`
	// PathRef > 0: the request goes to the path of operation PathRef-1 (the per-endpoint request
	// limit is keyed by the path); the operation is then told apart by a query
	PathRef int `json:"pathRef,omitempty"`
	// BodyLike > 0 (upload): the first SameFirst bytes of the body are those of operation BodyLike-1's
	// body (a retried upload of a changed document: same beginning, different rest)
	BodyLike  int `json:"bodyLike,omitempty"`
	SameFirst int `json:"sameFirst,omitempty"`
	// NoDeadline: the request's context has no deadline (context.Background with a cancel function,
	// the commonest way to call the API); DeadlineMs is ignored. The application cancels it after 25 s.
	NoDeadline bool `json:"noDeadline,omitempty"`
	// NoResp > 0 (post/put/get/delete/write): the request carries the No-Response option (RFC 7967)
	// with this value - a second feature next to block-wise bodies, separate responses, observe and the
	// limits. A response of a class the value marks as not of interest is never sent, so the call ends
	// at its deadline like one the peer never answers; the body still has to reach the handler intact.
	NoResp int `json:"noResp,omitempty"`
}

// UpBody is the request body of operation i.
func UpBody(i int, op Op) []byte {
	b := Body(i*2, op.Up)
	if op.BodyLike > 0 {
		ref := Body((op.BodyLike-1)*2, op.Up)
		copy(b[:min(op.SameFirst, len(b))], ref)
	}
	return b
}

type Scenario struct {
	Transport string           `json:"transport"` // udp | tcp
	Cli       EndCfg           `json:"cli"`
	Srv       EndCfg           `json:"srv"`
	Link      memnet.LinkCfg   `json:"link"`
	Stream    memnet.StreamCfg `json:"stream"`
	TickMs    int              `json:"tickMs"`
	Ops       []Op             `json:"ops"`
	SettleMs  int              `json:"settleMs,omitempty"` // idle time (with ticks) before the final table read-out
	// MidMs > 0: an additional read-out this long into the idle time (C13: state that must have
	// expired by the *configured* block-wise timeout)
	MidMs int `json:"midMs,omitempty"`
	// NotifHoldMs: the observe callback keeps its notification for this long before it returns (C12)
	NotifHoldMs int `json:"notifHoldMs,omitempty"`
	// PlainFollowUp: the server application answers the follow-up GETs that fetch the rest of a
	// block-wise notification without an ETag option (block 0, the notification itself, has one) - a
	// server that tags its notifications only. Without ETags on the follow-up blocks a change of the
	// resource in the middle of a transfer cannot be noticed, so generators give such scenarios at most
	// one notification per observation.
	PlainFollowUp bool `json:"plainFollowUp,omitempty"`
}

// Body is the position-dependent pseudo-random body for (seed, n): never zeros, so that a block
// placed at the wrong offset is visible.
func Body(seed, n int) []byte {
	b := make([]byte, n)
	x := uint32(seed)*2654435761 + 12345
	for i := range b {
		x = x*1664525 + 1013904223
		b[i] = byte(x>>24) | 1
	}
	return b
}

type OpResult struct {
	Started, Ended time.Duration
	Returned       bool
	Err            string
	Code           int
	BodyLen        int
	BodyOK         bool // the returned body equals the body the responder supplied
	BodyWant       int
	Notifs         []NotifRec
	ObsErr         string
	HeldChanged    string // C12: the response changed while the application held it
}

type NotifRec struct {
	T       time.Duration
	Seq     int64
	BodyLen int
	BodyOK  bool
	Code    int
	Changed string // C12: the notification changed while the callback was running
	// ETagBad: the body is a complete version of the resource but the ETag option is not the one the
	// server sent that version with (C04: "with the message's other options preserved")
	ETagBad string
}

type HandlerRec struct {
	Op         int
	T          time.Duration
	Method     int
	BodyLen    int
	BodyOK     bool
	OptsOK     bool
	Token      string
	HeldChange string // C12: the request changed while the handler held it
	Side       string // "srv": request handler on the server; "cli": message that reached the client's handler
}

type Sizes struct {
	TokenHandlers, MidHandlers, ResponseCache, MidLocks, BlockwiseReceiving, BlockwiseSending, Observations, LimiterQueues int
}

type Trace struct {
	Ops            []OpResult
	Handler        []HandlerRec
	CliErrs        []string
	SrvErrs        []string
	CliSizes       Sizes
	SrvSizes       Sizes
	SizesRead      bool
	EarlyCli       Sizes // C13: tables once the wire has gone quiet after the last call returned (no expiry needed yet)
	EarlySrv       Sizes
	EarlyRead      bool
	MidCli, MidSrv Sizes
	MidRead        bool
	Leaked         bool
	Deadlock       bool
	Panic          string
	Datagrams      int
	Storms         int
	StreamStorm    bool // a stream direction exceeded its write budget (live-lock)
	Aliens         int
	TailDrops      int
	PoolViolation  []string
	PoolRecycles   int64
	PoolReleases   int64
	End            time.Duration
	Wire           []string // decoded wire log (only with Debug)
	LiveObs        int      // observations that are still registered at the end (not cancelled, registration succeeded)
}

// Debug makes Run record a decoded wire log.
var Debug bool

// conn is the part of the client API both transports share.
type conn interface {
	Do(req *pool.Message) (*pool.Message, error)
	WriteMessage(req *pool.Message) error
	NewGetRequest(ctx context.Context, path string, opts ...message.Option) (*pool.Message, error)
	NewPostRequest(ctx context.Context, path string, contentFormat message.MediaType, payload io.ReadSeeker, opts ...message.Option) (*pool.Message, error)
	NewPutRequest(ctx context.Context, path string, contentFormat message.MediaType, payload io.ReadSeeker, opts ...message.Option) (*pool.Message, error)
	NewDeleteRequest(ctx context.Context, path string, opts ...message.Option) (*pool.Message, error)
	DoObserve(req *pool.Message, observeFunc func(req *pool.Message)) (client.Observation, error)
	NewObserveRequest(ctx context.Context, path string, opts ...message.Option) (*pool.Message, error)
	Ping(ctx context.Context) error
	Close() error
	Done() <-chan struct{}
	Context() context.Context
	AcquireMessage(ctx context.Context) *pool.Message
	ReleaseMessage(m *pool.Message)
	CheckExpirations(now time.Time)
}

// alienBlock turns a datagram that carries a later block of a body (Block1 with NUM > 0, or a
// Block2 response) into the same block of a foreign exchange: other token, other message ID.
// Anything else (whose foreign copy would simply be a second, legitimate request) gives nil.
func alienBlock(data []byte) []byte {
	m, ok := peer.ParseDatagram(data)
	if !ok || len(m.Token) == 0 {
		return nil
	}
	blockNum := func(num int) (int, bool) {
		v, ok := peer.FindOpt(m, num)
		if !ok {
			return 0, false
		}
		x := 0
		for _, b := range v {
			x = x<<8 | int(b)
		}
		return x >> 4, true
	}
	n1, has1 := blockNum(27)
	_, has2 := blockNum(23)
	if !(has1 && n1 > 0) && !(has2 && m.Code >= 64) {
		return nil
	}
	m.Token = append([]byte{}, m.Token...)
	m.Token[0] ^= 0x5A
	m.MID ^= 0x4000
	out, err := refcodec.EncodeDatagram(m)
	if err != nil {
		return nil
	}
	return out
}

type snapshot struct {
	code    int
	token   string
	opts    string
	bodyLen int
	bodySum uint32
}

func snap(m *pool.Message) snapshot {
	s := snapshot{code: int(m.Code()), token: string(m.Token())}
	var sb strings.Builder
	for _, o := range m.Options() {
		fmt.Fprintf(&sb, "%d:%x;", o.ID, o.Value)
	}
	s.opts = sb.String()
	if b, err := m.ReadBody(); err == nil {
		s.bodyLen = len(b)
		for i, x := range b {
			s.bodySum = s.bodySum*31 + uint32(x) + uint32(i)
		}
	}
	return s
}

func (a snapshot) diff(b snapshot) string {
	switch {
	case a.code != b.code:
		return fmt.Sprintf("code %d -> %d", a.code, b.code)
	case a.token != b.token:
		return fmt.Sprintf("token %x -> %x", a.token, b.token)
	case a.opts != b.opts:
		return fmt.Sprintf("options %s -> %s", a.opts, b.opts)
	case a.bodyLen != b.bodyLen || a.bodySum != b.bodySum:
		return fmt.Sprintf("body (%d bytes, sum %x) -> (%d bytes, sum %x)", a.bodyLen, a.bodySum, b.bodyLen, b.bodySum)
	}
	return ""
}

func szx(i int) blockwise.SZX { return blockwise.SZX(i) }

func def(v, d int) int {
	if v == 0 {
		return d
	}
	return v
}

// Run executes the scenario. track enables the pool life-cycle monitor.
func Run(t *testing.T, sc Scenario, track bool) (tr Trace) {
	tr.Ops = make([]OpResult, len(sc.Ops))
	var mu sync.Mutex
	var cliErrs, srvErrs endpoints.Errs
	cliPool := pool.New(uint32(def(sc.Cli.PoolSize, 8)), 2048)
	srvPool := pool.New(uint32(def(sc.Srv.PoolSize, 8)), 2048)
	var cliTr, srvTr *pooltrack.Tracker
	if track {
		cliTr, srvTr = pooltrack.Attach(cliPool), pooltrack.Attach(srvPool)
	}
	res := bubble.Run(t, 120*time.Second, nil, func() {
		start := time.Now()
		var tk endpoints.Ticker
		var cli, srv conn
		var plink *memnet.PacketLink
		var streamStorm func() bool
		var sizes func() (Sizes, Sizes)

		// ---- the server application ----------------------------------------------------------------
		type obsState struct {
			stop chan struct{}
		}
		observers := map[string]*obsState{}
		var obsMu sync.Mutex
		// current representation of an observed resource: follow-up GETs of a block-wise
		// notification (RFC 7959 2.6) must be served from the state the notification announced
		type resource struct {
			version int
			body    []byte
		}
		resources := map[int]*resource{}
		etagOf := func(op, version int) []byte { return []byte{0xE8, byte(op), byte(version)} }
		serve := func(c conn, setResponse func(code codes.Code, cf message.MediaType, d io.ReadSeeker, opts ...message.Option) error, rq *pool.Message, side string) {
			before := snap(rq)
			rec := HandlerRec{Op: -1, T: time.Since(start), Method: int(rq.Code()), Token: string(rq.Token()), Side: side}
			path, _ := rq.Path()
			parts := strings.Split(strings.TrimPrefix(path, "/"), "/")
			if len(parts) == 2 && parts[0] == "t" {
				rec.Op, _ = strconv.Atoi(parts[1])
			}
			q := map[string]string{}
			if qs, err := rq.Queries(); err == nil {
				for _, kv := range qs {
					if i := strings.IndexByte(kv, '='); i > 0 {
						q[kv[:i]] = kv[i+1:]
					}
				}
			}
			if v, ok := q["i"]; ok && rec.Op >= 0 {
				rec.Op, _ = strconv.Atoi(v)
			}
			body, _ := rq.ReadBody()
			rec.BodyLen = len(body)
			up, _ := strconv.Atoi(q["u"])
			wantBody := Body(rec.Op*2, up)
			if like, _ := strconv.Atoi(q["l"]); like > 0 {
				same, _ := strconv.Atoi(q["f"])
				wantBody = UpBody(rec.Op, Op{Up: up, BodyLike: like, SameFirst: same})
			}
			rec.BodyOK = rec.Op >= 0 && bytes.Equal(body, wantBody)
			// the other options of the request must be preserved: Content-Format and the marker ETag
			rec.OptsOK = true
			if q["e"] == "1" {
				et, err := rq.ETag()
				rec.OptsOK = err == nil && bytes.Equal(et, []byte{0xEE, byte(rec.Op)})
			}
			down, _ := strconv.Atoi(q["d"])
			if side == "srv" && rec.Op >= 0 && rq.Code() >= codes.GET && rq.Code() <= codes.DELETE {
				mode := q["m"]
				if ms, _ := strconv.Atoi(q["s"]); ms > 0 {
					time.Sleep(time.Duration(ms) * time.Millisecond)
				}
				obsv, obsErr := rq.Observe()
				switch {
				case mode == "none":
				case mode == "sep":
					m := c.AcquireMessage(c.Context())
					m.SetCode(codes.Content)
					m.SetToken(rq.Token())
					m.SetType(message.NonConfirmable)
					m.SetContentFormat(message.AppOctets)
					m.SetBody(bytes.NewReader(Body(rec.Op*2+1, down)))
					_ = c.WriteMessage(m)
					c.ReleaseMessage(m)
				case obsErr == nil && obsv == 0 && rq.Code() == codes.GET:
					n, _ := strconv.Atoi(q["n"])
					nl, _ := strconv.Atoi(q["l"])
					st := &obsState{stop: make(chan struct{})}
					obsMu.Lock()
					observers[string(rq.Token())] = st
					resources[rec.Op] = &resource{0, Body(rec.Op*2+1, down)}
					obsMu.Unlock()
					_ = setResponse(codes.Content, message.AppOctets, bytes.NewReader(Body(rec.Op*2+1, down)), message.Option{ID: message.ETag, Value: etagOf(rec.Op, 0)}, message.Option{ID: message.Observe, Value: []byte{1}})
					tok := rq.Token()
					op := rec.Op
					go func() {
						for k := 0; k < n; k++ {
							select {
							case <-st.stop:
								return
							case <-c.Done():
								return
							case <-time.After(20 * time.Millisecond):
							}
							obsMu.Lock()
							resources[op] = &resource{k + 1, Body(op*1000+k+1, nl)}
							obsMu.Unlock()
							m := c.AcquireMessage(c.Context())
							m.SetCode(codes.Content)
							m.SetToken(tok)
							m.SetType(message.NonConfirmable)
							_ = m.SetETag(etagOf(op, k+1))
							m.SetObserve(uint32(k + 2))
							m.SetContentFormat(message.AppOctets)
							m.SetBody(bytes.NewReader(Body(op*1000+k+1, nl)))
							_ = c.WriteMessage(m)
							c.ReleaseMessage(m)
						}
					}()
				case obsErr == nil && obsv == 1:
					obsMu.Lock()
					if st, ok := observers[string(rq.Token())]; ok {
						close(st.stop)
						delete(observers, string(rq.Token()))
					}
					obsMu.Unlock()
					_ = setResponse(codes.Content, message.AppOctets, bytes.NewReader(Body(rec.Op*2+1, down)))
				case rq.Code() == codes.GET && func() bool { obsMu.Lock(); defer obsMu.Unlock(); return resources[rec.Op] != nil }():
					obsMu.Lock()
					res := resources[rec.Op]
					obsMu.Unlock()
					if sc.PlainFollowUp {
						_ = setResponse(codes.Content, message.AppOctets, bytes.NewReader(res.body))
					} else {
						_ = setResponse(codes.Content, message.AppOctets, bytes.NewReader(res.body), message.Option{ID: message.ETag, Value: etagOf(rec.Op, res.version)})
					}
				default:
					code := codes.Content
					if rq.Code() == codes.POST || rq.Code() == codes.PUT {
						code = codes.Changed
					}
					var ropts []message.Option
					if q["e"] == "1" {
						ropts = append(ropts, message.Option{ID: message.ETag, Value: []byte{0xE7, byte(rec.Op)}})
					}
					_ = setResponse(code, message.AppOctets, bytes.NewReader(Body(rec.Op*2+1, down)), ropts...)
				}
			}
			if d := before.diff(snap(rq)); d != "" {
				rec.HeldChange = d
			}
			mu.Lock()
			tr.Handler = append(tr.Handler, rec)
			mu.Unlock()
		}

		// ---- endpoints --------------------------------------------------------------------------------
		lim := func(c EndCfg) int64 { return int64(def(c.Limit, 16)) }
		var stopRoles []func()
		if sc.Transport == "udp" {
			lc := sc.Link
			lc.Alien = alienBlock
			plink = memnet.NewPacketLink(lc)
			mk := func(end *memnet.PacketEnd, c EndCfg, errs *endpoints.Errs, p *pool.Pool, side string) *udpClient.Conn {
				var cc *udpClient.Conn
				var extra []any
				if c.GoPool {
					extra = append(extra, options.WithProcessReceivedMessageFunc(config.ProcessReceivedMessageFunc[*udpClient.Conn](
						func(req *pool.Message, cc *udpClient.Conn, h config.HandlerFunc[*udpClient.Conn]) {
							go cc.ProcessReceivedMessageWithHandler(req, h)
						})))
				}
				cc, stop, err := roles.PacketEnd(c.Role, end, bubble.Wait, append([]any{
					options.WithMessagePool(p), options.WithPeriodicRunner(tk.Runner()), options.WithErrors(errs.Add),
					options.WithBlockwise(c.Blockwise, szx(c.SZX), bwTimeout(c)),
					options.WithMaxMessageSize(uint32(def(c.MaxMsg, 65536))), options.WithMTU(uint16(min(def(c.MaxMsg, 65536), 65000))),
					options.WithReceivedMessageQueueSize(c.Queue),
					options.WithTransmission(uint32(def(c.NStart, 8)), time.Duration(def(c.AckTimeoutMs, 2000))*time.Millisecond, uint32(def(c.MaxRetransmit, 4))),
					options.WithLimitClientParallelRequest(lim(c)), options.WithLimitClientEndpointParallelRequest(lim(c)),
					options.WithHandlerFunc(udpClient.HandlerFunc(func(w *responsewriter.ResponseWriter[*udpClient.Conn], r *pool.Message) {
						serve(w.Conn(), w.SetResponse, r, side)
					})),
				}, extra...)...)
				if err != nil {
					panic(err)
				}
				stopRoles = append(stopRoles, stop)
				return cc
			}
			c1 := mk(plink.A, sc.Cli, &cliErrs, cliPool, "cli")
			c2 := mk(plink.B, sc.Srv, &srvErrs, srvPool, "srv")
			cli, srv = c1, c2
			sizes = func() (Sizes, Sizes) {
				a, b := c1.VerifSizes(), c2.VerifSizes()
				return Sizes(a), Sizes(b)
			}
		} else {
			slink := memnet.NewStreamLink(sc.Stream)
			streamStorm = slink.Storm
			// The library never advertises Block-Wise-Transfer in its own CSM; a peer that does is
			// modelled by a CSM frame (with the option, and the peer's Max-Message-Size) placed on
			// the stream before each endpoint starts writing.
			csm := func(c EndCfg) []byte {
				m := refcodec.Msg{Code: 225, Token: []byte{0xC5}, Opts: []refcodec.Opt{peer.Opt(2, peer.UintBytes(uint32(def(c.MaxMsg, 65536))))}}
				if c.Blockwise {
					m.Opts = append(m.Opts, peer.Opt(4, nil))
				}
				return peer.Frame(m)
			}
			_, _ = slink.A.Write(csm(sc.Cli)) // read by the server
			_, _ = slink.B.Write(csm(sc.Srv)) // read by the client
			mk := func(end *memnet.StreamEnd, c EndCfg, errs *endpoints.Errs, p *pool.Pool, side string) *tcpClient.Conn {
				var extra []any
				if c.GoPool {
					// (on the unchanged tree a stream connection ignores this option)
					extra = append(extra, options.WithProcessReceivedMessageFunc(config.ProcessReceivedMessageFunc[*tcpClient.Conn](
						func(req *pool.Message, cc *tcpClient.Conn, h config.HandlerFunc[*tcpClient.Conn]) {
							go cc.ProcessReceivedMessageWithHandler(req, tcpClient.HandlerFunc(h))
						})))
				}
				cc, stop, err := roles.StreamEnd(c.Role, end, bubble.Wait, append([]any{
					options.WithMessagePool(p), options.WithPeriodicRunner(tk.Runner()), options.WithErrors(errs.Add),
					options.WithBlockwise(c.Blockwise, szx(c.SZX), bwTimeout(c)),
					options.WithMaxMessageSize(uint32(def(c.MaxMsg, 65536))),
					options.WithReceivedMessageQueueSize(c.Queue), options.WithCloseSocket(),
					options.WithLimitClientParallelRequest(lim(c)), options.WithLimitClientEndpointParallelRequest(lim(c)),
					options.WithHandlerFunc(tcpClient.HandlerFunc(func(w *responsewriter.ResponseWriter[*tcpClient.Conn], r *pool.Message) {
						serve(w.Conn(), w.SetResponse, r, side)
					})),
				}, extra...)...)
				if err != nil {
					panic(err)
				}
				stopRoles = append(stopRoles, stop)
				return cc
			}
			c1 := mk(slink.A, sc.Cli, &cliErrs, cliPool, "cli")
			c2 := mk(slink.B, sc.Srv, &srvErrs, srvPool, "srv")
			cli, srv = c1, c2
			sizes = func() (Sizes, Sizes) {
				a, b := c1.VerifSizes(), c2.VerifSizes()
				return Sizes{TokenHandlers: a.TokenHandlers, BlockwiseReceiving: a.BlockwiseReceiving, BlockwiseSending: a.BlockwiseSending, Observations: a.Observations, LimiterQueues: a.LimiterQueues},
					Sizes{TokenHandlers: b.TokenHandlers, BlockwiseReceiving: b.BlockwiseReceiving, BlockwiseSending: b.BlockwiseSending, Observations: b.Observations, LimiterQueues: b.LimiterQueues}
			}
		}
		// housekeeping cadence
		stopTicks := make(chan struct{})
		tickDone := make(chan struct{})
		go func() {
			defer close(tickDone)
			for {
				select {
				case <-stopTicks:
					return
				case <-time.After(time.Duration(def(sc.TickMs, 500)) * time.Millisecond):
					tk.Tick()
				}
			}
		}()
		bubble.Wait()

		// ---- the client application -------------------------------------------------------------------
		var wg sync.WaitGroup
		observations := map[int]client.Observation{}
		type held struct {
			op   int
			msg  *pool.Message
			snap snapshot
		}
		var heldMsgs []held
		releaseHeld := func() {
			mu.Lock()
			hs := heldMsgs
			heldMsgs = nil
			mu.Unlock()
			for _, h := range hs {
				if d := h.snap.diff(snap(h.msg)); d != "" {
					mu.Lock()
					tr.Ops[h.op].HeldChanged = d
					mu.Unlock()
				}
				cli.ReleaseMessage(h.msg)
			}
		}
		runOp := func(i int, op Op) {
			r := OpResult{Started: time.Since(start)}
			ctx, cancel := context.WithTimeout(context.Background(), time.Duration(def(op.DeadlineMs, 30000))*time.Millisecond)
			if op.NoDeadline {
				cancel()
				ctx, cancel = context.WithCancel(context.Background())
				// (the application gives up after 25 s all the same, by cancelling: a response that was
				// lost or never produced is otherwise waited for for ever)
				giveUp := time.AfterFunc(25*time.Second, cancel)
				defer giveUp.Stop()
			}
			if op.Kind != "write" && op.Kind != "observe" {
				// a one-way write continues block-wise after the call returned, and an observation
				// re-uses its request: their contexts stay alive until the deadline
				defer cancel()
			}
			if op.CancelMs > 0 {
				tm := time.AfterFunc(time.Duration(op.CancelMs)*time.Millisecond, cancel)
				defer tm.Stop()
			}
			path := fmt.Sprintf("/t/%d", i)
			var opts []message.Option
			addQ := func(s string) { opts = append(opts, message.Option{ID: message.URIQuery, Value: []byte(s)}) }
			if op.PathRef > 0 && op.PathRef <= i {
				path = fmt.Sprintf("/t/%d", op.PathRef-1)
				addQ(fmt.Sprintf("i=%d", i))
			}
			if op.BodyLike > 0 {
				addQ(fmt.Sprintf("l=%d", op.BodyLike))
				addQ(fmt.Sprintf("f=%d", op.SameFirst))
			}
			addQ(fmt.Sprintf("u=%d", op.Up))
			addQ(fmt.Sprintf("d=%d", op.Down))
			if op.Mode != "" && op.Mode != "slow" {
				addQ("m=" + op.Mode)
			}
			if op.SlowMs > 0 {
				addQ(fmt.Sprintf("s=%d", op.SlowMs))
			}
			if op.ETag {
				addQ("e=1")
				opts = append(opts, message.Option{ID: message.ETag, Value: []byte{0xEE, byte(i)}})
			}
			if op.NoResp > 0 && op.Kind != "observe" {
				opts = append(opts, message.Option{ID: message.NoResponse, Value: []byte{byte(op.NoResp)}})
			}
			finish := func(resp *pool.Message, err error) {
				r.Ended, r.Returned = time.Since(start), true
				if err != nil {
					r.Err = err.Error()
				}
				if resp != nil {
					r.Code = int(resp.Code())
					b, _ := resp.ReadBody()
					r.BodyLen, r.BodyWant = len(b), op.Down
					r.BodyOK = bytes.Equal(b, Body(i*2+1, op.Down))
					mu.Lock()
					heldMsgs = append(heldMsgs, held{i, resp, snap(resp)})
					mu.Unlock()
				}
			}
			switch op.Kind {
			case "post", "put", "get", "delete":
				var req *pool.Message
				var err error
				var body io.ReadSeeker
				if op.Up > 0 {
					body = bytes.NewReader(UpBody(i, op))
				}
				switch op.Kind {
				case "post":
					req, err = cli.NewPostRequest(ctx, path, message.AppOctets, body, opts...)
				case "put":
					req, err = cli.NewPutRequest(ctx, path, message.AppOctets, body, opts...)
				case "get":
					req, err = cli.NewGetRequest(ctx, path, opts...)
				case "delete":
					req, err = cli.NewDeleteRequest(ctx, path, opts...)
				}
				if err != nil {
					finish(nil, err)
					break
				}
				req.SetToken([]byte{0xA0, byte(i)})
				if op.TokRef > 0 && op.TokRef <= i {
					req.SetToken([]byte{0xA0, byte(op.TokRef - 1)})
				}
				resp, err := cli.Do(req)
				cli.ReleaseMessage(req)
				finish(resp, err)
			case "write":
				m := cli.AcquireMessage(ctx)
				m.SetCode(codes.Code(def(op.Code, 2)))
				m.SetToken([]byte{0xA0, byte(i)})
				m.ResetOptionsTo(opts)
				m.MustSetPath(path)
				if op.Con {
					m.SetType(message.Confirmable)
				} else {
					m.SetType(message.NonConfirmable)
				}
				if op.Up > 0 {
					m.SetContentFormat(message.AppOctets)
					m.SetBody(bytes.NewReader(UpBody(i, op)))
				}
				err := cli.WriteMessage(m)
				cli.ReleaseMessage(m)
				finish(nil, err)
			case "observe":
				addQ(fmt.Sprintf("n=%d", op.Notifs))
				addQ(fmt.Sprintf("l=%d", op.NotifLen))
				req, err := cli.NewObserveRequest(ctx, path, opts...)
				if err != nil {
					finish(nil, err)
					break
				}
				req.SetToken([]byte{0xA0, byte(i)})
				first := true
				ob, err := cli.DoObserve(req, func(n *pool.Message) {
					before := snap(n)
					b, _ := n.ReadBody()
					nr := NotifRec{T: time.Since(start), BodyLen: len(b), Code: int(n.Code()), Seq: -1}
					if s, err := n.Observe(); err == nil {
						nr.Seq = int64(s)
					}
					mu.Lock()
					// any complete representation the server ever had is acceptable (a follow-up GET may
					// legitimately see a newer state); a partial or mixed body is not
					// (two versions may have the same bytes - equal lengths and, for operation 0, equal
					// generator seeds: every version with these bytes is a candidate)
					var versions []int
					if bytes.Equal(b, Body(i*2+1, op.Down)) {
						versions = append(versions, 0)
					}
					for k := 1; k <= op.Notifs; k++ {
						if bytes.Equal(b, Body(i*1000+k, op.NotifLen)) {
							versions = append(versions, k)
						}
					}
					nr.BodyOK = len(versions) > 0
					if nr.BodyOK && len(b) > 0 && nr.Code == int(codes.Content) {
						et, err := n.ETag()
						match := false
						for _, v := range versions {
							match = match || (err == nil && bytes.Equal(et, etagOf(i, v)))
						}
						if !match {
							nr.ETagBad = fmt.Sprintf("ETag %x (%v), version(s) %v of the resource were sent with %x...", et, err, versions, etagOf(i, versions[0]))
						}
					}
					_ = first
					mu.Unlock()
					if sc.NotifHoldMs > 0 {
						if sc.Transport == "tcp" {
							time.Sleep(time.Duration(sc.NotifHoldMs) * time.Millisecond)
						} else {
							// the datagram receiver holds a per-message-ID sync.Mutex around the callback; a
							// duplicate blocked on it is not "durably blocked" for synctest, so virtual time
							// could never advance past a Sleep here: yield instead
							for k := 0; k < 50*sc.NotifHoldMs; k++ {
								runtime.Gosched()
							}
						}
					}
					nr.Changed = before.diff(snap(n))
					mu.Lock()
					r.Notifs = append(r.Notifs, nr)
					tr.Ops[i].Notifs = r.Notifs
					mu.Unlock()
				})
				cli.ReleaseMessage(req)
				if err == nil {
					mu.Lock()
					observations[i] = ob
					mu.Unlock()
				}
				finish(nil, err)
			case "cancelobs":
				mu.Lock()
				ob := observations[op.Ref]
				delete(observations, op.Ref)
				mu.Unlock()
				if ob == nil {
					finish(nil, nil)
					break
				}
				finish(nil, ob.Cancel(ctx))
			case "ping":
				finish(nil, cli.Ping(ctx))
			case "sleep":
				time.Sleep(time.Duration(op.Ms) * time.Millisecond)
				finish(nil, nil)
			case "close":
				finish(nil, cli.Close())
			case "closesrv":
				finish(nil, srv.Close())
			}
			mu.Lock()
			notifs := tr.Ops[i].Notifs
			tr.Ops[i] = r
			tr.Ops[i].Notifs = notifs
			mu.Unlock()
		}
		for i, op := range sc.Ops {
			if op.Async {
				wg.Add(1)
				go func(i int, op Op) { defer wg.Done(); runOp(i, op) }(i, op)
				continue
			}
			runOp(i, op)
			releaseHeld() // responses of earlier operations were held across this one
		}
		allDone := make(chan struct{})
		go func() { wg.Wait(); close(allDone) }()
		// every call has a deadline: wait until all have returned (virtual time)
		select {
		case <-allDone:
		case <-time.After(10 * time.Minute):
		}
		releaseHeld()
		// ---- early read-out: as soon as the wire is quiet (two windows of 40 ms without traffic, at
		// most 1.5 s), before any expiry has had a chance to tidy up
		if plink != nil || streamStorm != nil {
			traffic := func() int {
				if plink != nil {
					return len(plink.Log())
				}
				return 0
			}
			last, quiet := traffic(), 0
			for k := 0; k < 36 && quiet < 2; k++ {
				time.Sleep(40 * time.Millisecond)
				bubble.Wait()
				if n := traffic(); n == last {
					quiet++
				} else {
					last, quiet = n, 0
				}
			}
			select {
			case <-cli.Done():
			default:
				select {
				case <-srv.Done():
				default:
					if quiet >= 2 {
						tr.EarlyCli, tr.EarlySrv = sizes()
						tr.EarlyRead = true
					}
				}
			}
		}
		// ---- idle phase, then the table read-out (C13) ------------------------------------------------
		settle := time.Duration(def(sc.SettleMs, 300000)) * time.Millisecond
		if mid := time.Duration(sc.MidMs) * time.Millisecond; mid > 0 && mid < settle {
			time.Sleep(mid)
			bubble.Wait()
			select {
			case <-cli.Done():
			default:
				select {
				case <-srv.Done():
				default:
					tr.MidCli, tr.MidSrv = sizes()
					tr.MidRead = true
				}
			}
			settle -= mid
		}
		time.Sleep(settle)
		bubble.Wait()
		select {
		case <-cli.Done():
		default:
			select {
			case <-srv.Done():
			default:
				tr.CliSizes, tr.SrvSizes = sizes()
				tr.SizesRead = true
			}
		}
		mu.Lock()
		for i := range observations {
			// an observation stays registered only if the registration response carried an Observe
			// option (otherwise the library treats the resource as not observable and drops it)
			if n := tr.Ops[i].Notifs; len(n) > 0 && n[0].Seq >= 0 {
				tr.LiveObs++
			}
		}
		mu.Unlock()
		close(stopTicks)
		<-tickDone
		tr.End = time.Since(start)
		_ = cli.Close()
		_ = srv.Close()
		for _, stop := range stopRoles {
			stop()
		}
		obsMu.Lock()
		for _, st := range observers {
			close(st.stop)
		}
		observers = map[string]*obsState{}
		obsMu.Unlock()
		bubble.Wait()
		if streamStorm != nil && streamStorm() {
			tr.StreamStorm = true
		}
		if plink != nil {
			tr.Datagrams = len(plink.Log())
			if Debug {
				for _, rec := range plink.Log() {
					m, ok := peer.ParseDatagram(rec.Data)
					d := fmt.Sprintf("%v dir=%d #%d %s ", rec.T, rec.Dir, rec.N, rec.Fate)
					if ok {
						d += fmt.Sprintf("type=%d mid=%d code=%d.%02d tok=%x payload=%d opts=", m.Type, m.MID, m.Code>>5, m.Code&31, m.Token, len(m.Payload))
						for _, o := range m.Opts {
							d += fmt.Sprintf("%d:%x,", o.Num, o.Val)
						}
					} else {
						d += fmt.Sprintf("undecodable %x", rec.Data)
					}
					tr.Wire = append(tr.Wire, d)
				}
			}
			tr.Storms = plink.Storms
			tr.Aliens = plink.Aliens
			tr.TailDrops = plink.Drops
		}
	})
	tr.Leaked, tr.Deadlock, tr.Panic = res.Leaked, res.Deadlock, res.Panic
	tr.CliErrs, tr.SrvErrs = cliErrs.List(), srvErrs.List()
	if track {
		tr.PoolViolation = append(cliTr.Finish(cliPool), srvTr.Finish(srvPool)...)
		tr.PoolRecycles = cliTr.Recycles + srvTr.Recycles
		tr.PoolReleases = cliTr.Releases + srvTr.Releases
	}
	return tr
}
