// Package evid is the common run-time of every check: flags, case accounting
// (evaluations / distinct non-trivial cases / class histogram / samples), the rapid
// wrapper (seeded, sharded, shrinking to a JSON scenario), known findings, replay, and the
// evidence and verdict files. See DESIGN.md sections 2.4, 2.5, 2.6 and 2.8.
package evid

import (
	"encoding/json"
	"flag"
	"fmt"
	"hash/fnv"
	"os"
	"path/filepath"
	"runtime"
	"runtime/debug"
	"sort"
	"strconv"
	"strings"
	"sync"
	"sync/atomic"
	"testing"
	"time"

	"pgregory.net/rapid"
)

var (
	fTier   = flag.String("verif.tier", "quick", "quick|thorough")
	fSeed   = flag.Int64("verif.seed", 1, "VERIF_SEED")
	fEvid   = flag.String("verif.evidence", "", "evidence file to write")
	fWork   = flag.String("verif.work", "", "work directory (verdict, replay files)")
	fReplay = flag.String("verif.replay", "", "replay this scenario file instead of searching")
	fKnown  = flag.String("verif.known", "", "known_findings.json")
	fShards = flag.Int("verif.shards", 0, "parallel shards for rapid engines (0 = tier default)")
	fScale  = flag.Float64("verif.scale", 1, "multiply generated case counts")
	fOnly   = flag.String("verif.only", "", "run only the engines whose name has this prefix")
	fReps   = flag.Int("verif.replayreps", 0, "replay repetitions (0 = engine default)")
)

// Failure is what an executor returns when the oracle rejects a case.
type Failure struct {
	Engine   string `json:"engine"`
	Key      string `json:"key"` // classification; matched against known_findings.json
	Msg      string `json:"msg"`
	Scenario any    `json:"scenario"`
}

func Failf(key string, scenario any, format string, args ...any) *Failure {
	return &Failure{Key: key, Scenario: scenario, Msg: fmt.Sprintf(format, args...)}
}

// KnownFinding is one entry of /verif/known_findings.json.
type KnownFinding struct {
	Property string          `json:"property"`
	Key      string          `json:"key"`
	Status   string          `json:"status"` // open | fixed
	Commit   string          `json:"commit,omitempty"`
	What     string          `json:"what"`
	Engine   string          `json:"engine,omitempty"`
	Scenario json.RawMessage `json:"scenario,omitempty"`
}

// Engine is one generator+oracle pair of a check.
type Engine struct {
	Name string
	// Search explores; it reports through r.Case / r.Fail.
	Search func(r *Run)
	// Replay re-executes one scenario (JSON) with the same executor and oracle.
	Replay func(raw json.RawMessage) *Failure
	// ReplayReps: how often a replay is repeated before "not reproduced" (schedule dependent engines).
	ReplayReps int
}

type violationRec struct {
	Engine string `json:"engine"`
	Key    string `json:"key"`
	Msg    string `json:"msg"`
	Replay string `json:"replay"`
}

type knownRec struct {
	Key        string `json:"key"`
	What       string `json:"what"`
	Reproduced bool   `json:"reproduced"`
	Hits       int64  `json:"hits"`
}

type sampleRec struct {
	h uint64
	v any
}

type Run struct {
	ID    string
	T     *testing.T
	start time.Time

	evals atomic.Int64

	mu           sync.Mutex
	classes      map[string]int64
	nontrivial   map[uint64]struct{}
	extraNT      int64 // distinct non-trivial cases counted arithmetically (enumerations)
	first        []any
	small        []sampleRec // the K smallest-hash non-trivial cases: a deterministic "random" sample
	violations   []violationRec
	known        []KnownFinding
	knownHits    map[string]int64
	knownRepro   map[string]bool
	inconclusive []string
	notes        map[string]any
	exhaustive   bool
	engines      []Engine
	violSeen     map[string]bool
	fallback     any // a trivial case, used as sample only if no non-trivial one was seen
}

const (
	keepFirst = 3
	keepSmall = 5
)

func New(t *testing.T, id string) *Run {
	r := &Run{ID: id, T: t, start: time.Now(),
		classes: map[string]int64{}, nontrivial: map[uint64]struct{}{},
		knownHits: map[string]int64{}, knownRepro: map[string]bool{}, notes: map[string]any{}, violSeen: map[string]bool{}}
	_ = flag.Set("rapid.nofailfile", "true")
	_ = flag.Set("rapid.shrinktime", "20s")
	if *fKnown != "" {
		b, err := os.ReadFile(*fKnown)
		if err == nil {
			var all []KnownFinding
			if err := json.Unmarshal(b, &all); err != nil {
				t.Fatalf("known findings file: %v", err)
			}
			for _, k := range all {
				if k.Property == id {
					r.known = append(r.known, k)
				}
			}
		}
	}
	if *fWork != "" {
		_ = os.MkdirAll(*fWork, 0o755)
		_ = os.Remove(filepath.Join(*fWork, "verdict.json"))
	}
	return r
}

func (r *Run) Tier() string   { return *fTier }
func (r *Run) Thorough() bool { return *fTier == "thorough" }
func (r *Run) Seed() int64 {
	if *fSeed == 0 {
		return 1
	}
	return *fSeed
}

// N picks a case count for the tier (scaled by -verif.scale).
func (r *Run) N(quick, thorough int) int {
	n := quick
	if r.Thorough() {
		n = thorough
	}
	n = int(float64(n) * *fScale)
	if n < 1 {
		n = 1
	}
	return n
}

func (r *Run) Shards() int {
	if *fShards > 0 {
		return *fShards
	}
	n := runtime.GOMAXPROCS(0)
	if !r.Thorough() && n > 8 {
		n = 8
	}
	return n
}

func (r *Run) WorkDir() string { return *fWork }

func hash64(parts ...string) uint64 {
	h := fnv.New64a()
	for _, p := range parts {
		_, _ = h.Write([]byte(p))
		_, _ = h.Write([]byte{0})
	}
	return h.Sum64()
}

// Eval counts n executed cases that are accounted for in bulk (enumerations).
func (r *Run) Eval(n int64) { r.evals.Add(n) }

// AddDistinct adds n cases that are distinct and non-trivial by construction (enumerations).
func (r *Run) AddDistinct(n int64) {
	r.mu.Lock()
	r.extraNT += n
	r.mu.Unlock()
}

// Class adds to the class histogram.
func (r *Run) Class(name string, n int64) {
	r.mu.Lock()
	r.classes[name] += n
	r.mu.Unlock()
}

// Case accounts for one executed case. ntKey == "" means trivial; otherwise the case is
// non-trivial by the property's rule and distinct cases are those with distinct ntKey.
// sample is only called when the case is kept as a sample.
func (r *Run) Case(engine, ntKey string, sample func() any, classes ...string) {
	r.evals.Add(1)
	r.mu.Lock()
	defer r.mu.Unlock()
	for _, c := range classes {
		r.classes[c]++
	}
	if ntKey == "" {
		r.classes[engine+"/trivial"]++
		if sample != nil && len(r.first) == 0 && r.fallback == nil {
			r.fallback = map[string]any{"engine": engine, "trivial": true, "case": sample()}
		}
		return
	}
	h := hash64(engine, ntKey)
	if _, ok := r.nontrivial[h]; ok {
		r.classes[engine+"/nontrivial-repeat"]++
		return
	}
	r.nontrivial[h] = struct{}{}
	r.classes[engine+"/nontrivial-distinct"]++
	if sample == nil {
		return
	}
	if len(r.first) < keepFirst {
		r.first = append(r.first, map[string]any{"engine": engine, "case": sample()})
		return
	}
	if len(r.small) < keepSmall || h < r.small[len(r.small)-1].h {
		r.small = append(r.small, sampleRec{h, map[string]any{"engine": engine, "case": sample()}})
		sort.Slice(r.small, func(i, j int) bool { return r.small[i].h < r.small[j].h })
		if len(r.small) > keepSmall {
			r.small = r.small[:keepSmall]
		}
	}
}

// Sample records a sample directly (enumerations).
func (r *Run) Sample(engine string, v any) {
	r.mu.Lock()
	defer r.mu.Unlock()
	if len(r.first) < keepFirst+keepSmall {
		r.first = append(r.first, map[string]any{"engine": engine, "case": v})
	}
}

func (r *Run) Note(k string, v any) {
	r.mu.Lock()
	r.notes[k] = v
	r.mu.Unlock()
}

func (r *Run) SetExhaustive() {
	r.mu.Lock()
	r.exhaustive = true
	r.mu.Unlock()
}

func (r *Run) Inconclusive(format string, args ...any) {
	r.mu.Lock()
	r.inconclusive = append(r.inconclusive, fmt.Sprintf(format, args...))
	r.mu.Unlock()
}

// IsKnown reports whether f belongs to an open known finding.
func (r *Run) IsKnown(f *Failure) bool {
	for _, k := range r.known {
		if k.Status == "open" && k.Key == f.Key {
			return true
		}
	}
	return false
}

// Fail records a failure: a hit of an open known finding, or a violation (with a replay file).
func (r *Run) Fail(f *Failure) {
	if f == nil {
		return
	}
	r.mu.Lock()
	defer r.mu.Unlock()
	for _, k := range r.known {
		if k.Status == "open" && k.Key == f.Key {
			r.knownHits[k.Key]++
			return
		}
	}
	sig := f.Engine + "|" + f.Key
	if r.violSeen[sig] && len(r.violations) >= 1 {
		return // one replay file per (engine,key) is enough
	}
	r.violSeen[sig] = true
	path := ""
	if *fWork != "" {
		path = filepath.Join(*fWork, fmt.Sprintf("violation-%d.json", len(r.violations)+1))
		b, _ := json.MarshalIndent(map[string]any{"property": r.ID, "engine": f.Engine, "key": f.Key, "msg": f.Msg, "scenario": f.Scenario}, "", " ")
		_ = os.WriteFile(path, b, 0o644)
	}
	r.violations = append(r.violations, violationRec{f.Engine, f.Key, f.Msg, path})
}

// SetCurrent persists the case about to be executed, for attribution of whole-binary
// crashes and hangs (a panic on a library goroutine cannot be recovered).
func (r *Run) SetCurrent(engine string, shard int, scenario any) {
	if *fWork == "" {
		return
	}
	b, err := json.Marshal(map[string]any{"property": r.ID, "engine": engine, "scenario": scenario})
	if err != nil {
		return
	}
	p := filepath.Join(*fWork, "current-"+strconv.Itoa(shard)+".json")
	_ = os.WriteFile(p, b, 0o644)
}

func (r *Run) ClearCurrent(shard int) {
	if *fWork == "" {
		return
	}
	_ = os.Remove(filepath.Join(*fWork, "current-"+strconv.Itoa(shard)+".json"))
}

// SafeExec runs exec and turns a panic on the calling goroutine into a Failure.
func SafeExec[S any](engine string, exec func(S) *Failure, s S) (f *Failure) {
	defer func() {
		if p := recover(); p != nil {
			f = &Failure{Engine: engine, Key: engine + "/panic", Scenario: s,
				Msg: fmt.Sprintf("panic: %v\n%s", p, trimStack(debug.Stack()))}
		}
		if f != nil {
			f.Engine = engine
			if f.Scenario == nil {
				f.Scenario = s
			}
		}
	}()
	return exec(s)
}

func trimStack(b []byte) string {
	s := string(b)
	if len(s) > 3000 {
		s = s[:3000] + "\n..."
	}
	return s
}

// ---------------------------------------------------------------------------------------
// rapid wrapper

type captureTB struct {
	mu      sync.Mutex
	failed  bool
	skipped bool
	log     strings.Builder
}

func (c *captureTB) Helper()      {}
func (c *captureTB) Name() string { return "verif" }
func (c *captureTB) Logf(format string, args ...any) {
	c.mu.Lock()
	if c.log.Len() < 1<<16 {
		fmt.Fprintf(&c.log, format+"\n", args...)
	}
	c.mu.Unlock()
}
func (c *captureTB) Log(args ...any)                   { c.Logf("%s", fmt.Sprint(args...)) }
func (c *captureTB) Skipf(format string, args ...any)  { c.Logf(format, args...); c.SkipNow() }
func (c *captureTB) Skip(args ...any)                  { c.Log(args...); c.SkipNow() }
func (c *captureTB) SkipNow()                          { c.mu.Lock(); c.skipped = true; c.mu.Unlock(); runtime.Goexit() }
func (c *captureTB) Errorf(format string, args ...any) { c.Logf(format, args...); c.Fail() }
func (c *captureTB) Error(args ...any)                 { c.Log(args...); c.Fail() }
func (c *captureTB) Fatalf(format string, args ...any) { c.Logf(format, args...); c.FailNow() }
func (c *captureTB) Fatal(args ...any)                 { c.Log(args...); c.FailNow() }
func (c *captureTB) FailNow()                          { c.Fail(); runtime.Goexit() }
func (c *captureTB) Fail()                             { c.mu.Lock(); c.failed = true; c.mu.Unlock() }
func (c *captureTB) Failed() bool                      { c.mu.Lock(); defer c.mu.Unlock(); return c.failed }

var rapidMu sync.Mutex

// rapidCheck runs rapid.Check with its own PRNG value and case count. rapid's settings are
// process-global flags read at the start of Check, hence the hand-over protocol.
func rapidCheck(seed uint64, checks int, prop func(*rapid.T)) *captureTB {
	if seed == 0 {
		seed = 1
	}
	tb := &captureTB{}
	started := make(chan struct{})
	var once sync.Once
	wrapped := func(t *rapid.T) { once.Do(func() { close(started) }); prop(t) }
	done := make(chan struct{})
	rapidMu.Lock()
	_ = flag.Set("rapid.seed", strconv.FormatUint(seed, 10))
	_ = flag.Set("rapid.checks", strconv.Itoa(checks))
	go func() { defer close(done); rapid.Check(tb, wrapped) }()
	select {
	case <-started:
	case <-done:
	}
	rapidMu.Unlock()
	<-done
	return tb
}

// RapidOpts configures RapidEngine.
type RapidOpts struct {
	Quick, Thorough int  // number of generated cases per tier (total over all shards)
	Crashy          bool // persist every case before executing it (library goroutines may panic/hang)
	Serial          bool // a single shard
	ReplayReps      int
}

// RapidEngine builds an engine from a scenario generator and an executor+oracle.
// The scenario type must survive a JSON round-trip (it is the replay format).
func RapidEngine[S any](name string, o RapidOpts, gen func(*rapid.T) S, exec func(S) *Failure) Engine {
	return Engine{
		Name:       name,
		ReplayReps: o.ReplayReps,
		Replay: func(raw json.RawMessage) *Failure {
			var s S
			if err := json.Unmarshal(raw, &s); err != nil {
				return &Failure{Engine: name, Key: "replay/decode", Msg: err.Error()}
			}
			return SafeExec(name, exec, s)
		},
		Search: func(r *Run) {
			total := r.N(o.Quick, o.Thorough)
			shards := r.Shards()
			if o.Serial || total < 4*shards {
				shards = 1
			}
			per := (total + shards - 1) / shards
			var wg sync.WaitGroup
			for k := 0; k < shards; k++ {
				wg.Add(1)
				go func(k int) {
					defer wg.Done()
					var last *Failure
					seed := uint64(r.Seed())*1000003 + uint64(k)*7919 + hash64(name)%1000
					tb := rapidCheck(seed, per, func(t *rapid.T) {
						s := gen(t)
						if o.Crashy {
							r.SetCurrent(name, k, s)
						}
						f := SafeExec(name, exec, s)
						if f == nil {
							return
						}
						if r.IsKnown(f) {
							r.Fail(f)
							return
						}
						last = f
						t.Fatalf("%s", f.Msg)
					})
					if o.Crashy {
						r.ClearCurrent(k)
					}
					if tb.Failed() {
						if last != nil {
							r.Fail(last)
						} else {
							r.Inconclusive("engine %s shard %d: rapid failed without an oracle failure: %s", name, k, tail(tb.log.String(), 600))
						}
					}
				}(k)
			}
			wg.Wait()
		},
	}
}

func tail(s string, n int) string {
	if len(s) > n {
		return s[:n]
	}
	return s
}

// ---------------------------------------------------------------------------------------
// Main entry

type Meta struct {
	Rule        string
	Level       string // default exploration
	Assumptions []string
	Floor       int64 // minimum distinct non-trivial cases (quick tier); below => inconclusive
}

// Main runs replay or search for the given engines and writes evidence + verdict.
func (r *Run) Main(meta Meta, engines ...Engine) {
	r.engines = engines
	if *fReplay != "" {
		r.replayFile(*fReplay)
		r.writeVerdict(meta)
		return
	}
	// confirm open known findings still reproduce (read-only; listed scenario only)
	for _, k := range r.known {
		if k.Status != "open" || len(k.Scenario) == 0 {
			continue
		}
		for _, e := range engines {
			if e.Name == k.Engine && e.Replay != nil {
				reps := e.ReplayReps
				if reps < 1 {
					reps = 1
				}
				// under a watchdog that persists the scenario: if the listed scenario now hangs or
				// crashes instead of failing the listed way, that is a different violation and the
				// driver must be able to find and replay it
				wd := r.StartWatchdog(e.Name, 0, 60*time.Second)
				for i := 0; i < reps; i++ {
					wd.Enter(json.RawMessage(k.Scenario))
					r.SetCurrent(e.Name, 0, json.RawMessage(k.Scenario))
					f := e.Replay(k.Scenario)
					wd.Leave()
					r.ClearCurrent(0)
					if f != nil && f.Key == k.Key {
						r.knownRepro[k.Key] = true
						break
					}
					if f != nil {
						// the listed scenario fails, but differently from what is listed
						f.Engine = e.Name
						var sc any
						_ = json.Unmarshal(k.Scenario, &sc)
						f.Scenario = sc
						r.Fail(f)
						break
					}
				}
				wd.Stop()
			}
		}
	}
	// regression tier: the scenario of every repaired finding is replayed; a fixed entry suppresses
	// nothing, so a failure here is reported like any other
	for _, k := range r.known {
		if k.Status != "fixed" || len(k.Scenario) == 0 {
			continue
		}
		for _, e := range engines {
			if e.Name != k.Engine || e.Replay == nil {
				continue
			}
			reps := e.ReplayReps
			if reps < 1 {
				reps = 1
			}
			wd := r.StartWatchdog(e.Name, 0, 60*time.Second)
			for i := 0; i < reps; i++ {
				wd.Enter(json.RawMessage(k.Scenario))
				r.SetCurrent(e.Name, 0, json.RawMessage(k.Scenario))
				f := e.Replay(k.Scenario)
				wd.Leave()
				r.ClearCurrent(0)
				if f != nil {
					f.Engine = e.Name
					var sc any
					_ = json.Unmarshal(k.Scenario, &sc)
					f.Scenario = sc
					r.Fail(f)
					break
				}
			}
			wd.Stop()
			r.Class("regression/replayed", 1)
		}
	}
	for _, e := range engines {
		if *fOnly != "" && !strings.HasPrefix(e.Name, *fOnly) {
			continue
		}
		t0 := time.Now()
		e.Search(r)
		r.Note("wall_s/"+e.Name, time.Since(t0).Seconds())
	}
	r.writeEvidence(meta)
	r.writeVerdict(meta)
}

func (r *Run) replayFile(path string) {
	b, err := os.ReadFile(path)
	if err != nil {
		r.Inconclusive("replay: %v", err)
		return
	}
	var in struct {
		Property string          `json:"property"`
		Engine   string          `json:"engine"`
		Scenario json.RawMessage `json:"scenario"`
	}
	if err := json.Unmarshal(b, &in); err != nil {
		r.Inconclusive("replay: %v", err)
		return
	}
	for _, e := range r.engines {
		if e.Name != in.Engine {
			continue
		}
		reps := e.ReplayReps
		if *fReps > 0 {
			reps = *fReps
		}
		if reps < 1 {
			reps = 1
		}
		wd := r.StartWatchdog(e.Name, 0, 45*time.Second)
		defer wd.Stop()
		for i := 0; i < reps; i++ {
			r.evals.Add(1)
			wd.Enter(json.RawMessage(in.Scenario))
			f := e.Replay(in.Scenario)
			wd.Leave()
			if f != nil {
				f.Engine = e.Name
				var sc any
				_ = json.Unmarshal(in.Scenario, &sc)
				f.Scenario = sc
				r.Fail(f)
				return
			}
		}
		return
	}
	r.Inconclusive("replay: unknown engine %q", in.Engine)
}

func (r *Run) distinct() int64 {
	return int64(len(r.nontrivial)) + r.extraNT
}

func (r *Run) writeEvidence(meta Meta) {
	if *fEvid == "" {
		return
	}
	r.mu.Lock()
	defer r.mu.Unlock()
	level := meta.Level
	if level == "" {
		level = "exploration"
	}
	samples := append([]any{}, r.first...)
	for _, s := range r.small {
		samples = append(samples, s.v)
	}
	if len(samples) == 0 && r.fallback != nil {
		samples = append(samples, r.fallback)
	}
	cov := map[string]any{
		"evaluations":         r.evals.Load(),
		"distinct_nontrivial": r.distinct(),
		"rule":                meta.Rule,
		"samples":             samples,
		"classes":             r.classes,
		"exhaustive":          r.exhaustive,
		"known_finding_hits":  r.knownHits,
	}
	for k, v := range r.notes {
		cov[k] = v
	}
	ev := map[string]any{
		"property_id": r.ID,
		"tier":        r.Tier(),
		"seed":        r.Seed(),
		"level":       level,
		"coverage":    cov,
		"assumptions": meta.Assumptions,
		"wall_s":      time.Since(r.start).Seconds(),
		"violations":  len(r.violations),
	}
	b, _ := json.MarshalIndent(ev, "", " ")
	_ = os.MkdirAll(filepath.Dir(*fEvid), 0o755)
	if err := os.WriteFile(*fEvid, b, 0o644); err != nil {
		r.T.Logf("evidence: %v", err)
	}
}

func (r *Run) writeVerdict(meta Meta) {
	r.mu.Lock()
	defer r.mu.Unlock()
	var known []knownRec
	for _, k := range r.known {
		if k.Status == "open" {
			known = append(known, knownRec{k.Key, k.What, r.knownRepro[k.Key], r.knownHits[k.Key]})
		}
	}
	if *fReplay == "" && meta.Floor > 0 && r.distinct() < meta.Floor && len(r.violations) == 0 && *fOnly == "" && *fScale >= 1 {
		r.inconclusive = append(r.inconclusive, fmt.Sprintf("starved generator: %d distinct non-trivial cases, floor %d", r.distinct(), meta.Floor))
	}
	v := map[string]any{
		"property":            r.ID,
		"tier":                r.Tier(),
		"seed":                r.Seed(),
		"complete":            true,
		"violations":          r.violations,
		"known":               known,
		"inconclusive":        r.inconclusive,
		"evaluations":         r.evals.Load(),
		"distinct_nontrivial": r.distinct(),
		"wall_s":              time.Since(r.start).Seconds(),
	}
	b, _ := json.MarshalIndent(v, "", " ")
	if *fWork != "" {
		_ = os.WriteFile(filepath.Join(*fWork, "verdict.json"), b, 0o644)
	} else {
		r.T.Logf("verdict: %s", b)
	}
	for _, vi := range r.violations {
		r.T.Logf("VIOLATION engine=%s key=%s replay=%s\n%s", vi.Engine, vi.Key, vi.Replay, vi.Msg)
	}
	for _, s := range r.inconclusive {
		r.T.Logf("INCONCLUSIVE %s", s)
	}
}

// ---------------------------------------------------------------------------------------
// real-time watchdog for cases that may hang the calling goroutine (DESIGN.md 2.5)

type Watchdog struct {
	r      *Run
	engine string
	shard  int
	mu     sync.Mutex
	cur    any
	stamp  time.Time
	busy   bool
	stop   chan struct{}
}

// StartWatchdog returns a watchdog; call Enter(scenario) before and Leave() after a case.
// If a case stays entered for longer than d of real time the scenario is persisted as
// current-<shard>.json and the process exits with status 3 (the driver confirms by replay).
func (r *Run) StartWatchdog(engine string, shard int, d time.Duration) *Watchdog {
	w := &Watchdog{r: r, engine: engine, shard: shard, stop: make(chan struct{})}
	go func() {
		tk := time.NewTicker(d / 4)
		defer tk.Stop()
		for {
			select {
			case <-w.stop:
				return
			case <-tk.C:
				w.mu.Lock()
				hung := w.busy && time.Since(w.stamp) > d
				cur := w.cur
				w.mu.Unlock()
				if hung {
					r.SetCurrent(engine, shard, cur)
					fmt.Fprintf(os.Stderr, "WATCHDOG engine=%s shard=%d: case did not return within %v\n", engine, shard, d)
					os.Exit(3)
				}
			}
		}
	}()
	return w
}

func (w *Watchdog) Enter(scenario any) {
	w.mu.Lock()
	w.cur, w.stamp, w.busy = scenario, time.Now(), true
	w.mu.Unlock()
}

func (w *Watchdog) Leave() {
	w.mu.Lock()
	w.busy = false
	w.mu.Unlock()
}

func (w *Watchdog) Stop() { close(w.stop) }
