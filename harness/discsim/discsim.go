// Package discsim is the real-socket engine for the datagram server's discovery calls
// (Server.Discover / Server.DiscoveryRequest): the one request path of the library that does not go
// through a connection's Do. C03 runs mode "dup", C04 mode "blocks".
//
//   - dup: two discovery calls whose token source hands out the same token run at the same time
//     against 1-3 responders; the second is refused and sees nothing, the first still receives the
//     answer of every responder (each with the connection of the peer that sent it); afterwards a
//     third call with that token (the first two have returned) is served normally.
//   - blocks: a responder answers a discovery with a body of several 1024-byte blocks; the first poll
//     is abandoned (the responder serves the first K blocks and then goes silent, the call ends at its
//     deadline), the second poll uses the same token again (a counter that wraps, a caller-chosen
//     token) and is served completely with another body. The receiver gets the second body exactly,
//     or nothing - never a body made of both.
package discsim

import (
	"bytes"
	"context"
	"encoding/json"
	"fmt"
	"net"
	"sync"
	"time"

	"github.com/plgd-dev/go-coap/v3/message"
	"github.com/plgd-dev/go-coap/v3/message/pool"
	coapNet "github.com/plgd-dev/go-coap/v3/net"
	"github.com/plgd-dev/go-coap/v3/net/responsewriter"
	"github.com/plgd-dev/go-coap/v3/options"
	"github.com/plgd-dev/go-coap/v3/udp"
	udpClient "github.com/plgd-dev/go-coap/v3/udp/client"
	udpServer "github.com/plgd-dev/go-coap/v3/udp/server"
	"pgregory.net/rapid"

	"verif/evid"
	"verif/peer"
	"verif/refcodec"
)

type Scenario struct {
	Mode       string `json:"mode"` // dup | blocks
	Responders int    `json:"responders,omitempty"`
	// blocks
	Blocks  int `json:"blocks,omitempty"`  // blocks of each body (2-4), the last one partly filled
	Served  int `json:"served,omitempty"`  // blocks of the first body the responder serves before it goes silent (1 .. Blocks-1)
	PauseMs int `json:"pauseMs,omitempty"` // time between the end of the first poll and the second
}

func body(seed, n int) []byte {
	b := make([]byte, n)
	x := uint32(seed)*2654435761 + 99
	for i := range b {
		x = x*1664525 + 1013904223
		b[i] = byte(x>>24) | 1
	}
	return b
}

func block2(num int, more bool) refcodec.Opt {
	v := num<<4 | 6 // SZX 6 = 1024 bytes
	if more {
		v |= 8
	}
	var val []byte
	for ; v > 0; v >>= 8 {
		val = append([]byte{byte(v)}, val...)
	}
	return refcodec.Opt{Num: 23, Val: val}
}

func execOnce(sc Scenario) *evid.Failure {
	l, err := coapNet.NewListenUDP("udp4", "127.0.0.1:0")
	if err != nil {
		return nil // no loopback UDP in this environment: nothing to decide
	}
	defer l.Close()
	var hmu sync.Mutex
	handlerCalls := 0
	s := udp.NewServer(
		options.WithHandlerFunc(udpClient.HandlerFunc(func(_ *responsewriter.ResponseWriter[*udpClient.Conn], _ *pool.Message) {
			hmu.Lock()
			handlerCalls++
			hmu.Unlock()
		})),
		options.WithErrors(func(error) {}),
		options.WithMessagePool(pool.New(32, 2048)),
		options.WithGetToken(func() (message.Token, error) { return message.Token{0xD5, 0x01}, nil }),
	)
	serveDone := make(chan error, 1)
	go func() { serveDone <- s.Serve(l) }()
	defer func() {
		s.Stop()
		select {
		case <-serveDone:
		case <-time.After(5 * time.Second):
		}
	}()
	srvUDP, _ := net.ResolveUDPAddr("udp4", l.LocalAddr().String())
	time.Sleep(20 * time.Millisecond)
	var f *evid.Failure
	switch sc.Mode {
	case "dup":
		f = execDup(sc, s, srvUDP)
	case "blocks":
		f = execBlocks(sc, s, srvUDP)
	case "dupblocks":
		f = execDupBlocks(sc, s, srvUDP)
	}
	hmu.Lock()
	defer hmu.Unlock()
	if f == nil && handlerCalls > 0 {
		// a discovery response belongs to the receiver of its token and to nobody else
		return evid.Failf("discovery/response-also-dispatched-to-the-handler", sc, "the server's request handler was invoked %d times although the peers only ever sent responses to discovery requests, each of which was given to its receiver", handlerCalls)
	}
	return f
}

type seen struct {
	remote  string
	payload string
}

func execDup(sc Scenario, s *udpServer.Server, srvUDP *net.UDPAddr) *evid.Failure {
	responders := make([]*net.UDPConn, sc.Responders)
	for i := range responders {
		c, err := net.ListenUDP("udp4", &net.UDPAddr{IP: net.IPv4(127, 0, 0, 1)})
		if err != nil {
			return nil
		}
		responders[i] = c
		defer c.Close()
	}
	// responder 0 receives the unicast requests; every request is answered by all responders, the
	// first one only after the colliding call has been made
	go func() {
		buf := make([]byte, 2048)
		for k := 0; k < 8; {
			_ = responders[0].SetReadDeadline(time.Now().Add(3 * time.Second))
			n, _, err := responders[0].ReadFromUDP(buf)
			if err != nil {
				return
			}
			req, ok := peer.ParseDatagram(buf[:n])
			if !ok || req.Code != 1 {
				continue // only requests are answered (not the server's resets)
			}
			k++
			if k == 1 {
				time.Sleep(150 * time.Millisecond)
			}
			for i, rc := range responders {
				m := refcodec.Msg{Type: peer.NON, MID: 42000 + 10*k + i, Code: 69, Token: req.Token, Payload: []byte(fmt.Sprintf("call%d-from-%d", k-1, i))}
				_, _ = rc.WriteToUDP(peer.Datagram(m), srvUDP)
			}
		}
	}()
	results := make([][]seen, 3)
	errsOf := make([]error, 3)
	var rmu sync.Mutex
	call := func(k int, d time.Duration) {
		ctx, cancel := context.WithTimeout(context.Background(), d)
		defer cancel()
		err := s.Discover(ctx, responders[0].LocalAddr().String(), "/oic/res", func(cc *udpClient.Conn, resp *pool.Message) {
			b, _ := resp.ReadBody()
			rmu.Lock()
			results[k] = append(results[k], seen{cc.RemoteAddr().String(), string(b)})
			rmu.Unlock()
		})
		rmu.Lock()
		errsOf[k] = err
		rmu.Unlock()
	}
	var wg sync.WaitGroup
	wg.Add(2)
	go func() { defer wg.Done(); call(0, 600*time.Millisecond) }()
	time.Sleep(40 * time.Millisecond) // the first call is registered and its request is out
	go func() { defer wg.Done(); call(1, 300*time.Millisecond) }()
	wg.Wait()
	call(2, 400*time.Millisecond) // the token is free again
	rmu.Lock()
	defer rmu.Unlock()
	if len(results[1]) != 0 {
		return evid.Failf("discovery/duplicate-token-served", sc, "a second discovery with the token of a running one received %d responses %v", len(results[1]), results[1])
	}
	addrOf := map[string]int{}
	for i, rc := range responders {
		addrOf[rc.LocalAddr().String()] = i
	}
	for _, k := range []int{0, 2} {
		from := map[int]bool{}
		for _, sn := range results[k] {
			var callNo, who int
			if _, err := fmt.Sscanf(sn.payload, "call%d-from-%d", &callNo, &who); err != nil {
				return evid.Failf("discovery/unknown-payload", sc, "discovery call %d got %q", k, sn.payload)
			}
			if i, ok := addrOf[sn.remote]; !ok || i != who {
				return evid.Failf("discovery/wrong-connection", sc, "discovery call %d: the response of responder %d arrived with the connection of %s", k, who, sn.remote)
			}
			// (the responders answer the k-th request they see; the refused call sends nothing)
			wantCall := map[int]int{0: 0, 2: 1}[k]
			if callNo != wantCall {
				return evid.Failf("discovery/response-to-another-call", sc, "discovery call %d received %q, produced for request %d", k, sn.payload, callNo)
			}
			from[who] = true
		}
		if len(from) != len(responders) {
			what := "the first call (a second one with the same token was refused while it ran)"
			if k == 2 {
				what = "a call that took the token again after both had returned"
			}
			return evid.Failf("discovery/response-lost", sc, "%s: %d responders answered, the receiver saw the responses of %d of them (%v); errors: %v", what, len(responders), len(from), results[k], errsOf)
		}
	}
	return nil
}

func execBlocks(sc Scenario, s *udpServer.Server, srvUDP *net.UDPAddr) *evid.Failure {
	dev, err := net.ListenUDP("udp4", &net.UDPAddr{IP: net.IPv4(127, 0, 0, 1)})
	if err != nil {
		return nil
	}
	defer dev.Close()
	size := 1024*(sc.Blocks-1) + 333
	bodies := [][]byte{body(1, size), body(2, size)}
	var mu sync.Mutex
	poll := 0
	stop := make(chan struct{})
	defer close(stop)
	go func() {
		buf := make([]byte, 2048)
		mid := 43000
		for {
			select {
			case <-stop:
				return
			default:
			}
			_ = dev.SetReadDeadline(time.Now().Add(50 * time.Millisecond))
			n, from, err := dev.ReadFromUDP(buf)
			if err != nil {
				continue
			}
			req, ok := peer.ParseDatagram(buf[:n])
			if !ok || req.Code != 1 {
				continue
			}
			num := 0
			if v, ok := peer.FindOpt(req, 23); ok {
				bv := 0
				for _, x := range v {
					bv = bv<<8 | int(x)
				}
				num = bv >> 4
			}
			mu.Lock()
			p := poll
			mu.Unlock()
			if p == 0 && num >= sc.Served {
				continue // went out of range
			}
			b := bodies[p]
			lo, hi := 1024*num, min(1024*num+1024, len(b))
			if lo >= len(b) {
				continue
			}
			mid++
			m := refcodec.Msg{Type: peer.NON, MID: mid, Code: 69, Token: req.Token, Opts: []refcodec.Opt{block2(num, hi < len(b))}, Payload: b[lo:hi]}
			if req.Type == peer.CON {
				m.Type, m.MID = peer.ACK, req.MID
			}
			_, _ = dev.WriteToUDP(peer.Datagram(m), from)
		}
	}()
	var got [][]byte
	var gmu sync.Mutex
	call := func(d time.Duration) {
		ctx, cancel := context.WithTimeout(context.Background(), d)
		defer cancel()
		_ = s.Discover(ctx, dev.LocalAddr().String(), "/oic/res", func(_ *udpClient.Conn, resp *pool.Message) {
			b, _ := resp.ReadBody()
			gmu.Lock()
			got = append(got, append([]byte(nil), b...))
			gmu.Unlock()
		})
	}
	call(300 * time.Millisecond)
	gmu.Lock()
	first := len(got)
	gmu.Unlock()
	if first != 0 {
		gmu.Lock()
		defer gmu.Unlock()
		return evid.Failf("discovery/partial-body-delivered", sc, "the responder served %d of %d blocks and went silent, yet the receiver was given a body of %d bytes", sc.Served, sc.Blocks, len(got[0]))
	}
	time.Sleep(time.Duration(sc.PauseMs) * time.Millisecond)
	mu.Lock()
	poll = 1
	mu.Unlock()
	call(800 * time.Millisecond)
	gmu.Lock()
	defer gmu.Unlock()
	for _, b := range got {
		if !bytes.Equal(b, bodies[1]) {
			n := 0
			for n < len(b) && n < len(bodies[0]) && b[n] == bodies[0][n] {
				n++
			}
			return evid.Failf("discovery/spliced-body", sc, "the second poll (same token, %d ms after the first was abandoned at block %d) delivered a body of %d bytes that is not the %d-byte body the responder supplied; its first %d bytes are those of the abandoned body", sc.PauseMs, sc.Served, len(b), len(bodies[1]), n)
		}
	}
	if len(got) > 1 {
		return evid.Failf("discovery/delivered-twice", sc, "the body of the second poll reached the receiver %d times", len(got))
	}
	return nil
}

// execDupBlocks: a discovery is pending; a second one with the same token is refused; then the device
// answers the first with a body of several blocks. The follow-up requests for the later blocks are
// what the first discovery asked for (GET, its path, its token) and the receiver gets the whole body.
func execDupBlocks(sc Scenario, s *udpServer.Server, srvUDP *net.UDPAddr) *evid.Failure {
	dev, err := net.ListenUDP("udp4", &net.UDPAddr{IP: net.IPv4(127, 0, 0, 1)})
	if err != nil {
		return nil
	}
	defer dev.Close()
	full := body(7, 1024*(sc.Blocks-1)+200)
	refused := make(chan struct{})
	var bad string
	var bmu sync.Mutex
	go func() {
		buf := make([]byte, 2048)
		mid := 44000
		for {
			_ = dev.SetReadDeadline(time.Now().Add(2 * time.Second))
			n, from, err := dev.ReadFromUDP(buf)
			if err != nil {
				return
			}
			req, ok := peer.ParseDatagram(buf[:n])
			if !ok || (req.Code == 0) {
				continue
			}
			num := 0
			if v, ok := peer.FindOpt(req, 23); ok {
				bv := 0
				for _, x := range v {
					bv = bv<<8 | int(x)
				}
				num = bv >> 4
			}
			if num == 0 {
				<-refused // answer only after the colliding call has been refused
			} else {
				var segs []string
				for _, o := range req.Opts {
					if o.Num == 11 {
						segs = append(segs, string(o.Val))
					}
				}
				if req.Code != 1 || fmt.Sprint(segs) != "[oic res]" || !bytes.Equal(req.Token, []byte{0xD5, 0x01}) || len(req.Payload) != 0 {
					bmu.Lock()
					bad = fmt.Sprintf("code %d path %v token %x payload %d bytes", req.Code, segs, req.Token, len(req.Payload))
					bmu.Unlock()
					return
				}
			}
			lo, hi := 1024*num, min(1024*num+1024, len(full))
			if lo >= len(full) {
				continue
			}
			mid++
			m := refcodec.Msg{Type: peer.NON, MID: mid, Code: 69, Token: req.Token, Opts: []refcodec.Opt{block2(num, hi < len(full))}, Payload: full[lo:hi]}
			if req.Type == peer.CON {
				m.Type, m.MID = peer.ACK, req.MID
			}
			_, _ = dev.WriteToUDP(peer.Datagram(m), from)
		}
	}()
	var got [][]byte
	var gmu sync.Mutex
	first := make(chan struct{})
	go func() {
		defer close(first)
		ctx, cancel := context.WithTimeout(context.Background(), 900*time.Millisecond)
		defer cancel()
		_ = s.Discover(ctx, dev.LocalAddr().String(), "/oic/res", func(_ *udpClient.Conn, resp *pool.Message) {
			b, _ := resp.ReadBody()
			gmu.Lock()
			got = append(got, append([]byte(nil), b...))
			gmu.Unlock()
		})
	}()
	time.Sleep(40 * time.Millisecond)
	for k := 0; k < sc.Responders; k++ { // (re-used field: how many colliding calls are made)
		ctx, cancel := context.WithTimeout(context.Background(), 200*time.Millisecond)
		err := s.Discover(ctx, dev.LocalAddr().String(), "/oic/res", func(*udpClient.Conn, *pool.Message) {})
		cancel()
		if err == nil {
			close(refused)
			<-first
			return evid.Failf("discovery/duplicate-token-accepted", sc, "a discovery with the token of a running one was not refused")
		}
	}
	close(refused)
	<-first
	bmu.Lock()
	defer bmu.Unlock()
	if bad != "" {
		return evid.Failf("discovery/foreign-follow-up-request", sc, "after a colliding discovery was refused, the follow-up request for the next block of the running discovery's response is not that discovery's request: %s (want GET [oic res] token d501, no payload)", bad)
	}
	gmu.Lock()
	defer gmu.Unlock()
	if len(got) != 1 || !bytes.Equal(got[0], full) {
		n := -1
		if len(got) > 0 {
			n = len(got[0])
		}
		return evid.Failf("discovery/block-wise-response-lost", sc, "a colliding discovery was refused while the first ran; the device then answered the first with %d blocks: the receiver got %d bodies (first of %d bytes), want the %d-byte body once", sc.Blocks, len(got), n, len(full))
	}
	return nil
}

// Exec runs one scenario; a failure counts only if it reproduces three times in a row (real time).
func Exec(sc Scenario) *evid.Failure {
	var f *evid.Failure
	for try := 0; try < 3; try++ {
		if f = execOnce(sc); f == nil {
			return nil
		}
	}
	return f
}

func Gen(mode string) func(t *rapid.T) Scenario {
	return func(t *rapid.T) Scenario {
		sc := Scenario{Mode: mode}
		switch mode {
		case "dup":
			sc.Responders = rapid.IntRange(1, 3).Draw(t, "responders")
		case "dupblocks":
			sc.Blocks = rapid.IntRange(2, 3).Draw(t, "blocks")
			sc.Responders = rapid.IntRange(1, 3).Draw(t, "collisions")
		case "blocks":
			sc.Blocks = rapid.IntRange(2, 4).Draw(t, "blocks")
			sc.Served = rapid.IntRange(1, sc.Blocks-1).Draw(t, "served")
			sc.PauseMs = rapid.SampledFrom([]int{0, 50, 500}).Draw(t, "pause")
		}
		return sc
	}
}

func Engine(r *evid.Run, mode string, quick, thorough int) evid.Engine {
	return evid.RapidEngine("discovery", evid.RapidOpts{Quick: quick, Thorough: thorough, Serial: true}, Gen(mode), func(sc Scenario) *evid.Failure {
		f := Exec(sc)
		if f == nil {
			b, _ := json.Marshal(sc)
			r.Case("discovery", string(b), func() any { return sc }, "discovery/"+sc.Mode)
		}
		return f
	})
}

const RuleDup = "discovery: the loopback udp/server's Discover with a token source that always hands out one token, 1-3 responders on sockets of their own (real time; a failure counts only if it reproduces three times in a row): a second call made while the first runs is refused and sees nothing, the first still receives every responder's answer with that responder's connection, and a third call made after both returned is served normally; the server's own request handler is never invoked for those responses"
const RuleDupBlocks = "discovery (dupblocks): a discovery is pending, 1-3 more with the same token are refused, then the device answers the first with a body of 2-3 blocks: the follow-up requests are the first discovery's (GET, its path, its token, no payload) and its receiver gets the whole body once"
const RuleBlocks = "discovery: the loopback udp/server's Discover against a responder that answers with bodies of 2-4 blocks of 1024 bytes; the first poll is abandoned (the responder goes silent after K blocks, the call ends at its deadline, nothing is delivered), the second poll takes the same token again 0-500 ms later and is served completely with another body: what is delivered is exactly that body, once (real time; a failure counts only if it reproduces three times in a row)"
