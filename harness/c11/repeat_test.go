package c11

import (
	"encoding/json"
	"os"
	"strconv"
	"testing"

	"verif/evid"
)

// TestRepeat is a triage helper (not part of the check): it runs the scenario in
// $VERIF_REPEAT_FILE $VERIF_REPEAT_N times; a hang ends in go test's -timeout goroutine dump.
func TestRepeat(t *testing.T) {
	f := os.Getenv("VERIF_REPEAT_FILE")
	if f == "" {
		t.Skip("triage helper")
	}
	raw, err := os.ReadFile(f)
	if err != nil {
		t.Fatal(err)
	}
	var doc struct {
		Scenario Scenario `json:"scenario"`
	}
	if err := json.Unmarshal(raw, &doc); err != nil {
		t.Fatal(err)
	}
	n, _ := strconv.Atoi(os.Getenv("VERIF_REPEAT_N"))
	r := evid.New(t, "C11-repeat")
	for i := 0; i < max(n, 1); i++ {
		if fl := Exec(t, doc.Scenario, r); fl != nil {
			t.Fatalf("repetition %d: %s: %s", i, fl.Key, fl.Msg)
		}
	}
}
