//go:build verif

// C11 — each received message is processed once; handlers may call back.
package c11

import (
	"bytes"
	"context"
	"encoding/json"
	"fmt"
	"os"
	"runtime"
	"strconv"
	"strings"
	"sync"
	"testing"
	"time"

	"github.com/plgd-dev/go-coap/v3/message"
	"github.com/plgd-dev/go-coap/v3/message/codes"
	"github.com/plgd-dev/go-coap/v3/message/pool"
	"github.com/plgd-dev/go-coap/v3/net/client"
	"github.com/plgd-dev/go-coap/v3/net/responsewriter"
	"github.com/plgd-dev/go-coap/v3/options"
	tcpClient "github.com/plgd-dev/go-coap/v3/tcp/client"
	udpClient "github.com/plgd-dev/go-coap/v3/udp/client"
	"pgregory.net/rapid"

	"verif/bubble"
	"verif/discsim"
	"verif/endpoints"
	"verif/evid"
	"verif/memnet"
	"verif/peer"
	"verif/refcodec"
	"verif/roles"
	"verif/udpsrv"
	"verif/wire"
)

type Event struct {
	Kind string `json:"kind"` // inject | answer | release | app | answerapp | appfail | redeliver | close
	// redeliver (datagram): the peer retransmits request ID byte for byte (its handler may still be waiting)
	// appfail: an application request with a 300 ms deadline that the peer never acknowledges or
	// answers; the scenario goes on once it has failed
	ID int `json:"id"`
	// inject: how the handler behaves
	Beh   string `json:"beh,omitempty"`   // plain | nested | nestedobs | gated | busy (nestedobs: the nested requests are Observe registrations; nestednon: non-confirmable GETs; rst: on a datagram connection the message is an empty reset that answers nothing pending)
	Depth int    `json:"depth,omitempty"` // nested: number of sequential nested requests the handler makes (1-3)
	Con   bool   `json:"con,omitempty"`
	// NoWait: the event is applied right behind the previous one, without waiting for quiescence
	// (a burst: messages pile up in the receive queue while the handler is still busy)
	NoWait bool `json:"noWait,omitempty"`
	// OwnMID > 0 (datagram): the peer numbers this request with a message ID the library itself is
	// about to use (its last one seen on the wire + OwnMID; the library's counter advances by 1-2
	// per message): the two endpoints' ID spaces are independent (RFC 7252 4.4), so a nested
	// request and the request being handled may carry the same ID
	OwnMID int `json:"ownMID,omitempty"`
	// DropBefore (inject): a DELETE request, which the connection's request monitor asks to drop,
	// arrives right in front of this message - on a stream in the same write
	DropBefore bool `json:"dropBefore,omitempty"`
}

type Scenario struct {
	Transport string  `json:"transport"`
	Queue     int     `json:"queue"`
	Events    []Event `json:"events"`
	// DefaultLimits: the library's default parallel-request limits (1 in total, 1 per path) and
	// NSTART 1 instead of generous ones: requests issued by two handlers at once then queue up
	DefaultLimits bool `json:"defaultLimits,omitempty"`
	// Role: "" a client connection; "server" the connection a tcp / dtls server creates for an accepted peer
	Role string `json:"role,omitempty"`
}

type getter interface {
	Get(ctx context.Context, path string, opts ...message.Option) (*pool.Message, error)
	Observe(ctx context.Context, path string, observeFunc func(req *pool.Message), opts ...message.Option) (client.Observation, error)
	NewGetRequest(ctx context.Context, path string, opts ...message.Option) (*pool.Message, error)
	Do(req *pool.Message) (*pool.Message, error)
	ReleaseMessage(m *pool.Message)
	Close() error
	Done() <-chan struct{}
}

type hrec struct {
	id      int
	t       time.Duration
	done    bool
	nestErr string
}

var debug = os.Getenv("VERIF_DEBUG") != ""

func Exec(t *testing.T, sc Scenario, r *evid.Run) *evid.Failure {
	var hlog []hrec // handler entries in dispatch order
	var mu sync.Mutex
	closed := false
	closedAtEvent := -1
	var bad bool
	appRes := map[int]string{}
	appStarted := map[int]bool{}
	var fail *evid.Failure
	var errs endpoints.Errs
	run := bubble.Run(t, 60*time.Second, nil, func() {
		start := time.Now()
		var tk endpoints.Ticker
		var w wire.Wire
		var cc getter
		gates := map[int]chan struct{}{}
		for _, e := range sc.Events {
			if e.Kind == "inject" && e.Beh == "gated" {
				gates[e.ID] = make(chan struct{})
			}
		}
		depthOf := map[int]int{}
		for _, e := range sc.Events {
			if e.Kind == "inject" {
				depthOf[e.ID] = max(e.Depth, 1)
			}
		}
		rstOf := map[int]int{} // message ID of an injected stray reset -> its event ID
		handle := func(c getter, rq *pool.Message, setResponse func(code codes.Code) error) {
			if sc.Transport == "udp" && rq.Type() == message.Reset && rq.Code() == codes.Empty {
				// a reset that answers nothing that is pending (a peer may reset a non-confirmable message or
				// a notification of ours, RFC 7252 4.3 / RFC 7641 3.6): a message like any other
				mu.Lock()
				if id, ok := rstOf[int(rq.MessageID())]; ok {
					hlog = append(hlog, hrec{id: id, t: time.Since(start), done: true})
				}
				mu.Unlock()
				return
			}
			path, _ := rq.Path()
			parts := strings.Split(strings.TrimPrefix(path, "/"), "/")
			if len(parts) != 3 || parts[0] != "m" {
				return
			}
			id, _ := strconv.Atoi(parts[1])
			mu.Lock()
			idx := len(hlog)
			hlog = append(hlog, hrec{id: id, t: time.Since(start)})
			mu.Unlock()
			switch parts[2] {
			case "nested", "nestedobs", "nestednon":
				for d := 0; d < depthOf[id]; d++ {
					ctx, cancel := context.WithTimeout(context.Background(), 20*time.Second)
					var resp *pool.Message
					var err error
					var obsBody []byte
					isObs := false
					if parts[2] == "nestedobs" {
						// the other blocking request of the client API: an observe registration
						// (it returns with the first response, which the callback gets)
						// (the callback owns the message only while it runs: the body is read there)
						first := make(chan []byte, 1)
						_, err = c.Observe(ctx, fmt.Sprintf("/n/%d/%d", id, d), func(m *pool.Message) {
							b, _ := m.ReadBody()
							select {
							case first <- append([]byte(nil), b...):
							default:
							}
						})
						if err == nil {
							// the registration is signalled before the callback runs
							select {
							case obsBody = <-first:
								isObs = true
							case <-time.After(5 * time.Second):
								err = fmt.Errorf("the registration response was not given to the callback within 5 s of Observe returning")
							}
						}
					} else if parts[2] == "nestednon" {
						// the request is non-confirmable: no acknowledgement is waited for, the call
						// goes straight to waiting for the response
						var rq *pool.Message
						if rq, err = c.NewGetRequest(ctx, fmt.Sprintf("/n/%d/%d", id, d)); err == nil {
							rq.SetType(message.NonConfirmable)
							resp, err = c.Do(rq)
							c.ReleaseMessage(rq)
						}
					} else {
						resp, err = c.Get(ctx, fmt.Sprintf("/n/%d/%d", id, d))
					}
					cancel()
					if err != nil {
						mu.Lock()
						hlog[idx].nestErr = err.Error()
						mu.Unlock()
						break
					}
					b := obsBody
					if !isObs {
						b, _ = resp.ReadBody()
					}
					if want := fmt.Sprintf("N%d.%d", id, d); string(b) != want {
						mu.Lock()
						hlog[idx].nestErr = fmt.Sprintf("nested response %q, want %q", b, want)
						mu.Unlock()
					}
				}
			case "gated":
				select {
				case <-gates[id]:
				case <-c.Done():
				}
			case "busy": // takes a while but never blocks
				for k := 0; k < 200; k++ {
					runtime.Gosched()
				}
			}
			_ = setResponse(codes.Content)
			mu.Lock()
			hlog[idx].done = true
			mu.Unlock()
		}
		stopRole := func() {}
		udpMonitor := udpClient.RequestMonitorFunc(func(_ *udpClient.Conn, rq *pool.Message) (bool, error) { return rq.Code() == codes.DELETE, nil })
		tcpMonitor := tcpClient.RequestMonitorFunc(func(_ *tcpClient.Conn, rq *pool.Message) (bool, error) { return rq.Code() == codes.DELETE, nil })
		var rawWrite func([]byte)
		sentDatagram := map[int]refcodec.Msg{}
		limit, nstart := int64(64), uint32(64)
		if sc.DefaultLimits {
			limit, nstart = 1, 1
		}
		if sc.Transport == "udp" {
			link := memnet.NewPacketLink(memnet.LinkCfg{LatencyMs: 1})
			c, stop, errRole := roles.Packet(sc.Role, link, bubble.Wait, []any{
				options.WithRequestMonitor(udpMonitor), endpoints.UDPCfg(func(cfg *udpClient.Config) { cfg.RequestMonitor = udpMonitor }),
				options.WithMessagePool(pool.New(8, 2048)), options.WithPeriodicRunner(tk.Runner()), options.WithErrors(errs.Add),
				options.WithBlockwise(false, 6, time.Second), options.WithReceivedMessageQueueSize(sc.Queue),
				options.WithLimitClientParallelRequest(limit), options.WithLimitClientEndpointParallelRequest(limit),
				options.WithTransmission(nstart, 2*time.Second, 2),
				options.WithHandlerFunc(udpClient.HandlerFunc(func(rw *responsewriter.ResponseWriter[*udpClient.Conn], rq *pool.Message) {
					handle(rw.Conn(), rq, func(code codes.Code) error {
						return rw.SetResponse(code, message.TextPlain, bytes.NewReader([]byte("ok")))
					})
				})),
			}...)
			if errRole != nil {
				panic(errRole)
			}
			cc, w, stopRole = c, wire.UDP(link), stop
		} else {
			link := memnet.NewStreamLink(memnet.StreamCfg{})
			rawWrite = func(b []byte) { _, _ = link.B.Write(b) }
			c, stop, err := roles.Stream(sc.Role, link, bubble.Wait, []any{
				options.WithRequestMonitor(tcpMonitor), endpoints.TCPCfg(func(cfg *tcpClient.Config) { cfg.RequestMonitor = tcpMonitor }),
				options.WithMessagePool(pool.New(8, 2048)), options.WithPeriodicRunner(tk.Runner()), options.WithErrors(errs.Add),
				options.WithBlockwise(false, 6, time.Second), options.WithReceivedMessageQueueSize(sc.Queue), options.WithCloseSocket(),
				options.WithLimitClientParallelRequest(limit), options.WithLimitClientEndpointParallelRequest(limit),
				options.WithHandlerFunc(tcpClient.HandlerFunc(func(rw *responsewriter.ResponseWriter[*tcpClient.Conn], rq *pool.Message) {
					handle(rw.Conn(), rq, func(code codes.Code) error {
						return rw.SetResponse(code, message.TextPlain, bytes.NewReader([]byte("ok")))
					})
				})),
			}...)
			if err != nil {
				panic(err)
			}
			cc, w, stopRole = c, wire.TCP(link), stop
		}
		bubble.Wait()
		_ = w.FromLib()
		pendingNested := map[string]refcodec.Msg{} // "id/depth" -> request seen on the wire
		pendingApp := map[int]refcodec.Msg{}
		nextMID := 53000
		lastLibMID := -1
		usedMID := map[int]bool{}
		// respond: the peer's response to rq. A response to a non-confirmable request is itself a
		// non-confirmable message with an ID of the peer's: like every ID the peer chooses it must not
		// be one the peer has used before (that would be a duplicate, which legitimately waits for the
		// handler that still holds the earlier message of that ID)
		respond := func(rq refcodec.Msg, code int, opts []refcodec.Opt, payload []byte, next *int) refcodec.Msg {
			m := wire.Respond(w, rq, code, opts, payload, next)
			if w.Datagram() && m.Type == peer.NON {
				for usedMID[m.MID] {
					*next++
					m.MID = *next & 0xffff
				}
				usedMID[m.MID] = true
			}
			return m
		}
		scan := func() {
			for _, m := range w.FromLib() {
				if debug {
					fmt.Printf("  lib->peer type=%d mid=%d code=%d tok=%x opts=%v\n", m.Type, m.MID, m.Code, m.Token, m.Opts)
				}
				if w.Datagram() && (m.Type == peer.CON || m.Type == peer.NON) {
					lastLibMID = m.MID
				}
				if m.Code != 1 {
					continue
				}
				var segs []string
				for _, o := range m.Opts {
					if o.Num == 11 {
						segs = append(segs, string(o.Val))
					}
				}
				if len(segs) == 3 && segs[0] == "n" {
					pendingNested[segs[1]+"/"+segs[2]] = m
				}
				if len(segs) == 2 && segs[0] == "a" {
					j, _ := strconv.Atoi(segs[1])
					pendingApp[j] = m
				}
			}
		}
		var wg sync.WaitGroup
		for k, e := range sc.Events {
			if !e.NoWait {
				bubble.Wait()
				scan()
			}
			switch e.Kind {
			case "inject":
				nextMID++
				m := refcodec.Msg{Code: 1, MID: nextMID & 0xffff, Token: []byte{0x11, byte(e.ID)}, Opts: peer.PathOpts("m", strconv.Itoa(e.ID), e.Beh)}
				if w.Datagram() && !e.Con {
					m.Type = peer.NON
				}
				if own := (lastLibMID + e.OwnMID) & 0xffff; e.OwnMID > 0 && w.Datagram() && lastLibMID >= 0 && !usedMID[own] && e.Beh != "rst" {
					m.MID = own
				}
				if e.Beh == "rst" && w.Datagram() {
					m = refcodec.Msg{Type: peer.RST, MID: m.MID}
				}
				for usedMID[m.MID] { // a well-behaved peer does not re-use an ID within the exchange lifetime
					nextMID++
					m.MID = nextMID & 0xffff
				}
				usedMID[m.MID] = true
				if e.Beh == "rst" && w.Datagram() {
					mu.Lock()
					rstOf[m.MID] = e.ID
					mu.Unlock()
				}
				if debug {
					fmt.Printf("  peer->lib inject %d type=%d mid=%d\n", e.ID, m.Type, m.MID)
				}
				sentDatagram[e.ID] = m
				if e.DropBefore {
					nextMID++
					d := refcodec.Msg{Code: 4, Type: peer.NON, MID: nextMID & 0xffff, Token: []byte{0x1D, byte(e.ID)}, Opts: peer.PathOpts("dropped")}
					usedMID[d.MID] = true
					if rawWrite != nil {
						rawWrite(append(peer.Frame(d), peer.Frame(m)...))
						break
					}
					w.ToLib(d)
				}
				w.ToLib(m)
			case "redeliver":
				if m, ok := sentDatagram[e.ID]; ok && w.Datagram() {
					w.ToLib(m)
				}
			case "answer":
				// answer the nested request(s) of handler ID that are on the wire, one at a time
				for d := 0; d < 3; d++ {
					key := fmt.Sprintf("%d/%d", e.ID, d)
					if rq, ok := pendingNested[key]; ok {
						delete(pendingNested, key)
						w.ToLib(respond(rq, 69, obsOpts(rq), []byte(fmt.Sprintf("N%d.%d", e.ID, d)), &nextMID))
						bubble.Wait()
						scan()
					}
				}
			case "release":
				if g, ok := gates[e.ID]; ok {
					select {
					case <-g:
					default:
						close(g)
					}
				}
			case "app":
				j := e.ID
				if appStarted[j] {
					continue
				}
				appStarted[j] = true
				wg.Add(1)
				go func() {
					defer wg.Done()
					ctx, cancel := context.WithTimeout(context.Background(), 20*time.Second)
					defer cancel()
					resp, err := cc.Get(ctx, fmt.Sprintf("/a/%d", j))
					s := ""
					if err != nil {
						s = "ERR " + err.Error()
					} else {
						b, _ := resp.ReadBody()
						s = string(b)
					}
					mu.Lock()
					appRes[j] = s
					mu.Unlock()
				}()
			case "appfail":
				wg.Add(1)
				go func() {
					defer wg.Done()
					ctx, cancel := context.WithTimeout(context.Background(), 300*time.Millisecond)
					defer cancel()
					_, _ = cc.Get(ctx, fmt.Sprintf("/f/%d", e.ID))
				}()
				bubble.Wait()
				time.Sleep(350 * time.Millisecond)
			case "answerapp":
				if rq, ok := pendingApp[e.ID]; ok {
					delete(pendingApp, e.ID)
					w.ToLib(respond(rq, 69, nil, []byte(fmt.Sprintf("A%d", e.ID)), &nextMID))
				}
			case "close":
				if !closed {
					closed, closedAtEvent = true, k
					_ = cc.Close()
				}
			}
		}
		// wind down: release every gate, answer everything that is still pending
		// (with the default limits the outstanding requests are served one at a time: go on while the
		// peer still finds something to answer)
		for round, idle := 0, 0; round < 200 && idle < 12; round++ {
			bubble.Wait()
			scan()
			if len(pendingNested)+len(pendingApp) > 0 {
				idle = 0
			} else {
				idle++
			}
			for _, g := range gates {
				select {
				case <-g:
				default:
					close(g)
				}
			}
			for key, rq := range pendingNested {
				delete(pendingNested, key)
				parts := strings.Split(key, "/")
				w.ToLib(respond(rq, 69, obsOpts(rq), []byte("N"+parts[0]+"."+parts[1]), &nextMID))
			}
			for j, rq := range pendingApp {
				delete(pendingApp, j)
				w.ToLib(respond(rq, 69, nil, []byte(fmt.Sprintf("A%d", j)), &nextMID))
			}
		}
		bubble.Wait()
		fin := make(chan struct{})
		go func() { wg.Wait(); close(fin) }()
		select {
		case <-fin:
		case <-time.After(25 * time.Second):
		}
		bubble.Wait()
		bad = w.Bad()
		_ = cc.Close()
		stopRole()
		bubble.Wait()
	})
	if fail != nil {
		return fail
	}
	if run.Panic != "" {
		return evid.Failf("dispatch/panic", sc, "panic in scenario: %s", run.Panic)
	}
	if run.Deadlock {
		return evid.Failf("dispatch/deadlock", sc, "all goroutines blocked while the scenario was still running")
	}
	r.Class("teardown_leaks", b2i(run.Leaked))
	if bad {
		return evid.Failf("dispatch/garbage-on-wire", sc, "the connection wrote undecodable bytes")
	}
	// ---- oracle
	count := map[int]int{}
	for _, h := range hlog {
		count[h.id]++
	}
	var injected []int
	for k, e := range sc.Events {
		if e.Kind != "inject" {
			continue
		}
		if closedAtEvent >= 0 && k > closedAtEvent {
			continue
		}
		injected = append(injected, e.ID)
		c := count[e.ID]
		if c > 1 {
			return evid.Failf("dispatch/processed-twice", sc, "message %d was handed to the handler %d times", e.ID, c)
		}
		if c == 0 && !closed {
			return evid.Failf("dispatch/dropped", sc, "message %d was injected while the connection was open but never reached the handler (dispatched: %v)", e.ID, ids(hlog))
		}
	}
	for _, h := range hlog {
		if h.nestErr != "" && !closed {
			return evid.Failf("dispatch/nested-request-failed", sc, "the handler of message %d issued a blocking request on its own connection and it failed: %s (the peer answers every nested request); errors the connection reported: %.400q", h.id, h.nestErr, errs.List())
		}
		if !h.done && !closed {
			return evid.Failf("dispatch/handler-stuck", sc, "the handler of message %d never finished although every gate was opened and every nested request answered", h.id)
		}
	}
	if !closed {
		for j := range appStarted {
			if appRes[j] != fmt.Sprintf("A%d", j) {
				return evid.Failf("dispatch/app-request", sc, "application request %d returned %q although the peer answered it", j, appRes[j])
			}
		}
	}
	// arrival order, when no handler ever blocks and nothing else uses the connection
	allPlain := !closed
	for _, e := range sc.Events {
		if (e.Kind == "inject" && e.Beh != "plain" && e.Beh != "busy") || e.Kind == "app" || e.Kind == "appfail" {
			allPlain = false
		}
	}
	if allPlain {
		got := ids(hlog)
		if fmt.Sprint(got) != fmt.Sprint(injected) {
			return evid.Failf("dispatch/order", sc, "no handler blocks, yet the dispatch order %v differs from the arrival order %v", got, injected)
		}
	}
	return nil
}

// obsOpts: an observe registration is answered with an Observe option.
func obsOpts(rq refcodec.Msg) []refcodec.Opt {
	if _, ok := peer.FindOpt(rq, 6); ok {
		return []refcodec.Opt{{Num: 6, Val: []byte{1}}}
	}
	return nil
}

func ids(h []hrec) []int {
	var out []int
	for _, x := range h {
		out = append(out, x.id)
	}
	return out
}

func b2i(b bool) int64 {
	if b {
		return 1
	}
	return 0
}

func gen(t *rapid.T) Scenario {
	sc := Scenario{Transport: rapid.SampledFrom([]string{"udp", "tcp"}).Draw(t, "transport"), Queue: rapid.SampledFrom([]int{0, 1, 16}).Draw(t, "queue")}
	sc.DefaultLimits = rapid.IntRange(0, 3).Draw(t, "deflimits") == 0
	if rapid.IntRange(0, 2).Draw(t, "role") == 0 {
		sc.Role = "server"
	}
	if rapid.IntRange(0, 24).Draw(t, "crowd") == 0 {
		// a crowd: 40-200 requests whose handlers all wait for a nested request of their own at the
		// same time (the peer answers them only at the end)
		sc.Queue = 16
		k := rapid.SampledFrom([]int{40, 140, 200}).Draw(t, "crowdsize")
		for id := 0; id < k; id++ {
			sc.Events = append(sc.Events, Event{Kind: "inject", ID: id, Beh: "nested", Depth: 1, Con: rapid.Bool().Draw(t, "con")})
		}
		return sc
	}
	n := rapid.IntRange(1, 14).Draw(t, "nev")
	allPlain := rapid.IntRange(0, 4).Draw(t, "allplain") == 0
	id, app := 0, 0
	var nested, gated, apps []int
	for i := 0; i < n; i++ {
		kinds := []string{"inject", "inject", "inject"}
		// ("redeliver" is executed but not generated: a duplicate that arrives while its handler waits
		// blocks on the per-ID mutex, which the bubble's quiescence detection cannot see through; that
		// constellation is C05's dedup engine, whose harness is built around it)
		if !allPlain {
			if len(nested) > 0 {
				kinds = append(kinds, "answer", "answer")
			}
			if len(gated) > 0 {
				kinds = append(kinds, "release")
			}
			kinds = append(kinds, "app")
			if rapid.IntRange(0, 3).Draw(t, "fails") == 0 {
				kinds = append(kinds, "appfail")
			}
			if len(apps) > 0 {
				kinds = append(kinds, "answerapp")
			}
			if rapid.IntRange(0, 30).Draw(t, "closes") == 0 {
				kinds = append(kinds, "close")
			}
		}
		e := Event{Kind: rapid.SampledFrom(kinds).Draw(t, "kind")}
		switch e.Kind {
		case "inject":
			e.ID = id
			id++
			e.Beh = rapid.SampledFrom([]string{"plain", "plain", "busy", "rst"}).Draw(t, "plainbeh")
			e.Con = rapid.Bool().Draw(t, "con")
			e.NoWait = i > 0 && sc.Events[i-1].Kind == "inject" && rapid.IntRange(0, 2).Draw(t, "nowait") > 0
			e.DropBefore = rapid.IntRange(0, 4).Draw(t, "dropbefore") == 0
			if !allPlain {
				e.Beh = rapid.SampledFrom([]string{"plain", "plain", "nested", "nested", "nestedobs", "nestednon", "gated"}).Draw(t, "beh")
			}
			if rapid.IntRange(0, 3).Draw(t, "ownmid") == 0 {
				// next to the library's own counter, or half the ID space away from it (where the
				// library moves its counter when it notices the former)
				e.OwnMID = rapid.SampledFrom([]int{1, 2, 2, 3, 4, 32768, 32769, 32770}).Draw(t, "ownmidoff")
			}
			if e.Beh == "nested" || e.Beh == "nestedobs" || e.Beh == "nestednon" {
				e.Depth = rapid.IntRange(1, 3).Draw(t, "depth")
				nested = append(nested, e.ID)
			}
			if e.Beh == "gated" {
				gated = append(gated, e.ID)
			}
		case "redeliver":
			e.ID = rapid.IntRange(0, id-1).Draw(t, "redeliverwhich")
		case "answer":
			k := rapid.IntRange(0, len(nested)-1).Draw(t, "which")
			e.ID = nested[k]
		case "release":
			k := rapid.IntRange(0, len(gated)-1).Draw(t, "which")
			e.ID = gated[k]
			gated = append(gated[:k], gated[k+1:]...)
		case "app":
			e.ID = app
			apps = append(apps, app)
			app++
		case "answerapp":
			k := rapid.IntRange(0, len(apps)-1).Draw(t, "which")
			e.ID = apps[k]
			apps = append(apps[:k], apps[k+1:]...)
		}
		sc.Events = append(sc.Events, e)
	}
	return sc
}

func nonTrivial(sc Scenario) bool {
	// a handler with a nested call while at least one further message is injected before it is answered
	open := map[int]bool{}
	for _, e := range sc.Events {
		switch e.Kind {
		case "inject":
			if len(open) > 0 {
				return true
			}
			if e.Beh == "nested" || e.Beh == "nestedobs" || e.Beh == "nestednon" {
				open[e.ID] = true
			}
		case "answer":
			delete(open, e.ID)
		}
	}
	return false
}

func TestCheck(t *testing.T) {
	r := evid.New(t, "C11")
	eng := evid.RapidEngine("dispatch", evid.RapidOpts{Quick: 8000, Thorough: 200000, Crashy: true}, gen, func(sc Scenario) *evid.Failure {
		f := Exec(t, sc, r)
		if f == nil {
			key := ""
			if nonTrivial(sc) {
				b, _ := json.Marshal(sc)
				key = string(b)
			}
			cls := []string{"dispatch/" + sc.Transport, fmt.Sprintf("dispatch/queue=%d", sc.Queue)}
			if sc.Role == "server" {
				cls = append(cls, "dispatch/connection-created-by-a-server")
			}
			for _, e := range sc.Events {
				if e.NoWait {
					cls = append(cls, "dispatch/burst")
					break
				}
			}
			for _, e := range sc.Events {
				if e.OwnMID > 0 && sc.Transport == "udp" {
					cls = append(cls, "dispatch/peer-uses-own-message-id")
					break
				}
			}
			for _, e := range sc.Events {
				if e.Kind == "appfail" {
					cls = append(cls, "dispatch/after-a-request-that-timed-out")
					break
				}
			}
			if len(sc.Events) >= 40 {
				cls = append(cls, "dispatch/crowd-of-40-to-200-handlers-waiting-at-once")
			}
			r.Case("dispatch", key, func() any { return sc }, cls...)
		}
		return f
	})
	r.Main(evid.Meta{
		Rule:        udpsrv.Rule + ". " + discsim.RuleDup + ". Others: a connection (datagram and stream, receive queue 0/1/16, generous request limits or the library's defaults of one outstanding request) in a synctest bubble; the scripted peer injects numbered requests whose handlers return at once, block on 1-3 sequential requests (confirmable or non-confirmable GETs or observe registrations) issued on the same connection, or block on a gate, or stay busy without blocking; in a twenty-fifth of the cases a crowd of 40-200 requests whose handlers all wait for their nested request at the same time; message IDs of the peer's choosing, some of them equal or close to the IDs the library itself is about to use or half the ID space away; messages arrive one by one (quiescence in between) or in bursts that pile up in the receive queue; it answers the nested requests after delivering further messages, other goroutines issue requests meanwhile (some of them never acknowledged or answered by the peer, so that they time out), the connection may be closed at a generated point; Oracle: every message injected while the connection is open reaches the handler exactly once; every nested request completes with its own response (so later messages — among them the awaited response — are processed while a handler waits); every handler finishes once gates are open and nested requests answered; application requests complete; with only non-blocking handlers and no other user of the connection the dispatch order equals the arrival order. Non-trivial = a handler waits on a nested request while a further message arrives; distinct by scenario",
		Assumptions: []string{"a handler that blocks on something other than its own connection (the gate) legitimately stalls later messages until it returns", "after close nothing is required of undelivered messages"},
		Floor:       300,
	}, eng, udpsrv.Engine(r, []string{"closed", "monclose", "monclose", "twolocal"}, 10, 250), discsim.Engine(r, "dup", 4, 100))
}
