package c15

import (
	"encoding/json"
	"fmt"
	"runtime"
	"strings"
	"sync"
	"testing"

	"pgregory.net/rapid"

	"verif/evid"
)

// nonTrivial replays the scenario on the model only and applies the rule of DESIGN.md 3/C15.
func nonTrivial(sc Scenario) bool {
	var m model
	total := 0
	for _, op := range sc.Ops {
		before := len(m)
		switch op.Op {
		case "set", "setstr", "setuint", "setcf", "setobserve", "setaccept", "setetag":
			id := map[string]int{"setcf": 12, "setobserve": 6, "setaccept": 17, "setetag": 4}[op.Op]
			if id == 0 {
				id = op.ID
			}
			if len(m.all(id)) >= 2 {
				return true
			}
			if len(m) > 0 && m[len(m)-1].ID > id {
				return true
			}
			m = m.set(id, op.Val)
		case "add", "addstr", "adduint", "addetag", "addquery":
			id := map[string]int{"addetag": 4, "addquery": 15}[op.Op]
			if id == 0 {
				id = op.ID
			}
			if len(m) > 0 && m[len(m)-1].ID > id {
				return true
			}
			m = m.add(id, op.Val)
		case "remove":
			m = m.remove(op.ID)
		case "setpath":
			m, _ = m.setPath(11, op.Path)
		case "setlocpath":
			m, _ = m.setPath(8, op.Path)
		case "resetto":
			m = m.resetTo(op.List)
		case "reset", "recycle":
			m, total = nil, 0
		}
		total += len(op.Val) + len(op.Path)
		if sc.Target == "pool" && total > 256 {
			return true
		}
		_ = before
	}
	return false
}

var ids = []int{1, 4, 6, 8, 11, 12, 15, 17, 60, 258, 65000, 65535, 0}

func genVal(t *rapid.T) []byte {
	n := rapid.SampledFrom([]int{0, 0, 1, 1, 2, 3, 4, 5, 8, 9, 13, 40, 100, 200, 255, 256, 257, 300}).Draw(t, "vlen")
	b := make([]byte, n)
	x := byte(rapid.IntRange(1, 250).Draw(t, "vseed"))
	for i := range b {
		b[i] = x + byte(i)
	}
	return b
}

var pathPieces = []string{"", "a", "b", "seg", "/", "//", "x.y", "%41", strings.Repeat("s", 255), strings.Repeat("l", 256), strings.Repeat("m", 100), "é", "a b"}

func genPath(t *rapid.T) string {
	n := rapid.IntRange(0, 5).Draw(t, "npieces")
	var sb strings.Builder
	if rapid.Bool().Draw(t, "lead") {
		sb.WriteByte('/')
	}
	for i := 0; i < n; i++ {
		sb.WriteString(rapid.SampledFrom(pathPieces).Draw(t, "piece"))
		if rapid.IntRange(0, 3).Draw(t, "sep") > 0 {
			sb.WriteByte('/')
		}
	}
	return sb.String()
}

func genList(t *rapid.T) []Opt {
	n := rapid.IntRange(0, 5).Draw(t, "nlist")
	var out []Opt
	for i := 0; i < n; i++ {
		out = append(out, Opt{rapid.SampledFrom(ids).Draw(t, "lid"), genVal(t)})
	}
	return out
}

func genScenario(target string) func(t *rapid.T) Scenario {
	return func(t *rapid.T) Scenario {
		sc := Scenario{Target: target, Cap: rapid.SampledFrom([]int{0, 1, 2, 3, 8, 16, 16, 20}).Draw(t, "cap")}
		kinds := []string{"set", "set", "add", "add", "setstr", "addstr", "setuint", "adduint", "setcf", "setobserve", "setaccept", "remove", "remove", "setpath", "resetto", "clone"}
		if target == "pool" {
			kinds = append(kinds, "setetag", "addetag", "addquery", "reset", "recycle", "resetself", "cloneself")
		} else {
			kinds = append(kinds, "setlocpath")
		}
		n := rapid.IntRange(1, 14).Draw(t, "nops")
		for i := 0; i < n; i++ {
			op := Op{Op: rapid.SampledFrom(kinds).Draw(t, "op")}
			switch op.Op {
			case "set", "add", "setstr", "addstr":
				op.ID = rapid.SampledFrom(ids).Draw(t, "id")
				op.Val = genVal(t)
			case "setetag", "addetag":
				op.Val = genVal(t)
				if len(op.Val) > 12 {
					op.Val = op.Val[:rapid.IntRange(0, 9).Draw(t, "etaglen")]
				}
			case "addquery":
				op.Val = genVal(t)
			case "setuint", "adduint":
				op.ID = rapid.SampledFrom(ids).Draw(t, "id")
				op.U = rapid.SampledFrom([]uint32{0, 1, 255, 256, 65535, 65536, 1<<24 - 1, 1 << 24, 1<<32 - 1}).Draw(t, "u")
			case "setcf", "setaccept":
				op.U = rapid.SampledFrom([]uint32{0, 40, 50, 255, 256, 10000, 65535}).Draw(t, "u")
			case "setobserve":
				op.U = rapid.SampledFrom([]uint32{0, 1, 255, 65536, 1<<24 - 1}).Draw(t, "u")
			case "remove":
				op.ID = rapid.SampledFrom(ids).Draw(t, "id")
			case "setpath", "setlocpath":
				op.Path = genPath(t)
			case "resetto":
				op.List = genList(t)
			}
			if target == "options" {
				op.Buf = rapid.SampledFrom([]int{0, 0, 0, 1, 5, 300, -1, -2, -300}).Draw(t, "buf")
			}
			sc.Ops = append(sc.Ops, op)
		}
		return sc
	}
}

func account(r *evid.Run, engine string) func(Scenario) *evid.Failure {
	return func(sc Scenario) *evid.Failure {
		f := Exec(sc)
		if f == nil {
			key := ""
			if nonTrivial(sc) {
				b, _ := json.Marshal(sc)
				key = string(b)
			}
			r.Case(engine, key, func() any { return sc }, fmt.Sprintf("%s/len=%d", engine, min(len(sc.Ops), 14)/5*5))
		}
		return f
	}
}

// exhaustive: all sequences up to length 4 over {set, add, remove} x 3 ids x 2 values, 3 capacities, 2 targets
func exhaustiveEngine() evid.Engine {
	var alphabet []Op
	for _, id := range []int{4, 11, 15} {
		for _, v := range [][]byte{{0x61}, {0x62, 0x63}} {
			alphabet = append(alphabet, Op{Op: "set", ID: id, Val: v}, Op{Op: "add", ID: id, Val: v})
		}
		alphabet = append(alphabet, Op{Op: "remove", ID: id})
	}
	return evid.Engine{Name: "exhaustive",
		Replay: func(raw json.RawMessage) *evid.Failure {
			var sc Scenario
			if err := json.Unmarshal(raw, &sc); err != nil {
				return &evid.Failure{Key: "replay/decode", Msg: err.Error()}
			}
			return evid.SafeExec("exhaustive", Exec, sc)
		},
		Search: func(r *evid.Run) {
			maxLen := 4
			var seqs [][]Op
			var rec func(cur []Op)
			rec = func(cur []Op) {
				if len(cur) > 0 {
					seqs = append(seqs, append([]Op(nil), cur...))
				}
				if len(cur) == maxLen {
					return
				}
				for _, a := range alphabet {
					rec(append(cur, a))
				}
			}
			rec(nil)
			var wg sync.WaitGroup
			n := runtime.GOMAXPROCS(0)
			for w := 0; w < n; w++ {
				wg.Add(1)
				go func(w int) {
					defer wg.Done()
					ex := account(r, "exhaustive")
					for i := w; i < len(seqs); i += n {
						for _, target := range []string{"options", "pool"} {
							for _, c := range []int{0, 2, 16} {
								if f := evid.SafeExec("exhaustive", ex, Scenario{Target: target, Cap: c, Ops: seqs[i]}); f != nil {
									r.Fail(f)
									if !r.IsKnown(f) {
										return
									}
								}
							}
						}
					}
				}(w)
			}
			wg.Wait()
			r.SetExhaustive()
			r.Note("exhaustive_subdomain", fmt.Sprintf("all %d sequences of length 1-4 over {set,add,remove} x ids {4,11,15} x 2 values, x 3 initial capacities x {message.Options, pool.Message}", len(seqs)))
		}}
}

func TestCheck(t *testing.T) {
	r := evid.New(t, "C15")
	optsE := evid.RapidEngine("options", evid.RapidOpts{Quick: 60000, Thorough: 1500000}, genScenario("options"), account(r, "options"))
	poolE := evid.RapidEngine("pool", evid.RapidOpts{Quick: 60000, Thorough: 1500000}, genScenario("pool"), account(r, "pool"))
	r.Main(evid.Meta{
		Rule:        "operation sequences on message.Options (fresh caller buffer per call, exact / too small / larger) and on pool.Message (typed setters, clone, reset, recycle) against a reference list (ascending by number, insertion order among equals, private value copies); after every step the whole list and every query (Find, HasOption, single and multi-value getters with exact / larger / too-small outputs, Path, LocationPath, Queries, typed getters) are compared; inputs are scribbled over after each call. Exhaustive: every sequence of length <= 4 over {set, add, remove} x 3 ids x 2 values x 3 capacities x both targets; random: sequences of 1-14 ops over 13 option numbers (0 and 65535, the ends of the 16-bit range, among them), values 0-300 bytes, a path grammar with empty / 255 / 256-byte segments. Non-trivial = an insertion before an existing larger number, a set on an option that has >= 2 values, or (pool) more than 256 value bytes so that the value buffer grows; distinct by scenario",
		Assumptions: []string{"after ErrTooSmall from message.Options the list is only required to support the documented retry with a larger buffer on the returned list", "SetPath(\"\") is a documented no-op; the path round-trip law is asserted for paths with at least one non-empty segment", "GetUint32 on values longer than 4 bytes is only required not to crash and to agree with GetUint32s"},
		Floor:       2000,
	}, exhaustiveEngine(), optsE, poolE)
}
