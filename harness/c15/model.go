// C15 — option list and message builder behave like a sorted multiset model.
package c15

import (
	"bytes"
	"context"
	"errors"
	"fmt"
	"strings"

	"github.com/plgd-dev/go-coap/v3/message"
	"github.com/plgd-dev/go-coap/v3/message/pool"

	"verif/evid"
)

type Opt struct {
	ID  int    `json:"id"`
	Val []byte `json:"val"`
}

// Op is one step of a scenario.
type Op struct {
	Op   string `json:"op"`
	ID   int    `json:"id,omitempty"`
	Val  []byte `json:"val,omitempty"`
	U    uint32 `json:"u,omitempty"`
	Path string `json:"path,omitempty"`
	Buf  int    `json:"buf,omitempty"` // direct engine: spare(+)/missing(-) bytes of the buffer relative to the need; 0 = exact
	List []Opt  `json:"list,omitempty"`
}

type Scenario struct {
	Target string `json:"target"` // "options" (message.Options) | "pool" (pool.Message)
	Cap    int    `json:"cap"`    // initial capacity of the option slice
	Ops    []Op   `json:"ops"`
}

// ---- the reference list ---------------------------------------------------------------------

type model []Opt

func (m model) clone() model {
	out := make(model, len(m))
	for i, o := range m {
		out[i] = Opt{o.ID, append([]byte(nil), o.Val...)}
	}
	return out
}

func (m model) remove(id int) model {
	out := m[:0:0]
	for _, o := range m {
		if o.ID != id {
			out = append(out, o)
		}
	}
	return out
}

// add inserts behind the last option whose number is <= id (insertion order among equals).
func (m model) add(id int, v []byte) model {
	pos := 0
	for pos < len(m) && m[pos].ID <= id {
		pos++
	}
	out := append(model{}, m[:pos]...)
	out = append(out, Opt{id, append([]byte(nil), v...)})
	return append(out, m[pos:]...)
}

func (m model) set(id int, v []byte) model { return m.remove(id).add(id, v) }

func (m model) all(id int) [][]byte {
	var out [][]byte
	for _, o := range m {
		if o.ID == id {
			out = append(out, o.Val)
		}
	}
	return out
}

func encUint(u uint32) []byte {
	switch {
	case u == 0:
		return nil
	case u < 1<<8:
		return []byte{byte(u)}
	case u < 1<<16:
		return []byte{byte(u >> 8), byte(u)}
	case u < 1<<24:
		return []byte{byte(u >> 16), byte(u >> 8), byte(u)}
	}
	return []byte{byte(u >> 24), byte(u >> 16), byte(u >> 8), byte(u)}
}

func decUint(b []byte) uint32 {
	var u uint32
	for _, x := range b {
		u = u<<8 | uint32(x)
	}
	return u
}

// segments splits as RFC 7252 6.4/6.5 prescribe for Uri-Path: empty segments are dropped.
func segments(p string) (segs []string, tooLong bool) {
	for _, s := range strings.Split(p, "/") {
		if s == "" {
			continue
		}
		if len(s) > 255 {
			tooLong = true
		}
		segs = append(segs, s)
	}
	return
}

func (m model) setPath(id int, p string) (model, bool) {
	if p == "" {
		return m, true // documented no-op
	}
	segs, tooLong := segments(p)
	if tooLong {
		return m, false // refused, list unchanged
	}
	out := m.remove(id)
	for _, s := range segs {
		out = out.add(id, []byte(s))
	}
	return out, true
}

func (m model) resetTo(in []Opt) model {
	var out model
	for _, o := range in {
		out = out.add(o.ID, o.Val)
	}
	return out
}

func (m model) path(id int) (string, bool) {
	vals := m.all(id)
	if len(vals) == 0 {
		return "", false
	}
	var sb strings.Builder
	for _, v := range vals {
		sb.WriteByte('/')
		sb.Write(v)
	}
	return sb.String(), true
}

// ---- comparison of a library option list with the model -----------------------------------------

func listString(o message.Options) string {
	var sb strings.Builder
	for _, x := range o {
		fmt.Fprintf(&sb, "(%d:%x)", x.ID, x.Value)
	}
	return sb.String()
}

func (m model) String() string {
	var sb strings.Builder
	for _, x := range m {
		fmt.Fprintf(&sb, "(%d:%x)", x.ID, x.Val)
	}
	return sb.String()
}

func sameList(o message.Options, m model) bool {
	if len(o) != len(m) {
		return false
	}
	for i := range o {
		if int(o[i].ID) != m[i].ID || !bytes.Equal(o[i].Value, m[i].Val) {
			return false
		}
	}
	return true
}

var queryIDs = []int{1, 4, 6, 8, 11, 12, 15, 17, 60, 258, 65000, 2, 70, 65535, 65534, 0}

// checkQueries compares every query operation with the model.
func checkQueries(sc any, step int, o message.Options, m model) *evid.Failure {
	fail := func(key, format string, args ...any) *evid.Failure {
		return evid.Failf("query/"+key, sc, "step %d, list %s: %s", step, m.String(), fmt.Sprintf(format, args...))
	}
	for _, id := range queryIDs {
		oid := message.OptionID(id)
		vals := m.all(id)
		first, last, err := o.Find(oid)
		if len(vals) == 0 {
			if !errors.Is(err, message.ErrOptionNotFound) {
				return fail("find-absent", "Find(%d) = (%d,%d,%v) for an absent option", id, first, last, err)
			}
			if o.HasOption(oid) {
				return fail("has-absent", "HasOption(%d) = true", id)
			}
			if _, err := o.GetBytes(oid); err == nil {
				return fail("getbytes-absent", "GetBytes(%d) succeeded", id)
			}
			if _, err := o.GetUint32(oid); err == nil {
				return fail("getuint-absent", "GetUint32(%d) succeeded", id)
			}
			if n, err := o.GetUint32s(oid, make([]uint32, 2)); err == nil {
				return fail("getuints-absent", "GetUint32s(%d) = %d, nil", id, n)
			}
			if n, err := o.GetStrings(oid, make([]string, 2)); err == nil {
				return fail("getstrings-absent", "GetStrings(%d) = %d, nil", id, n)
			}
			continue
		}
		// position of the first option with this number in the model
		wantFirst := 0
		for wantFirst < len(m) && m[wantFirst].ID != id {
			wantFirst++
		}
		if err != nil || first != wantFirst || last != wantFirst+len(vals) {
			return fail("find", "Find(%d) = (%d,%d,%v), want (%d,%d)", id, first, last, err, wantFirst, wantFirst+len(vals))
		}
		if !o.HasOption(oid) {
			return fail("has", "HasOption(%d) = false", id)
		}
		if b, err := o.GetBytes(oid); err != nil || !bytes.Equal(b, vals[0]) {
			return fail("getbytes", "GetBytes(%d) = %x, %v want %x", id, b, err, vals[0])
		}
		if s, err := o.GetString(oid); err != nil || s != string(vals[0]) {
			return fail("getstring", "GetString(%d) = %q, %v", id, s, err)
		}
		// multi-value getters with exact, larger and too-small outputs
		for _, extra := range []int{0, 2, -1} {
			n := len(vals) + extra
			if n < 0 {
				continue
			}
			bs := make([][]byte, n)
			cnt, err := o.GetBytess(oid, bs)
			ss := make([]string, n)
			cnt2, err2 := o.GetStrings(oid, ss)
			if extra < 0 {
				if !errors.Is(err, message.ErrTooSmall) || cnt != len(vals) || !errors.Is(err2, message.ErrTooSmall) || cnt2 != len(vals) {
					return fail("multi-too-small", "GetBytess/GetStrings(%d) into %d slots = (%d,%v)/(%d,%v), want (%d, ErrTooSmall)", id, n, cnt, err, cnt2, err2, len(vals))
				}
				continue
			}
			if err != nil || cnt != len(vals) || err2 != nil || cnt2 != len(vals) {
				return fail("multi-count", "GetBytess/GetStrings(%d) into %d slots = (%d,%v)/(%d,%v), want %d", id, n, cnt, err, cnt2, err2, len(vals))
			}
			for i := range vals {
				if !bytes.Equal(bs[i], vals[i]) || ss[i] != string(vals[i]) {
					return fail("multi-values", "GetBytess/GetStrings(%d)[%d] = %x / %q, want %x", id, i, bs[i], ss[i], vals[i])
				}
			}
		}
		// unsigned getters are compared when every value is a legal uint (<= 4 bytes)
		allUint := true
		for _, v := range vals {
			if len(v) > 4 {
				allUint = false
			}
		}
		if allUint {
			if u, err := o.GetUint32(oid); err != nil || u != decUint(vals[0]) {
				return fail("getuint", "GetUint32(%d) = %d, %v want %d", id, u, err, decUint(vals[0]))
			}
		} else {
			_, _ = o.GetUint32(oid) // must not crash
		}
		for _, extra := range []int{0, 1, -1} {
			n := len(vals) + extra
			if n < 0 {
				continue
			}
			us := make([]uint32, n)
			for i := range us {
				us[i] = 0xdeadbeef
			}
			cnt, err := o.GetUint32s(oid, us)
			if extra < 0 {
				if !errors.Is(err, message.ErrTooSmall) || cnt != len(vals) {
					return fail("uints-too-small", "GetUint32s(%d) into %d slots = (%d,%v), want (%d, ErrTooSmall)", id, n, cnt, err, len(vals))
				}
				continue
			}
			if err != nil || cnt != len(vals) {
				return fail("uints-count", "GetUint32s(%d) into %d slots = (%d,%v), want %d", id, n, cnt, err, len(vals))
			}
			if allUint {
				for i := range vals {
					if us[i] != decUint(vals[i]) {
						return fail("uints-values", "GetUint32s(%d)[%d] = %d want %d", id, i, us[i], decUint(vals[i]))
					}
				}
			} else {
				// values longer than 4 bytes have no numeric meaning in the model; the single and the
				// multi-value getter must still answer consistently with each other
				for i := range vals {
					single, err := (message.Options{{ID: oid, Value: vals[i]}}).GetUint32(oid)
					if err == nil && us[i] != single {
						return fail("uints-inconsistent", "GetUint32s(%d)[%d] = %d but GetUint32 on the same %d-byte value gives %d", id, i, us[i], len(vals[i]), single)
					}
				}
			}
			for i := len(vals); i < n; i++ {
				if us[i] != 0xdeadbeef {
					return fail("uints-overrun", "GetUint32s(%d) wrote slot %d beyond its %d values", id, i, len(vals))
				}
			}
		}
	}
	// path-like getters
	for _, pc := range []struct {
		id  int
		get func() (string, error)
	}{{11, o.Path}, {8, o.LocationPath}} {
		want, ok := m.path(pc.id)
		got, err := pc.get()
		if ok != (err == nil) || (ok && got != want) {
			return fail("path", "path getter for option %d = %q, %v; model %q, %v", pc.id, got, err, want, ok)
		}
	}
	qs, err := o.Queries()
	wantQ := m.all(15)
	if (len(wantQ) > 0) != (err == nil) || len(qs) != len(wantQ) {
		return fail("queries", "Queries() = %q, %v; model has %d", qs, err, len(wantQ))
	}
	for i := range wantQ {
		if qs[i] != string(wantQ[i]) {
			return fail("queries-values", "Queries()[%d] = %q want %q", i, qs[i], wantQ[i])
		}
	}
	for _, tc := range []struct {
		id  int
		get func() (uint32, error)
	}{
		{12, func() (uint32, error) { v, e := o.ContentFormat(); return uint32(v), e }},
		{17, func() (uint32, error) { v, e := o.Accept(); return uint32(v), e }},
		{6, o.Observe},
	} {
		vals := m.all(tc.id)
		got, err := tc.get()
		if (len(vals) > 0) != (err == nil) {
			return fail("typed-presence", "typed getter for option %d: err=%v, model has %d values", tc.id, err, len(vals))
		}
		if len(vals) > 0 && len(vals[0]) <= 2 && got != decUint(vals[0]) {
			return fail("typed-value", "typed getter for option %d = %d want %d", tc.id, got, decUint(vals[0]))
		}
	}
	return nil
}

// ---- executor: message.Options with caller-supplied buffers ------------------------------------------

const guard = 0x5c

func execOptions(sc Scenario) *evid.Failure {
	opts := make(message.Options, 0, sc.Cap)
	var m model
	// every call gets its own buffer region, as every caller in the repository does
	newBuf := func(need, delta int) ([]byte, []byte) {
		n := need + delta
		if n < 0 {
			n = 0
		}
		arr := make([]byte, n+8)
		for i := range arr {
			arr[i] = guard
		}
		return arr[:n], arr
	}
	guardOK := func(arr []byte, n int) bool {
		for _, b := range arr[n:] {
			if b != guard {
				return false
			}
		}
		return true
	}
	for i, op := range sc.Ops {
		fail := func(key, format string, args ...any) *evid.Failure {
			return evid.Failf("options/"+key, sc, "step %d %s: %s", i, op.Op, fmt.Sprintf(format, args...))
		}
		id := message.OptionID(op.ID)
		val := append([]byte(nil), op.Val...)
		var err error
		var used int
		var next message.Options
		retry := func(call func(buf []byte) (message.Options, int, error), need int) *evid.Failure {
			buf, arr := newBuf(need, op.Buf)
			next, used, err = call(buf)
			if !guardOK(arr, len(buf)) {
				return fail("buffer-overrun", "wrote beyond a buffer of %d bytes", len(buf))
			}
			if errors.Is(err, message.ErrTooSmall) {
				if len(buf) >= need {
					return fail("spurious-too-small", "ErrTooSmall although the buffer has %d bytes and %d are needed", len(buf), need)
				}
				// the documented retry: same call on the returned list with a large enough buffer
				opts = next
				buf, arr = newBuf(need, 3)
				next, used, err = call(buf)
				if !guardOK(arr, len(buf)) {
					return fail("buffer-overrun", "wrote beyond a buffer of %d bytes", len(buf))
				}
			} else if err == nil && len(buf) < need {
				return fail("missing-too-small", "succeeded with a buffer of %d bytes although %d are needed", len(buf), need)
			}
			return nil
		}
		switch op.Op {
		case "set":
			if f := retry(func(b []byte) (message.Options, int, error) { return opts.SetBytes(b, id, val) }, len(val)); f != nil {
				return f
			}
			if op.ID == 11 && len(val) > 255 {
				if err == nil {
					return fail("long-segment-accepted", "Uri-Path value of %d bytes accepted", len(val))
				}
				next = opts
			} else if err != nil {
				return fail("error", "%v", err)
			} else {
				m = m.set(op.ID, val)
			}
		case "add":
			if f := retry(func(b []byte) (message.Options, int, error) { return opts.AddBytes(b, id, val) }, len(val)); f != nil {
				return f
			}
			if op.ID == 11 && len(val) > 255 {
				if err == nil {
					return fail("long-segment-accepted", "Uri-Path value of %d bytes accepted", len(val))
				}
				next = opts
			} else if err != nil {
				return fail("error", "%v", err)
			} else {
				m = m.add(op.ID, val)
			}
		case "setstr":
			if f := retry(func(b []byte) (message.Options, int, error) { return opts.SetString(b, id, string(val)) }, len(val)); f != nil {
				return f
			}
			if op.ID == 11 && len(val) > 255 {
				next = opts
			} else if err != nil {
				return fail("error", "%v", err)
			} else {
				m = m.set(op.ID, val)
			}
		case "addstr":
			if f := retry(func(b []byte) (message.Options, int, error) { return opts.AddString(b, id, string(val)) }, len(val)); f != nil {
				return f
			}
			if op.ID == 11 && len(val) > 255 {
				next = opts
			} else if err != nil {
				return fail("error", "%v", err)
			} else {
				m = m.add(op.ID, val)
			}
		case "setuint", "adduint", "setcf", "setobserve", "setaccept":
			enc := encUint(op.U)
			call := func(b []byte) (message.Options, int, error) { return opts.SetUint32(b, id, op.U) }
			mid := op.ID
			switch op.Op {
			case "adduint":
				call = func(b []byte) (message.Options, int, error) { return opts.AddUint32(b, id, op.U) }
			case "setcf":
				mid = 12
				call = func(b []byte) (message.Options, int, error) { return opts.SetContentFormat(b, message.MediaType(op.U)) }
				enc = encUint(op.U & 0xffff)
			case "setobserve":
				mid = 6
				call = func(b []byte) (message.Options, int, error) { return opts.SetObserve(b, op.U) }
			case "setaccept":
				mid = 17
				call = func(b []byte) (message.Options, int, error) { return opts.SetAccept(b, message.MediaType(op.U)) }
				enc = encUint(op.U & 0xffff)
			}
			if f := retry(call, len(enc)); f != nil {
				return f
			}
			if err != nil {
				return fail("error", "%v", err)
			}
			if op.Op == "adduint" {
				m = m.add(mid, enc)
			} else {
				m = m.set(mid, enc)
			}
		case "remove":
			next = opts.Remove(id)
			m = m.remove(op.ID)
		case "setpath", "setlocpath":
			pid := 11
			call := func(b []byte) (message.Options, int, error) { return opts.SetPath(b, op.Path) }
			if op.Op == "setlocpath" {
				pid = 8
				call = func(b []byte) (message.Options, int, error) { return opts.SetLocationPath(b, op.Path) }
			}
			segs, tooLong := segments(op.Path)
			need := 0
			for _, s := range segs {
				need += len(s)
			}
			if tooLong {
				buf, _ := newBuf(need, 4)
				before := m.clone()
				next, _, err = call(buf)
				if err == nil {
					return fail("long-segment-accepted", "path with a segment longer than 255 bytes accepted")
				}
				if !sameList(next, before) {
					return fail("refused-path-changed-list", "the refused call changed the list: %s, want %s", listString(next), before.String())
				}
			} else {
				if f := retry(call, need); f != nil {
					return f
				}
				if err != nil {
					return fail("error", "%v", err)
				}
				m, _ = m.setPath(pid, op.Path)
				if len(segs) > 0 {
					get := next.Path
					if pid == 8 {
						get = next.LocationPath
					}
					if p, err := get(); err != nil || p != "/"+strings.Join(segs, "/") {
						return fail("path-roundtrip", "after SetPath(%q) the path is %q, %v; normalised %q", op.Path, p, err, "/"+strings.Join(segs, "/"))
					}
				}
			}
		case "resetto":
			in := make(message.Options, 0, len(op.List))
			need := 0
			for _, o := range op.List {
				in = append(in, message.Option{ID: message.OptionID(o.ID), Value: append([]byte(nil), o.Val...)})
				need += len(o.Val)
			}
			if f := retry(func(b []byte) (message.Options, int, error) { return opts.ResetOptionsTo(b, in) }, need); f != nil {
				return f
			}
			if err != nil {
				return fail("error", "%v", err)
			}
			m = m.resetTo(op.List)
			for k := range in { // the source may be reused by the caller afterwards
				for j := range in[k].Value {
					in[k].Value[j] ^= 0xff
				}
			}
		case "clone":
			c, err := opts.Clone()
			if err != nil {
				return fail("error", "%v", err)
			}
			if !sameList(c, m) {
				return fail("clone-differs", "clone %s, model %s", listString(c), m.String())
			}
			// continue on the clone; scribble over the original to show independence
			for k := range opts {
				for j := range opts[k].Value {
					opts[k].Value[j] ^= 0xff
				}
				opts[k].ID = 9999
			}
			next = c
		default:
			return fail("harness", "unknown op")
		}
		_ = used
		// the caller's input may be reused after the call
		for j := range val {
			val[j] ^= 0xff
		}
		opts = next
		if !sameList(opts, m) {
			return evid.Failf("options/list-differs", sc, "after step %d (%s id=%d): list %s, model %s", i, op.Op, op.ID, listString(opts), m.String())
		}
		if f := checkQueries(sc, i, opts, m); f != nil {
			return f
		}
	}
	return nil
}

// ---- executor: pool.Message -------------------------------------------------------------------------------

func execPool(sc Scenario) *evid.Failure {
	p := pool.New(4, 1024)
	msg := p.AcquireMessage(context.Background())
	if sc.Cap != 16 {
		// start from an option slice of the drawn capacity (what SetMessage from application code does)
		msg.SetMessage(message.Message{Options: make(message.Options, 0, sc.Cap)})
	}
	var m model
	type frozen struct {
		msg *pool.Message
		m   model
	}
	var originals []frozen
	for i, op := range sc.Ops {
		fail := func(key, format string, args ...any) *evid.Failure {
			return evid.Failf("pool/"+key, sc, "step %d %s: %s", i, op.Op, fmt.Sprintf(format, args...))
		}
		id := message.OptionID(op.ID)
		val := append([]byte(nil), op.Val...)
		switch op.Op {
		case "set":
			msg.SetOptionBytes(id, val)
			m = m.set(op.ID, val)
		case "add":
			msg.AddOptionBytes(id, val)
			m = m.add(op.ID, val)
		case "setstr":
			if op.ID == 11 && len(val) > 255 {
				continue // SetOptionString panics on refused values by contract ("cannot set string option")
			}
			msg.SetOptionString(id, string(val))
			m = m.set(op.ID, val)
		case "addstr":
			if op.ID == 11 && len(val) > 255 {
				continue
			}
			msg.AddOptionString(id, string(val))
			m = m.add(op.ID, val)
		case "setuint":
			msg.SetOptionUint32(id, op.U)
			m = m.set(op.ID, encUint(op.U))
		case "adduint":
			msg.AddOptionUint32(id, op.U)
			m = m.add(op.ID, encUint(op.U))
		case "setcf":
			msg.SetContentFormat(message.MediaType(op.U))
			m = m.set(12, encUint(op.U&0xffff))
		case "setobserve":
			msg.SetObserve(op.U)
			m = m.set(6, encUint(op.U))
		case "setaccept":
			msg.SetAccept(message.MediaType(op.U))
			m = m.set(17, encUint(op.U&0xffff))
		case "setetag", "addetag":
			var err error
			if op.Op == "setetag" {
				err = msg.SetETag(val)
			} else {
				err = msg.AddETag(val)
			}
			legal := len(val) >= 1 && len(val) <= 8
			if legal != (err == nil) {
				return fail("etag-length", "ETag of %d bytes: err=%v", len(val), err)
			}
			if legal {
				if op.Op == "setetag" {
					m = m.set(4, val)
				} else {
					m = m.add(4, val)
				}
			}
		case "addquery":
			msg.AddQuery(string(val))
			m = m.add(15, val)
		case "remove":
			msg.Remove(id)
			m = m.remove(op.ID)
		case "setpath":
			err := msg.SetPath(op.Path)
			segs, tooLong := segments(op.Path)
			if tooLong {
				if err == nil {
					return fail("long-segment-accepted", "path with a segment longer than 255 bytes accepted")
				}
			} else {
				if err != nil {
					return fail("error", "SetPath(%q): %v", op.Path, err)
				}
				m, _ = m.setPath(11, op.Path)
				if len(segs) > 0 {
					if got, err := msg.Path(); err != nil || got != "/"+strings.Join(segs, "/") {
						return fail("path-roundtrip", "after SetPath(%q) Path() = %q, %v", op.Path, got, err)
					}
				}
			}
		case "resetto":
			in := make(message.Options, 0, len(op.List))
			for _, o := range op.List {
				in = append(in, message.Option{ID: message.OptionID(o.ID), Value: append([]byte(nil), o.Val...)})
			}
			msg.ResetOptionsTo(in)
			m = m.resetTo(op.List)
			for k := range in {
				for j := range in[k].Value {
					in[k].Value[j] ^= 0xff
				}
			}
		case "resetself":
			// an aliasing argument: the message's own option list handed back to it (what
			// SetupGet(path, token, m.Options()...) does too); the list stays what it was
			msg.ResetOptionsTo(msg.Options())
		case "cloneself":
			if err := msg.Clone(msg); err != nil {
				return fail("error", "Clone onto itself: %v", err)
			}
		case "clone":
			c := p.AcquireMessage(context.Background())
			if err := msg.Clone(c); err != nil {
				return fail("error", "Clone: %v", err)
			}
			originals = append(originals, frozen{msg, m.clone()})
			msg = c
		case "reset":
			msg.Reset()
			m = nil
		case "recycle":
			// release and re-acquire: the next life starts empty
			for k := range originals {
				if originals[k].msg == msg {
					originals = append(originals[:k], originals[k+1:]...)
					break
				}
			}
			p.ReleaseMessage(msg)
			msg = p.AcquireMessage(context.Background())
			m = nil
		default:
			return fail("harness", "unknown op")
		}
		for j := range val {
			val[j] ^= 0xff
		}
		if !sameList(msg.Options(), m) {
			return evid.Failf("pool/list-differs", sc, "after step %d (%s id=%d): list %s, model %s", i, op.Op, op.ID, listString(msg.Options()), m.String())
		}
		if f := checkQueries(sc, i, msg.Options(), m); f != nil {
			return f
		}
		// typed getters of the message itself
		if et, err := msg.ETag(); len(m.all(4)) > 0 && (err != nil || !bytes.Equal(et, m.all(4)[0])) {
			return fail("etag", "ETag() = %x, %v", et, err)
		}
		ets := make([][]byte, len(m.all(4)))
		if n, err := msg.ETags(ets); len(ets) > 0 && (err != nil || n != len(ets)) {
			return fail("etags", "ETags() = %d, %v want %d", n, err, len(ets))
		}
		for _, fz := range originals {
			if !sameList(fz.msg.Options(), fz.m) {
				return evid.Failf("pool/clone-source-changed", sc, "after step %d the message that was cloned earlier changed: %s, want %s", i, listString(fz.msg.Options()), fz.m.String())
			}
		}
	}
	return nil
}

func Exec(sc Scenario) *evid.Failure {
	if sc.Target == "pool" {
		return execPool(sc)
	}
	return execOptions(sc)
}
