//go:build verif

package c10

import (
	"bytes"
	"context"
	"encoding/hex"
	"encoding/json"
	"fmt"
	"net"
	"sync"
	"time"

	"github.com/plgd-dev/go-coap/v3/message"
	"github.com/plgd-dev/go-coap/v3/message/codes"
	"github.com/plgd-dev/go-coap/v3/message/pool"
	coapNet "github.com/plgd-dev/go-coap/v3/net"
	"github.com/plgd-dev/go-coap/v3/net/responsewriter"
	"github.com/plgd-dev/go-coap/v3/options"
	"github.com/plgd-dev/go-coap/v3/udp"
	udpClient "github.com/plgd-dev/go-coap/v3/udp/client"
	"pgregory.net/rapid"

	"verif/evid"
	"verif/peer"
	"verif/refcodec"
)

// RealScenario runs against the real loopback udp/server (which is tied to *net.UDPConn).
type RealScenario struct {
	Good  int    `json:"good"`
	Bad   int    `json:"bad"`
	Steps []Step `json:"steps"`
	// discovery: responders answer a unicast Discover from their own sockets
	Responders int  `json:"responders"`
	StrayToken bool `json:"strayToken"` // one responder also answers with a token nobody registered
	TwoAtOnce  bool `json:"twoAtOnce"`  // two Discover calls (different tokens) run concurrently
	// SameToken (with TwoAtOnce): the token source hands the second call the token of the first,
	// which is still running: the second call must be refused without disturbing the first
	SameToken bool `json:"sameToken,omitempty"`
}

func execRealOnce(sc RealScenario) *evid.Failure {
	l, err := coapNet.NewListenUDP("udp4", "127.0.0.1:0")
	if err != nil {
		return nil // no loopback UDP in this environment: nothing to decide
	}
	defer l.Close()
	var mu sync.Mutex
	var handled []hlog
	newConns := map[string]int{}
	var srvErrs []string
	tokN := 0
	s := udp.NewServer(
		options.WithHandlerFunc(udpClient.HandlerFunc(func(w *responsewriter.ResponseWriter[*udpClient.Conn], rq *pool.Message) {
			if rq.Code() != codes.POST {
				return
			}
			b, _ := rq.ReadBody()
			mu.Lock()
			handled = append(handled, hlog{w.Conn().RemoteAddr().String(), string(b)})
			mu.Unlock()
			if path, _ := rq.Path(); path == "/ask-con" || path == "/ask-non" || path == "/ask-rst" {
				// the handler asks the peer something on the peer's own connection before it answers
				// (confirmable or non-confirmable): the server goes on serving meanwhile
				wait := 4 * time.Second
				if path == "/ask-rst" {
					wait = 300 * time.Millisecond // (the peer will reject the request: nothing to wait for)
				}
				ctx, cancel := context.WithTimeout(context.Background(), wait)
				defer cancel()
				q, err := w.Conn().NewGetRequest(ctx, "/q")
				if err == nil {
					if path == "/ask-non" {
						q.SetType(message.NonConfirmable)
					}
					var resp *pool.Message
					if resp, err = w.Conn().Do(q); err == nil {
						qb, _ := resp.ReadBody()
						if string(qb) != "q" {
							err = fmt.Errorf("the peer answered %q", qb)
						}
					}
				}
				if err != nil {
					_ = w.SetResponse(codes.InternalServerError, message.TextPlain, bytes.NewReader([]byte("the handler's own request to the peer failed: "+err.Error())))
					return
				}
			}
			_ = w.SetResponse(codes.Changed, message.TextPlain, bytes.NewReader(append([]byte("echo:"), b...)))
		})),
		options.WithOnNewConn(func(cc *udpClient.Conn) {
			mu.Lock()
			newConns[cc.RemoteAddr().String()]++
			mu.Unlock()
		}),
		options.WithErrors(func(e error) { mu.Lock(); srvErrs = append(srvErrs, e.Error()); mu.Unlock() }),
		options.WithMessagePool(pool.New(32, 2048)),
		options.WithGetToken(func() (message.Token, error) {
			mu.Lock()
			defer mu.Unlock()
			tokN++
			if sc.SameToken {
				return message.Token{0xD1, 0x01}, nil
			}
			return message.Token{0xD1, byte(tokN)}, nil
		}),
	)
	serveDone := make(chan error, 1)
	go func() { serveDone <- s.Serve(l) }()
	defer func() {
		s.Stop()
		select {
		case <-serveDone:
		case <-time.After(5 * time.Second):
		}
	}()
	addr := l.LocalAddr().String()
	srvUDP, _ := net.ResolveUDPAddr("udp4", addr)
	good := make([]*udpClient.Conn, sc.Good)
	sent := make([][]string, sc.Good)
	for i := range good {
		c, err := udp.Dial(addr, options.WithMessagePool(pool.New(8, 2048)),
			options.WithHandlerFunc(udpClient.HandlerFunc(func(w *responsewriter.ResponseWriter[*udpClient.Conn], rq *pool.Message) {
				if rq.Code() == codes.GET {
					_ = w.SetResponse(codes.Content, message.TextPlain, bytes.NewReader([]byte("q")))
				}
			})))
		if err != nil {
			return evid.Failf("real/dial", sc, "udp.Dial: %v", err)
		}
		good[i] = c
		defer c.Close()
	}
	bad := make([]*net.UDPConn, sc.Bad)
	for i := range bad {
		c, err := net.DialUDP("udp4", nil, srvUDP)
		if err != nil {
			return nil
		}
		bad[i] = c
		defer c.Close()
	}
	var resetter *net.UDPConn
	resetMID, resetterTalked := 0, false
	for _, st := range sc.Steps {
		switch st.Kind {
		case "req", "ask-con", "ask-non":
			c := st.Actor % sc.Good
			body := fmt.Sprintf("c%d#%d", c, len(sent[c]))
			sent[c] = append(sent[c], body)
			ctx, cancel := context.WithTimeout(context.Background(), 8*time.Second)
			path := "/echo"
			if st.Kind != "req" {
				path = "/" + st.Kind
			}
			resp, err := good[c].Post(ctx, path, message.TextPlain, bytes.NewReader([]byte(body)))
			cancel()
			if err == nil && resp.Code() == codes.InternalServerError {
				b, _ := resp.ReadBody()
				err = fmt.Errorf("%s", b)
			}
			if err != nil {
				mu.Lock()
				defer mu.Unlock()
				return evid.Failf("real/good-client-failed", sc, "well-behaved client %d: request %q failed: %v (server errors %.300q)", c, body, err, srvErrs)
			}
			if b, _ := resp.ReadBody(); string(b) != "echo:"+body {
				return evid.Failf("real/good-client-wrong-response", sc, "well-behaved client %d: request %q answered with %q", c, body, b)
			}
		case "rawreset":
			// A peer on a raw socket asks the server something whose handler first asks back with a
			// confirmable request - and answers that with a Reset (RFC 7252 4.2: a recipient that cannot
			// process a confirmable message rejects it so). Then it goes on talking: all of it is one
			// conversation from one remote address.
			if resetter == nil {
				c, err := net.DialUDP("udp4", nil, srvUDP)
				if err != nil {
					return nil
				}
				resetter = c
				defer c.Close()
			}
			exchange := func(path, body string) (string, bool) {
				resetMID++
				mid := 21000 + resetMID
				req := refcodec.Msg{Type: peer.CON, MID: mid, Code: 2, Token: []byte{0x5e, byte(resetMID)}, Opts: peer.PathOpts(path), Payload: []byte(body)}
				_, _ = resetter.Write(peer.Datagram(req))
				buf := make([]byte, 2048)
				for {
					_ = resetter.SetReadDeadline(time.Now().Add(6 * time.Second))
					n, err := resetter.Read(buf)
					if err != nil {
						return "", false
					}
					m, ok := peer.ParseDatagram(buf[:n])
					switch {
					case !ok:
					case m.Type == peer.CON && m.Code == 1:
						_, _ = resetter.Write(peer.Datagram(refcodec.Msg{Type: peer.RST, MID: m.MID}))
					case m.Type == peer.ACK && m.MID == mid && m.Code != 0:
						return string(m.Payload), true
					case m.Code != 0 && bytes.Equal(m.Token, req.Token): // separate response
						if m.Type == peer.CON {
							_, _ = resetter.Write(peer.Datagram(refcodec.Msg{Type: peer.ACK, MID: m.MID}))
						}
						return string(m.Payload), true
					}
				}
			}
			if _, ok := exchange("ask-rst", fmt.Sprintf("r#%d", resetMID)); !ok {
				return evid.Failf("real/raw-peer-not-answered", sc, "a peer that rejected the handler's own request with a Reset got no response to its request at all")
			}
			resetterTalked = true
			body := fmt.Sprintf("r#%d", resetMID)
			if got, ok := exchange("echo", body); !ok || got != "echo:"+body {
				return evid.Failf("real/raw-peer-not-served", sc, "after it had reset a confirmable message of the server the peer's next request was answered with %q (%v)", got, ok)
			}
		case "bytes":
			data, _ := hex.DecodeString(st.Hex)
			if len(data) > 0 && len(data) < 60000 {
				_, _ = bad[st.Actor%sc.Bad].Write(data)
			}
		}
	}
	// ---- discovery: responses reach only the receiver registered for their token, each with the
	// connection of the peer that sent it
	if sc.Responders > 0 {
		responders := make([]*net.UDPConn, sc.Responders)
		for i := range responders {
			c, err := net.ListenUDP("udp4", &net.UDPAddr{IP: net.IPv4(127, 0, 0, 1)})
			if err != nil {
				return nil
			}
			responders[i] = c
			defer c.Close()
		}
		type seen struct {
			remote  string
			payload string
		}
		ncalls := 1
		if sc.TwoAtOnce {
			ncalls = 2
		}
		results := make([][]seen, ncalls)
		var rmu sync.Mutex
		var wg sync.WaitGroup
		// responder 0 receives the unicast request(s) and tells the others the token
		go func() {
			buf := make([]byte, 2048)
			for k := 0; k < ncalls; k++ {
				_ = responders[0].SetReadDeadline(time.Now().Add(3 * time.Second))
				n, _, err := responders[0].ReadFromUDP(buf)
				if err != nil {
					return
				}
				req, ok := peer.ParseDatagram(buf[:n])
				if !ok {
					continue
				}
				if sc.SameToken {
					time.Sleep(120 * time.Millisecond) // answer only after the colliding call was made
				}
				for i, rc := range responders {
					m := refcodec.Msg{Type: peer.NON, MID: 41000 + 10*k + i, Code: 69, Token: req.Token, Payload: []byte(fmt.Sprintf("D%x-from-%d", req.Token, i))}
					_, _ = rc.WriteToUDP(peer.Datagram(m), srvUDP)
					if sc.StrayToken && i == len(responders)-1 {
						m.Token, m.MID, m.Payload = []byte{0x7a, 0x7a}, 41900+k, []byte("stray")
						_, _ = rc.WriteToUDP(peer.Datagram(m), srvUDP)
					}
				}
			}
		}()
		for k := 0; k < ncalls; k++ {
			wg.Add(1)
			go func(k int) {
				defer wg.Done()
				ctx, cancel := context.WithTimeout(context.Background(), 700*time.Millisecond)
				defer cancel()
				_ = s.Discover(ctx, responders[0].LocalAddr().String(), "/oic/res", func(cc *udpClient.Conn, resp *pool.Message) {
					b, _ := resp.ReadBody()
					rmu.Lock()
					results[k] = append(results[k], seen{cc.RemoteAddr().String(), string(b)})
					rmu.Unlock()
				})
			}(k)
			time.Sleep(20 * time.Millisecond)
		}
		wg.Wait()
		rmu.Lock()
		defer rmu.Unlock()
		addrOf := map[string]int{}
		for i, rc := range responders {
			addrOf[rc.LocalAddr().String()] = i
		}
		tokens := map[string]bool{}
		for k := range results {
			for _, sn := range results[k] {
				if sn.payload == "stray" {
					return evid.Failf("real/discover-stray-delivered", sc, "a response with a token nobody registered was delivered to the receiver of discovery call %d", k)
				}
				var tok string
				var from int
				parts := bytes.SplitN([]byte(sn.payload), []byte("-from-"), 2)
				if len(parts) != 2 {
					return evid.Failf("real/discover-unknown-payload", sc, "discovery receiver %d got %q", k, sn.payload)
				}
				tok = string(parts[0])
				fmt.Sscanf(string(parts[1]), "%d", &from)
				tokens[fmt.Sprintf("%d|%s", k, tok)] = true
				if i, ok := addrOf[sn.remote]; !ok || i != from {
					return evid.Failf("real/discover-wrong-connection", sc, "discovery call %d: the response sent by responder %d arrived with the connection of %s", k, from, sn.remote)
				}
			}
			// every responder answered on a loss-free loopback: all of them must have been delivered
			fromSeen := map[int]bool{}
			for _, sn := range results[k] {
				if parts := bytes.SplitN([]byte(sn.payload), []byte("-from-"), 2); len(parts) == 2 {
					var from int
					fmt.Sscanf(string(parts[1]), "%d", &from)
					fromSeen[from] = true
				}
			}
			if sc.SameToken && k == 1 {
				if len(results[k]) != 0 {
					return evid.Failf("real/discover-duplicate-token-served", sc, "a second discovery with the token of a running one received %d responses", len(results[k]))
				}
				continue
			}
			if len(fromSeen) != len(responders) {
				return evid.Failf("real/discover-response-lost", sc, "discovery call %d: %d responders answered with the request's token, the receiver saw responses of %d of them (%v)", k, len(responders), len(fromSeen), results[k])
			}
			// one receiver sees one token only
			n := 0
			for key := range tokens {
				if key[:2] == fmt.Sprintf("%d|", k) {
					n++
				}
			}
			if n > 1 {
				return evid.Failf("real/discover-foreign-token", sc, "the receiver of discovery call %d saw responses for %d different tokens", k, n)
			}
		}
		if ncalls == 2 {
			for key := range tokens {
				for key2 := range tokens {
					if key[0] != key2[0] && key[2:] == key2[2:] {
						return evid.Failf("real/discover-cross-delivery", sc, "both discovery receivers saw responses for token %s", key[2:])
					}
				}
			}
		}
	}
	// ---- the server is still up
	select {
	case err := <-serveDone:
		serveDone <- err
		return evid.Failf("real/serve-returned", sc, "Serve returned (%v) although the server was never stopped", err)
	default:
	}
	fresh, err := udp.Dial(addr, options.WithMessagePool(pool.New(8, 2048)))
	if err != nil {
		return nil
	}
	defer fresh.Close()
	ctx, cancel := context.WithTimeout(context.Background(), 8*time.Second)
	resp, err := fresh.Post(ctx, "/echo", message.TextPlain, bytes.NewReader([]byte("fresh")))
	cancel()
	if err != nil {
		return evid.Failf("real/stopped-accepting", sc, "a client that connects after the hostile traffic is not served: %v", err)
	}
	if b, _ := resp.ReadBody(); string(b) != "echo:fresh" {
		return evid.Failf("real/fresh-wrong-response", sc, "the fresh client got %q", b)
	}
	mu.Lock()
	defer mu.Unlock()
	if resetterTalked {
		if n := newConns[resetter.LocalAddr().String()]; n != 1 {
			return evid.Failf("real/connection-count", sc, "remote address %s (a peer that answered a confirmable message of the server with a Reset and went on talking) was reported as %d new connections, want exactly 1", resetter.LocalAddr(), n)
		}
	}
	for i, c := range good {
		n := c.LocalAddr().String()
		want := 1
		if len(sent[i]) == 0 {
			want = 0 // a client that never sent anything is unknown to a datagram server
		}
		if newConns[n] != want {
			return evid.Failf("real/connection-count", sc, "remote address %s (well-behaved client %d) was reported as %d new connections, want exactly %d", n, i, newConns[n], want)
		}
		var seen []string
		for _, h := range handled {
			if h.remote == n {
				seen = append(seen, h.body)
			}
		}
		if fmt.Sprint(seen) != fmt.Sprint(sent[i]) {
			return evid.Failf("real/handler-order", sc, "requests of client %d reached the handler as %v, they were sent as %v", i, seen, sent[i])
		}
	}
	return nil
}

// execReal tolerates scheduling hiccups of a loaded machine: a failure counts only if it
// reproduces three times in a row.
func execReal(sc RealScenario) *evid.Failure {
	var f *evid.Failure
	for try := 0; try < 3; try++ {
		if f = execRealOnce(sc); f == nil {
			return nil
		}
	}
	return f
}

func genReal(t *rapid.T) RealScenario {
	sc := RealScenario{Good: rapid.IntRange(1, 3).Draw(t, "good"), Bad: rapid.IntRange(1, 3).Draw(t, "bad"),
		Responders: rapid.IntRange(0, 3).Draw(t, "responders"), StrayToken: rapid.Bool().Draw(t, "stray"), TwoAtOnce: rapid.Bool().Draw(t, "two")}
	sc.SameToken = sc.TwoAtOnce && sc.Responders > 0 && rapid.IntRange(0, 2).Draw(t, "sametoken") == 0
	n := rapid.IntRange(2, 12).Draw(t, "nsteps")
	for i := 0; i < n; i++ {
		st := Step{Kind: rapid.SampledFrom([]string{"req", "req", "ask-con", "ask-non", "rawreset", "bytes", "bytes", "bytes"}).Draw(t, "kind")}
		if st.Kind != "bytes" {
			st.Actor = rapid.IntRange(0, sc.Good-1).Draw(t, "who")
		} else {
			st.Actor = rapid.IntRange(0, sc.Bad-1).Draw(t, "who")
			st.Hex = hex.EncodeToString(genHostile(t, false))
		}
		sc.Steps = append(sc.Steps, st)
	}
	return sc
}

var realEngines func() []evid.Engine

func init() {
	realEngines = func() []evid.Engine {
		var r *evid.Run
		e := evid.RapidEngine("real", evid.RapidOpts{Quick: 60, Thorough: 2000}, genReal, func(sc RealScenario) *evid.Failure {
			f := execReal(sc)
			if f == nil && r != nil {
				b, _ := json.Marshal(sc)
				key := ""
				if sc.Responders > 0 || len(sc.Steps) > 2 {
					key = string(b)
				}
				r.Case("real", key, func() any {
					return map[string]any{"good": sc.Good, "bad": sc.Bad, "steps": len(sc.Steps), "responders": sc.Responders, "strayToken": sc.StrayToken, "twoAtOnce": sc.TwoAtOnce}
				}, "real/udp-server")
			}
			return f
		})
		search := e.Search
		e.Search = func(run *evid.Run) { r = run; search(run) }
		return []evid.Engine{e}
	}
}
