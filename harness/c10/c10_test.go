//go:build verif

// C10 — servers stay up and peers stay isolated under arbitrary input.
package c10

import (
	"bytes"
	"context"
	"encoding/hex"
	"encoding/json"
	"fmt"
	"io"
	"net"
	"sync"
	"syscall"
	"testing"
	"time"

	dtlsServer "github.com/plgd-dev/go-coap/v3/dtls/server"
	"github.com/plgd-dev/go-coap/v3/message"
	"github.com/plgd-dev/go-coap/v3/message/codes"
	"github.com/plgd-dev/go-coap/v3/message/pool"
	"github.com/plgd-dev/go-coap/v3/net/responsewriter"
	"github.com/plgd-dev/go-coap/v3/options"
	"github.com/plgd-dev/go-coap/v3/tcp"
	tcpClient "github.com/plgd-dev/go-coap/v3/tcp/client"
	tcpServer "github.com/plgd-dev/go-coap/v3/tcp/server"
	"github.com/plgd-dev/go-coap/v3/udp"
	udpClient "github.com/plgd-dev/go-coap/v3/udp/client"
	"pgregory.net/rapid"

	"verif/bubble"
	"verif/codecx"
	"verif/endpoints"
	"verif/evid"
	"verif/memnet"
	"verif/peer"
	"verif/refcodec"
	"verif/srvsim"
	"verif/udpsrv"
)

type Step struct {
	Actor int    `json:"actor"` // index into good clients (req) or adversaries (others)
	Kind  string `json:"kind"`  // req | bytes | stall | connectclose | close | tick | accepterr
	// (accepterr: the next accept of the listener fails with a transient error - the descriptor table
	// is full, or the peer gave up before it was accepted; the listener itself stays open)
	Hex string `json:"hex,omitempty"`
}

type Scenario struct {
	Kind  string `json:"kind"` // tcp | dtls
	Good  int    `json:"good"`
	Bad   int    `json:"bad"`
	Steps []Step `json:"steps"`
	// KeepAlive > 0: the server is configured with WithKeepAlive(KeepAlive retries); "tick" steps let a
	// keep-alive period pass and run the housekeeping. The well-behaved clients answer pings (the
	// library does), the hostile peers never do.
	KeepAlive int `json:"keepAlive,omitempty"`
}

type poster interface {
	Post(ctx context.Context, path string, contentFormat message.MediaType, payload io.ReadSeeker, opts ...message.Option) (*pool.Message, error)
	Close() error
}

type hlog struct {
	remote string
	body   string
}

func Exec(t *testing.T, sc Scenario, r *evid.Run) *evid.Failure {
	var fail *evid.Failure
	hostileBetween := false
	run := bubble.Run(t, 60*time.Second, nil, func() {
		var mu sync.Mutex
		var handled []hlog
		echo := func(remote string, rq *pool.Message, set func(code codes.Code, body []byte) error) {
			b, _ := rq.ReadBody()
			if rq.Code() != codes.POST {
				return
			}
			mu.Lock()
			handled = append(handled, hlog{remote, string(b)})
			mu.Unlock()
			_ = set(codes.Changed, append([]byte("echo:"), b...))
		}
		var srv *srvsim.Server
		const kaPeriod = 400 * time.Millisecond
		if sc.Kind == "tcp" {
			extra := []tcpServer.Option{options.WithMaxMessageSize(4096)}
			if sc.KeepAlive > 0 {
				extra = append(extra, options.WithKeepAlive(uint32(sc.KeepAlive), kaPeriod*time.Duration(sc.KeepAlive+1), func(cc *tcpClient.Conn) { _ = cc.Close() }))
			}
			srv = srvsim.StartTCP(func(w *responsewriter.ResponseWriter[*tcpClient.Conn], rq *pool.Message) {
				echo(w.Conn().RemoteAddr().String(), rq, func(c codes.Code, b []byte) error { return w.SetResponse(c, message.TextPlain, bytes.NewReader(b)) })
			}, extra...)
		} else {
			extra := []dtlsServer.Option{options.WithMaxMessageSize(4096), options.WithDTLSHandshakeTimeout(20 * time.Second)}
			if sc.KeepAlive > 0 {
				extra = append(extra, options.WithKeepAlive(uint32(sc.KeepAlive), kaPeriod*time.Duration(sc.KeepAlive+1), func(cc *udpClient.Conn) { _ = cc.Close() }),
					options.WithTransmission(1, time.Hour, 10))
			}
			srv = srvsim.StartDTLS(func(w *responsewriter.ResponseWriter[*udpClient.Conn], rq *pool.Message) {
				echo(w.Conn().RemoteAddr().String(), rq, func(c codes.Code, b []byte) error { return w.SetResponse(c, message.TextPlain, bytes.NewReader(b)) })
			}, extra...)
		}
		var ctk endpoints.Ticker
		connect := func(name string) poster {
			if sc.Kind == "tcp" {
				l := srv.ConnectStream(name, memnet.StreamCfg{})
				cc, err := endpoints.TCP(l.A, []tcp.Option{options.WithPeriodicRunner(ctk.Runner()), options.WithCloseSocket(), options.WithMessagePool(pool.New(8, 2048))}...)
				if err != nil {
					panic(err)
				}
				return cc
			}
			l := srv.ConnectPacket(name, memnet.LinkCfg{LatencyMs: 1})
			return endpoints.UDP(l.A, []udp.Option{options.WithPeriodicRunner(ctk.Runner()), options.WithMessagePool(pool.New(8, 2048)), options.WithTransmission(4, 2*time.Second, 2)}...)
		}
		good := make([]poster, sc.Good)
		sent := make([][]string, sc.Good)
		got := make([][]string, sc.Good)
		for i := range good {
			good[i] = connect(fmt.Sprintf("good-%d", i))
		}
		type rawEnd interface {
			Write([]byte) (int, error)
			Close() error
		}
		bad := make([]rawEnd, sc.Bad)
		for i := range bad {
			if sc.Kind == "tcp" {
				bad[i] = srv.ConnectStream(fmt.Sprintf("bad-%d", i), memnet.StreamCfg{}).A
			} else {
				bad[i] = srv.ConnectPacket(fmt.Sprintf("bad-%d", i), memnet.LinkCfg{LatencyMs: 1}).A
			}
		}
		bubble.Wait()
		extra := 0
		lastWasHostile := false
		seenReq := false
		for _, st := range sc.Steps {
			switch st.Kind {
			case "req":
				c := st.Actor % sc.Good
				if lastWasHostile && seenReq {
					hostileBetween = true
				}
				seenReq, lastWasHostile = true, false
				body := fmt.Sprintf("c%d#%d", c, len(sent[c]))
				sent[c] = append(sent[c], body)
				ctx, cancel := context.WithTimeout(context.Background(), 8*time.Second)
				resp, err := good[c].Post(ctx, "/echo", message.TextPlain, bytes.NewReader([]byte(body)))
				cancel()
				if err != nil {
					fail = evid.Failf("serve/good-client-failed", sc, "well-behaved client %d: request %q failed: %v (server errors: %.300q)", c, body, err, srv.Errs.List())
					return
				}
				b, _ := resp.ReadBody()
				got[c] = append(got[c], string(b))
				if string(b) != "echo:"+body || resp.Code() != codes.Changed {
					fail = evid.Failf("serve/good-client-wrong-response", sc, "well-behaved client %d: request %q answered with %v %q", c, body, resp.Code(), b)
					return
				}
			case "bytes":
				lastWasHostile = true
				a := st.Actor % sc.Bad
				data, _ := hex.DecodeString(st.Hex)
				_, _ = bad[a].Write(data)
			case "tick":
				time.Sleep(kaPeriod + time.Millisecond)
				srv.Tick.Tick()
			case "accepterr":
				lastWasHostile = true
				srv.L.FailAccept(&net.OpError{Op: "accept", Net: sc.Kind, Err: []error{syscall.EMFILE, syscall.ECONNABORTED, syscall.ENFILE}[st.Actor%3]})
			case "close":
				lastWasHostile = true
				_ = bad[st.Actor%sc.Bad].Close()
			case "stall":
				lastWasHostile = true
				extra++
				srv.ConnectStalled(fmt.Sprintf("stall-%d", extra))
			case "connectclose":
				lastWasHostile = true
				extra++
				if sc.Kind == "tcp" {
					_ = srv.ConnectStream(fmt.Sprintf("cc-%d", extra), memnet.StreamCfg{}).A.Close()
				} else {
					_ = srv.ConnectPacket(fmt.Sprintf("cc-%d", extra), memnet.LinkCfg{LatencyMs: 1}).A.Close()
				}
			}
			bubble.Wait()
		}
		// ---- the server is still up: a fresh client is served
		if ok, err := srv.ServeReturned(); ok {
			fail = evid.Failf("serve/serve-returned", sc, "Serve returned (%v) although the server was never stopped", err)
			return
		}
		fresh := connect("fresh")
		ctx, cancel := context.WithTimeout(context.Background(), 8*time.Second)
		resp, err := fresh.Post(ctx, "/echo", message.TextPlain, bytes.NewReader([]byte("fresh")))
		cancel()
		if err != nil {
			fail = evid.Failf("serve/stopped-accepting", sc, "a client that connects after the hostile traffic is not served: %v", err)
			return
		}
		if b, _ := resp.ReadBody(); string(b) != "echo:fresh" {
			fail = evid.Failf("serve/fresh-wrong-response", sc, "the fresh client got %q", b)
			return
		}
		// ---- one logical connection per remote address, handler log per client in arrival order
		names, _ := srv.ConnsSnapshot()
		count := map[string]int{}
		for _, n := range names {
			count[n]++
		}
		for i := range good {
			n := fmt.Sprintf("good-%d", i)
			if count[n] != 1 { // stream / DTLS-style connections exist from the moment they are accepted
				fail = evid.Failf("serve/connection-count", sc, "remote address %s was reported as %d new connections, want exactly 1", n, count[n])
				return
			}
			var seen []string
			mu.Lock()
			for _, h := range handled {
				if h.remote == n {
					seen = append(seen, h.body)
				}
			}
			mu.Unlock()
			if fmt.Sprint(seen) != fmt.Sprint(sent[i]) {
				fail = evid.Failf("serve/handler-order", sc, "requests of %s reached the handler as %v, they were sent as %v", n, seen, sent[i])
				return
			}
		}
		mu.Lock()
		// (payloads of hostile messages reach the handler too, on their own connections: only the
		// bodies the well-behaved clients sent are attributed)
		owner := map[string]string{}
		for i := range good {
			for _, b := range sent[i] {
				owner[b] = fmt.Sprintf("good-%d", i)
			}
		}
		for _, h := range handled {
			if o, ok := owner[h.body]; ok && h.remote != o {
				fail = evid.Failf("serve/cross-connection", sc, "request %q of %s was handled on the connection of %s", h.body, o, h.remote)
			}
		}
		mu.Unlock()
		// teardown
		srv.Stop()
		for _, g := range good {
			_ = g.Close()
		}
		_ = fresh.Close()
		for _, b := range bad {
			_ = b.Close()
		}
		time.Sleep(25 * time.Second) // stalled handshakes end with the server's context or their timeout
		bubble.Wait()
	})
	if fail != nil {
		return fail
	}
	if run.Panic != "" {
		return evid.Failf("serve/panic", sc, "panic in scenario: %s", run.Panic)
	}
	if run.Deadlock {
		return evid.Failf("serve/deadlock", sc, "all goroutines blocked while the scenario was still running")
	}
	r.Class("teardown_leaks", b2i(run.Leaked))
	if hostileBetween {
		r.Class("serve/hostile-between-requests", 1)
	}
	return nil
}

func b2i(b bool) int64 {
	if b {
		return 1
	}
	return 0
}

var hostileConst = []byte{0x00, 0x0d, 0x0e, 0x0f, 0xd0, 0xe0, 0xf0, 0xff, 0x4f, 0x49, 0x80, 0xdd}

// genHostile draws what an adversary sends: arbitrary bytes, mutated / truncated valid
// messages, oversize declarations, responses with unknown tokens, unsolicited ACK/RST.
func genHostile(t *rapid.T, stream bool) []byte {
	switch rapid.IntRange(0, 7).Draw(t, "hkind") {
	case 0:
		return rapid.SliceOfN(rapid.Byte(), 1, 40).Draw(t, "raw")
	case 1, 2: // mutated valid message
		m := codecx.GenMsg(t, stream)
		if len(m.Payload) > 300 {
			m.Payload = m.Payload[:300]
		}
		for i := range m.Opts {
			if len(m.Opts[i].Val) > 300 {
				m.Opts[i].Val = m.Opts[i].Val[:50]
			}
		}
		var b []byte
		if stream {
			b, _ = refcodec.EncodeStream(m)
		} else {
			b, _ = refcodec.EncodeDatagram(m)
		}
		if len(b) > 0 {
			pos := rapid.IntRange(0, len(b)-1).Draw(t, "pos")
			switch rapid.IntRange(0, 3).Draw(t, "mut") {
			case 0:
				b = b[:pos]
			case 1:
				b[pos] = rapid.SampledFrom(hostileConst).Draw(t, "hc")
			case 2:
				b = append(b[:pos:pos], append([]byte{rapid.SampledFrom(hostileConst).Draw(t, "hc")}, b[pos:]...)...)
			}
		}
		return b
	case 3: // oversize declaration
		if stream {
			return []byte{0xf0, 0xff, 0xff, 0xff, 0xf0, 0x02}
		}
		return append([]byte{0x40, 0x02, 0x12, 0x34, 0xff}, bytes.Repeat([]byte{0x55}, 5000)...)
	case 4: // response with a token nobody waits for
		m := refcodec.Msg{Code: 69, Token: []byte{0x99, 0x98}, Payload: []byte("nobody asked"), Type: peer.NON, MID: rapid.IntRange(0, 65535).Draw(t, "mid")}
		if stream {
			return peer.Frame(m)
		}
		return peer.Datagram(m)
	case 5: // unsolicited ACK / RST
		if stream {
			return peer.Frame(refcodec.Msg{Code: rapid.SampledFrom([]int{227, 228, 229, 225}).Draw(t, "sig"), Token: []byte{1}})
		}
		return peer.Datagram(refcodec.Msg{Type: rapid.SampledFrom([]int{peer.ACK, peer.RST}).Draw(t, "atype"), MID: rapid.IntRange(0, 65535).Draw(t, "mid"), Code: rapid.SampledFrom([]int{0, 69}).Draw(t, "acode")})
	case 6: // a valid request from the adversary itself
		m := refcodec.Msg{Code: 2, Token: []byte{0x66}, Opts: peer.PathOpts("echo"), Payload: []byte("adversary"), MID: rapid.IntRange(0, 65535).Draw(t, "mid")}
		if stream {
			return peer.Frame(m)
		}
		return peer.Datagram(m)
	default:
		return bytes.Repeat([]byte{rapid.SampledFrom(hostileConst).Draw(t, "hc")}, rapid.IntRange(1, 30).Draw(t, "rep"))
	}
}

func gen(t *rapid.T) Scenario {
	sc := Scenario{Kind: rapid.SampledFrom([]string{"tcp", "dtls"}).Draw(t, "kind"), Good: rapid.IntRange(2, 4).Draw(t, "good"), Bad: rapid.IntRange(1, 3).Draw(t, "bad")}
	kinds := []string{"req", "req", "req", "bytes", "bytes", "bytes", "stall", "connectclose", "close"}
	if rapid.IntRange(0, 3).Draw(t, "accepterrs") == 0 {
		kinds = append(kinds, "accepterr")
	}
	if rapid.IntRange(0, 2).Draw(t, "keepalive") == 0 {
		sc.KeepAlive = rapid.IntRange(1, 2).Draw(t, "retries")
		kinds = append(kinds, "tick", "tick", "tick", "tick")
	}
	n := rapid.IntRange(3, 20).Draw(t, "nsteps")
	for i := 0; i < n; i++ {
		st := Step{Kind: rapid.SampledFrom(kinds).Draw(t, "kind")}
		switch st.Kind {
		case "req":
			st.Actor = rapid.IntRange(0, sc.Good-1).Draw(t, "who")
		case "bytes":
			st.Actor = rapid.IntRange(0, sc.Bad-1).Draw(t, "who")
			st.Hex = hex.EncodeToString(genHostile(t, sc.Kind == "tcp"))
		case "close":
			st.Actor = rapid.IntRange(0, sc.Bad-1).Draw(t, "who")
		case "accepterr":
			st.Actor = rapid.IntRange(0, 2).Draw(t, "errno")
		}
		sc.Steps = append(sc.Steps, st)
	}
	return sc
}

func nonTrivial(sc Scenario) bool {
	seenReq, hostile := false, false
	for _, st := range sc.Steps {
		if st.Kind == "req" {
			if seenReq && hostile {
				return true
			}
			seenReq = true
		} else if seenReq {
			hostile = true
		}
	}
	return false
}

var testingT *testing.T

func TestCheck(t *testing.T) {
	r := evid.New(t, "C10")
	testingT = t
	eng := evid.RapidEngine("isolation", evid.RapidOpts{Quick: 2500, Thorough: 60000, Crashy: true}, gen, func(sc Scenario) *evid.Failure {
		f := Exec(t, sc, r)
		if f == nil {
			key := ""
			if nonTrivial(sc) {
				b, _ := json.Marshal(sc)
				key = string(b)
			}
			r.Case("isolation", key, func() any { return summary(sc) }, "isolation/"+sc.Kind)
		}
		return f
	})
	engines := []evid.Engine{eng}
	engines = append(engines, realEngines()...)
	engines = append(engines, stallEngine(r))
	engines = append(engines, udpsrv.Engine(r, []string{"twolocal", "closed", "keepalive", "keepalive", "idle"}, 30, 500))
	r.Main(evid.Meta{
		Rule:        "stall: the library's own TCP and TLS servers on loopback sockets while 1-4 peers connect and stall (silent, or after the first bytes of a handshake); 1-3 well-behaved clients that connect afterwards are served within seconds (real time; a failure counts only if it reproduces three times in a row). Others: isolation: tcp/server and dtls/server on in-memory listeners in a synctest bubble; 2-4 well-behaved library clients issue numbered requests to an echo handler, interleaved with 1-3 adversaries that write arbitrary bytes, mutated and truncated valid messages, oversize declarations, responses with unknown tokens, unsolicited ACK/RST/signalling messages, their own valid requests, connect-and-stall (a handshake that never completes), connect-and-close and closes, and in a quarter of the cases accept calls of the listener that fail with a transient error (EMFILE, ENFILE, ECONNABORTED) while the listener stays open; every step is followed by quiescence. Metamorphic oracle: every request of a well-behaved client is answered with its own echo (what it would see without the adversaries); Serve has not returned and a client connecting afterwards is served; OnNewConn reported exactly one connection per well-behaved remote address; the handler saw each client's requests on that client's connection and in the order they were sent. real: the loopback udp/server with udp.Dial clients, raw hostile sockets and unicast Discover with several responders (real time), also two concurrent Discover calls with one token; some requests are answered only after the server's handler has itself asked the requesting peer something on that peer's connection (a confirmable or a non-confirmable request). " + udpsrv.Rule + ".  Non-trivial = hostile input delivered between two requests of a well-behaved client; distinct by scenario",
		Assumptions: []string{"a slow handler starving other peers is not in the statement's list and is not generated", "real-socket sending rates stay far below loopback buffer limits"},
		Floor:       200,
	}, engines...)
}

func summary(sc Scenario) any {
	var steps []string
	for _, s := range sc.Steps {
		x := fmt.Sprintf("%s(%d)", s.Kind, s.Actor)
		if s.Hex != "" {
			h := s.Hex
			if len(h) > 24 {
				h = h[:24] + "…"
			}
			x += ":" + h
		}
		steps = append(steps, x)
	}
	return map[string]any{"kind": sc.Kind, "good": sc.Good, "bad": sc.Bad, "steps": steps}
}
