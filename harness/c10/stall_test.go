//go:build verif

package c10

// Engine "stall": the stream listeners of the library (TCP and TLS, real loopback sockets, the
// library's own servers) while peers connect and then stall - silent, or after a few bytes of what
// could be a handshake or a frame. The server keeps accepting: a well-behaved client that connects
// afterwards is served within the allowance.

import (
	"context"
	"encoding/json"
	"net"
	"time"

	"github.com/plgd-dev/go-coap/v3/message"
	"github.com/plgd-dev/go-coap/v3/message/codes"
	"github.com/plgd-dev/go-coap/v3/mux"
	"pgregory.net/rapid"

	"verif/evid"
	"verif/realnet"
)

type stallScenario struct {
	Kind    string `json:"kind"`    // tcp | tls
	Stalled int    `json:"stalled"` // peers that connect and stall
	Bytes   int    `json:"bytes"`   // bytes each of them sends first (0 = silent)
	Clients int    `json:"clients"` // well-behaved clients that connect afterwards
}

func execStallOnce(sc stallScenario) *evid.Failure {
	router := mux.NewRouter()
	_ = router.Handle("/a", mux.HandlerFunc(func(w mux.ResponseWriter, r *mux.Message) {
		_ = w.SetResponse(codes.Content, message.TextPlain, nil)
	}))
	srv, err := realnet.Start(sc.Kind, router)
	if err != nil {
		return nil
	}
	defer srv.Stop(5 * time.Second)
	var raws []net.Conn
	defer func() {
		for _, c := range raws {
			_ = c.Close()
		}
	}()
	for i := 0; i < sc.Stalled; i++ {
		c, err := net.Dial("tcp4", srv.Addr)
		if err != nil {
			return nil
		}
		raws = append(raws, c)
		if sc.Bytes > 0 {
			// the beginning of a TLS ClientHello record (or, for plain TCP, of a frame that announces more)
			_, _ = c.Write([]byte{0x16, 0x03, 0x01, 0x02, 0x00, 0x01, 0x00, 0x01}[:min(sc.Bytes, 8)])
		}
	}
	time.Sleep(50 * time.Millisecond)
	for k := 0; k < sc.Clients; k++ {
		type res struct{ err error }
		done := make(chan res, 1)
		go func() {
			cc, err := srv.Dial(false)
			if err != nil {
				done <- res{err}
				return
			}
			defer cc.Close()
			ctx, cancel := context.WithTimeout(context.Background(), 3*time.Second)
			defer cancel()
			_, err = cc.Get(ctx, "/a")
			done <- res{err}
		}()
		select {
		case r := <-done:
			if r.err != nil {
				return evid.Failf("stall/good-client-not-served", sc, "%d peers connected to the %s server and stalled (after %d bytes); well-behaved client %d that connected afterwards failed: %v", sc.Stalled, sc.Kind, sc.Bytes, k, r.err)
			}
		case <-time.After(6 * time.Second):
			return evid.Failf("stall/stopped-accepting", sc, "%d peers connected to the %s server and stalled (after %d bytes); well-behaved client %d that connected afterwards was not served within 6 s", sc.Stalled, sc.Kind, sc.Bytes, k)
		}
	}
	return nil
}

func stallEngine(r *evid.Run) evid.Engine {
	return evid.RapidEngine("stall", evid.RapidOpts{Quick: 12, Thorough: 300, Serial: true}, func(t *rapid.T) stallScenario {
		return stallScenario{Kind: rapid.SampledFrom([]string{"tcp", "tls", "tls"}).Draw(t, "kind"), Stalled: rapid.IntRange(1, 4).Draw(t, "stalled"),
			Bytes: rapid.SampledFrom([]int{0, 0, 3, 8}).Draw(t, "bytes"), Clients: rapid.IntRange(1, 3).Draw(t, "clients")}
	}, func(sc stallScenario) *evid.Failure {
		var f *evid.Failure
		for try := 0; try < 3; try++ {
			if f = execStallOnce(sc); f == nil {
				break
			}
		}
		if f == nil {
			b, _ := json.Marshal(sc)
			r.Case("stall", string(b), func() any { return sc }, "stall/"+sc.Kind)
		}
		return f
	})
}
