// Package peer holds helpers for the scripted wire-level peer. It uses refcodec only — never
// the library's own codec — so that the peer and the library do not share mistakes.
package peer

import (
	"verif/refcodec"
)

const (
	CON = 0
	NON = 1
	ACK = 2
	RST = 3
)

func Datagram(m refcodec.Msg) []byte {
	b, err := refcodec.EncodeDatagram(m)
	if err != nil {
		panic(err)
	}
	return b
}

func Frame(m refcodec.Msg) []byte {
	b, err := refcodec.EncodeStream(m)
	if err != nil {
		panic(err)
	}
	return b
}

// ParseDatagram parses what the library sent; ok=false if it is not a well-formed datagram.
func ParseDatagram(b []byte) (refcodec.Msg, bool) {
	m, _, err := refcodec.ParseDatagram(b, refcodec.CoAP)
	return m, err == nil
}

// ParseFrames splits a byte stream into frames; rest is the incomplete tail.
func ParseFrames(b []byte) (msgs []refcodec.Msg, rest []byte, bad bool) {
	for len(b) > 0 {
		m, n, _, err := refcodec.ParseStream(b, refcodec.StreamTable)
		if err == refcodec.ErrShort {
			return msgs, b, false
		}
		if err != nil {
			return msgs, b, true
		}
		msgs = append(msgs, m)
		b = b[n:]
	}
	return msgs, nil, false
}

func Opt(num int, val []byte) refcodec.Opt { return refcodec.Opt{Num: num, Val: val} }

func UintBytes(u uint32) []byte {
	switch {
	case u == 0:
		return nil
	case u < 1<<8:
		return []byte{byte(u)}
	case u < 1<<16:
		return []byte{byte(u >> 8), byte(u)}
	case u < 1<<24:
		return []byte{byte(u >> 16), byte(u >> 8), byte(u)}
	}
	return []byte{byte(u >> 24), byte(u >> 16), byte(u >> 8), byte(u)}
}

func Uint(b []byte) uint32 {
	var u uint32
	for _, x := range b {
		u = u<<8 | uint32(x)
	}
	return u
}

// PathOpts returns Uri-Path options for the segments.
func PathOpts(segs ...string) []refcodec.Opt {
	var out []refcodec.Opt
	for _, s := range segs {
		out = append(out, refcodec.Opt{Num: 11, Val: []byte(s)})
	}
	return out
}

// FindOpt returns the first value of option num.
func FindOpt(m refcodec.Msg, num int) ([]byte, bool) {
	for _, o := range m.Opts {
		if o.Num == num {
			return o.Val, true
		}
	}
	return nil, false
}
