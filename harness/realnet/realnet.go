// Package realnet starts the library's own servers on loopback sockets — UDP, DTLS (PSK), TCP and
// TLS (self-signed certificate generated in-process) — and dials them with the library's clients.
// Used by the real-socket engines (real time, generous watchdogs).
package realnet

import (
	"context"
	"crypto/ecdsa"
	"crypto/elliptic"
	"crypto/rand"
	"crypto/tls"
	"crypto/x509"
	"crypto/x509/pkix"
	"fmt"
	"io"
	"math/big"
	"sync"
	"time"

	piondtls "github.com/pion/dtls/v3"
	"github.com/plgd-dev/go-coap/v3/dtls"
	"github.com/plgd-dev/go-coap/v3/message"
	"github.com/plgd-dev/go-coap/v3/message/pool"
	"github.com/plgd-dev/go-coap/v3/mux"
	coapNet "github.com/plgd-dev/go-coap/v3/net"
	"github.com/plgd-dev/go-coap/v3/net/client"
	"github.com/plgd-dev/go-coap/v3/options"
	"github.com/plgd-dev/go-coap/v3/options/config"
	"github.com/plgd-dev/go-coap/v3/tcp"
	tcpClient "github.com/plgd-dev/go-coap/v3/tcp/client"
	tcpServer "github.com/plgd-dev/go-coap/v3/tcp/server"
	"github.com/plgd-dev/go-coap/v3/udp"
	udpClient "github.com/plgd-dev/go-coap/v3/udp/client"
	udpServer "github.com/plgd-dev/go-coap/v3/udp/server"

	dtlsServer "github.com/plgd-dev/go-coap/v3/dtls/server"
)

var Kinds = []string{"udp", "dtls", "tcp", "tls"}

// Client is the API shared by the datagram and stream client connections.
type Client interface {
	Do(req *pool.Message) (*pool.Message, error)
	Get(ctx context.Context, path string, opts ...message.Option) (*pool.Message, error)
	Post(ctx context.Context, path string, contentFormat message.MediaType, payload io.ReadSeeker, opts ...message.Option) (*pool.Message, error)
	NewGetRequest(ctx context.Context, path string, opts ...message.Option) (*pool.Message, error)
	Observe(ctx context.Context, path string, observeFunc func(req *pool.Message), opts ...message.Option) (client.Observation, error)
	Ping(ctx context.Context) error
	Close() error
	Done() <-chan struct{}
	AddOnClose(func())
	ReleaseMessage(m *pool.Message)
}

type Server struct {
	Kind      string
	Addr      string
	stop      func()
	closeL    func() error
	serveDone chan error
	tlsClient *tls.Config
}

func pskConfig() *piondtls.Config {
	return &piondtls.Config{
		PSK:             func([]byte) ([]byte, error) { return []byte{0xAB, 0xC1, 0x23}, nil },
		PSKIdentityHint: []byte("verif"),
		CipherSuites:    []piondtls.CipherSuiteID{piondtls.TLS_PSK_WITH_AES_128_CCM_8},
	}
}

var (
	certOnce sync.Once
	srvTLS   *tls.Config
	cliTLS   *tls.Config
)

func tlsConfigs() (*tls.Config, *tls.Config) {
	certOnce.Do(func() {
		key, err := ecdsa.GenerateKey(elliptic.P256(), rand.Reader)
		if err != nil {
			panic(err)
		}
		tmpl := &x509.Certificate{SerialNumber: big.NewInt(1), Subject: pkix.Name{CommonName: "verif"}, NotBefore: time.Now().Add(-time.Hour), NotAfter: time.Now().Add(240 * time.Hour),
			KeyUsage: x509.KeyUsageDigitalSignature, ExtKeyUsage: []x509.ExtKeyUsage{x509.ExtKeyUsageServerAuth}, DNSNames: []string{"localhost"}}
		der, err := x509.CreateCertificate(rand.Reader, tmpl, tmpl, &key.PublicKey, key)
		if err != nil {
			panic(err)
		}
		srvTLS = &tls.Config{Certificates: []tls.Certificate{{Certificate: [][]byte{der}, PrivateKey: key}}}
		cliTLS = &tls.Config{InsecureSkipVerify: true}
	})
	return srvTLS, cliTLS
}

// Start runs a server of the given kind with the router as handler. nil if the socket cannot be opened.
func Start(kind string, router *mux.Router) (*Server, error) { return StartWith(kind, router, false) }

// StartWith: concurrent makes the server process every received message on its own goroutine (the
// documented use of WithProcessReceivedMessageFunc), so that handlers of one connection overlap.
func StartWith(kind string, router *mux.Router, concurrent bool) (*Server, error) {
	udpExtra := []udpServer.Option{}
	tcpExtra := []tcpServer.Option{}
	dtlsExtra := []dtlsServer.Option{}
	if concurrent {
		u := options.WithProcessReceivedMessageFunc(config.ProcessReceivedMessageFunc[*udpClient.Conn](func(req *pool.Message, cc *udpClient.Conn, h config.HandlerFunc[*udpClient.Conn]) {
			go cc.ProcessReceivedMessageWithHandler(req, h)
		}))
		t := options.WithProcessReceivedMessageFunc(config.ProcessReceivedMessageFunc[*tcpClient.Conn](func(req *pool.Message, cc *tcpClient.Conn, h config.HandlerFunc[*tcpClient.Conn]) {
			go cc.ProcessReceivedMessageWithHandler(req, tcpClient.HandlerFunc(h))
		}))
		udpExtra, dtlsExtra, tcpExtra = append(udpExtra, u), append(dtlsExtra, u), append(tcpExtra, t)
	}
	s := &Server{Kind: kind, serveDone: make(chan error, 1)}
	switch kind {
	case "udp":
		l, err := coapNet.NewListenUDP("udp4", "127.0.0.1:0")
		if err != nil {
			return nil, err
		}
		srv := udp.NewServer(append(udpExtra, options.WithMux(router), options.WithMessagePool(pool.New(64, 2048)))...)
		s.Addr, s.stop, s.closeL = l.LocalAddr().String(), srv.Stop, l.Close
		go func() { s.serveDone <- srv.Serve(l) }()
	case "dtls":
		l, err := coapNet.NewDTLSListener("udp4", "127.0.0.1:0", pskConfig())
		if err != nil {
			return nil, err
		}
		srv := dtls.NewServer(append(dtlsExtra, options.WithMux(router), options.WithMessagePool(pool.New(64, 2048)))...)
		s.Addr, s.stop, s.closeL = l.Addr().String(), srv.Stop, l.Close
		go func() { s.serveDone <- srv.Serve(l) }()
	case "tcp":
		l, err := coapNet.NewTCPListener("tcp4", "127.0.0.1:0")
		if err != nil {
			return nil, err
		}
		srv := tcp.NewServer(append(tcpExtra, options.WithMux(router), options.WithMessagePool(pool.New(64, 2048)))...)
		s.Addr, s.stop, s.closeL = l.Addr().String(), srv.Stop, l.Close
		go func() { s.serveDone <- srv.Serve(l) }()
	case "tls":
		sc, cc := tlsConfigs()
		l, err := coapNet.NewTLSListener("tcp4", "127.0.0.1:0", sc)
		if err != nil {
			return nil, err
		}
		srv := tcp.NewServer(append(tcpExtra, options.WithMux(router), options.WithMessagePool(pool.New(64, 2048)))...)
		s.Addr, s.stop, s.closeL, s.tlsClient = l.Addr().String(), srv.Stop, l.Close, cc
		go func() { s.serveDone <- srv.Serve(l) }()
	default:
		return nil, fmt.Errorf("unknown kind %q", kind)
	}
	return s, nil
}

// Stop stops the server and reports whether Serve returned within d.
func (s *Server) Stop(d time.Duration) bool {
	s.stop()
	_ = s.closeL()
	select {
	case <-s.serveDone:
		return true
	case <-time.After(d):
		return false
	}
}

// Dial connects a library client of the matching kind. parallel raises NSTART and the request limits.
func (s *Server) Dial(parallel bool) (Client, error) {
	p := pool.New(32, 2048)
	switch s.Kind {
	case "udp":
		opts := []udp.Option{options.WithMessagePool(p)}
		if parallel {
			opts = append(opts, options.WithLimitClientParallelRequest(64), options.WithLimitClientEndpointParallelRequest(64), options.WithTransmission(64, 2*time.Second, 4))
		}
		return udp.Dial(s.Addr, opts...)
	case "dtls":
		opts := []udp.Option{options.WithMessagePool(p)}
		if parallel {
			opts = append(opts, options.WithLimitClientParallelRequest(64), options.WithLimitClientEndpointParallelRequest(64), options.WithTransmission(64, 2*time.Second, 4))
		}
		return dtls.Dial(s.Addr, pskConfig(), opts...)
	case "tcp", "tls":
		opts := []tcp.Option{options.WithMessagePool(p)}
		if parallel {
			opts = append(opts, options.WithLimitClientParallelRequest(64), options.WithLimitClientEndpointParallelRequest(64))
		}
		if s.Kind == "tls" {
			opts = append(opts, options.WithTLS(s.tlsClient))
		}
		return tcp.Dial(s.Addr, opts...)
	}
	return nil, fmt.Errorf("unknown kind")
}
