package c05

import (
	"encoding/json"
	"fmt"
	"os"
	"testing"

	"verif/evid"
	"verif/peer"
)

// TestTrace prints the wire log of the scenario in $VERIF_TRACE (debugging aid, not part of the check).
func TestTrace(t *testing.T) {
	f := os.Getenv("VERIF_TRACE")
	if f == "" {
		t.Skip("debugging aid")
	}
	raw, err := os.ReadFile(f)
	if err != nil {
		t.Fatal(err)
	}
	var doc struct {
		Scenario Scenario `json:"scenario"`
	}
	if err := json.Unmarshal(raw, &doc); err != nil {
		t.Fatal(err)
	}
	traceWire = func(dir int, at string, data []byte) {
		m, ok := peer.ParseDatagram(data)
		fmt.Printf("%s dir=%d ok=%v type=%d mid=%d code=%d tok=%x opts=%v payload=%q\n", at, dir, ok, m.Type, m.MID, m.Code, m.Token, m.Opts, m.Payload)
	}
	r := evid.New(t, "C05-trace")
	if fl := Exec(t, doc.Scenario, 0, r); fl != nil {
		fmt.Printf("ORACLE %s: %s\n", fl.Key, fl.Msg)
	}
}
