package c05

// Engine "counter": the endpoint's own message-ID counter (anchor mechanism "own message-ID counter
// kept away from the peer's"). De-duplication by message ID, on both sides, presupposes that an
// endpoint does not re-use one of its own IDs while the exchange lifetime of the earlier use runs.
// The library moves its counter when a peer's confirmable message carries an ID close to it; the
// peer therefore has a handle on the counter. Scenario: a datagram connection sends messages of its
// own (non-confirmable, so every one takes a fresh ID and nothing is retransmitted) while the
// scripted peer sends confirmable requests whose IDs are chosen relative to the last own ID seen on
// the wire. Oracle: within the scenario (far shorter than the exchange lifetime, far fewer own
// messages than a quarter of the ID space) no own ID appears on two different own messages.

import (
	"bytes"
	"encoding/json"
	"fmt"
	"testing"
	"time"

	"github.com/plgd-dev/go-coap/v3/message"
	"github.com/plgd-dev/go-coap/v3/message/codes"
	"github.com/plgd-dev/go-coap/v3/message/pool"
	"github.com/plgd-dev/go-coap/v3/net/responsewriter"
	"github.com/plgd-dev/go-coap/v3/options"
	"github.com/plgd-dev/go-coap/v3/udp"
	udpClient "github.com/plgd-dev/go-coap/v3/udp/client"
	"pgregory.net/rapid"

	"verif/bubble"
	"verif/endpoints"
	"verif/evid"
	"verif/memnet"
	"verif/peer"
	"verif/refcodec"
)

type ctrStep struct {
	Kind string `json:"kind"` // own (the endpoint sends N messages of its own) | peer (a CON request from the peer)
	N    int    `json:"n,omitempty"`
	Off  int    `json:"off,omitempty"` // peer: message ID = last own ID seen + 2 + Off
	NON  bool   `json:"non,omitempty"` // peer: non-confirmable instead
	// Burst: the next step follows at once, before the endpoint has processed (and answered) this one
	Burst bool `json:"burst,omitempty"`
}

type ctrScenario struct {
	Steps []ctrStep `json:"steps"`
}

func execCounter(t *testing.T, sc ctrScenario) *evid.Failure {
	var fail *evid.Failure
	res := bubble.Run(t, 60*time.Second, nil, func() {
		link := memnet.NewPacketLink(memnet.LinkCfg{LatencyMs: 1})
		var tk endpoints.Ticker
		var errs endpoints.Errs
		cc := endpoints.UDP(link.A, []udp.Option{
			options.WithHandlerFunc(udpClient.HandlerFunc(func(w *responsewriter.ResponseWriter[*udpClient.Conn], r *pool.Message) {
				_ = w.SetResponse(codes.Content, message.TextPlain, bytes.NewReader([]byte("ok")))
			})),
			options.WithMessagePool(pool.New(8, 2048)), options.WithPeriodicRunner(tk.Runner()), options.WithErrors(errs.Add),
			options.WithBlockwise(false, 6, time.Second),
		}...)
		type use struct {
			n     int    // position in the wire log
			token string // own messages carry their sequence number as token
		}
		seen := map[int]use{}
		lastOwn, scanned, ownSeq, peerSeq := -1, 0, 0, 0
		peerUsed := map[int]bool{}
		scan := func() bool {
			log := link.Log()
			for ; scanned < len(log); scanned++ {
				rec := log[scanned]
				if rec.Dir != 0 {
					continue
				}
				m, ok := peer.ParseDatagram(rec.Data)
				if !ok || (m.Type != peer.CON && m.Type != peer.NON) {
					continue // acknowledgements and resets carry the peer's IDs
				}
				lastOwn = m.MID
				if u, dup := seen[m.MID]; dup && u.token != string(m.Token) {
					fail = evid.Failf("counter/own-id-reused", sc, "own message ID %d was given to two different messages of this scenario (wire positions %d and %d, tokens %x and %x)", m.MID, u.n, scanned, u.token, m.Token)
					return false
				}
				seen[m.MID] = use{scanned, string(m.Token)}
			}
			return true
		}
		for _, st := range sc.Steps {
			if cc.Context().Err() != nil {
				fail = evid.Failf("counter/connection-closed", sc, "the connection closed itself during the scenario: %v", errs.List())
				break
			}
			switch st.Kind {
			case "own":
				for k := 0; k < st.N; k++ {
					ownSeq++
					m := cc.AcquireMessage(cc.Context())
					m.SetCode(codes.POST)
					m.SetType(message.NonConfirmable)
					m.SetToken([]byte{0x05, byte(ownSeq >> 8), byte(ownSeq)})
					m.MustSetPath("/own")
					_ = cc.WriteMessage(m)
					cc.ReleaseMessage(m)
				}
			case "peer":
				if lastOwn < 0 {
					continue
				}
				peerSeq++
				mid := (lastOwn + 2 + st.Off) & 0xffff
				for peerUsed[mid] { // a well-behaved peer does not re-use its own IDs either
					mid = (mid + 1) & 0xffff
				}
				peerUsed[mid] = true
				rq := refcodec.Msg{Type: peer.CON, MID: mid, Code: 1, Token: []byte{0x50, byte(peerSeq)}, Opts: peer.PathOpts("p")}
				if st.NON {
					rq.Type = peer.NON
				}
				link.A.Inject(peer.Datagram(rq))
			}
			if st.Burst {
				continue
			}
			bubble.Settle(3 * time.Millisecond)
			if !scan() {
				break
			}
		}
		if fail == nil {
			bubble.Settle(3 * time.Millisecond)
			scan()
		}
		if fail == nil && cc.Context().Err() != nil {
			fail = evid.Failf("counter/connection-closed", sc, "the connection closed itself during the scenario: %v", errs.List())
		}
		_ = cc.Close()
		bubble.Settle(10 * time.Millisecond)
	})
	if fail != nil {
		return fail
	}
	if res.Panic != "" {
		return evid.Failf("counter/panic", sc, "panic in scenario: %s", res.Panic)
	}
	if res.Deadlock {
		return evid.Failf("counter/deadlock", sc, "all goroutines blocked while the scenario was still running")
	}
	return nil
}

func genCounter(t *rapid.T) ctrScenario {
	var sc ctrScenario
	sc.Steps = append(sc.Steps, ctrStep{Kind: "own", N: rapid.IntRange(1, 24).Draw(t, "warm")})
	if rapid.IntRange(0, 2).Draw(t, "steer") == 0 {
		// steering: m peer messages whose distances from the own counter add up to about half or
		// the whole ID space (each followed by one own message, so that the peer knows the counter)
		m := rapid.SampledFrom([]int{2, 3, 3, 4, 5, 8}).Draw(t, "m")
		total := rapid.SampledFrom([]int{0x8000, 0x10000}).Draw(t, "total")
		if total/m >= 0x3ff0 {
			total = 0x8000
		}
		for i := 0; i < m; i++ {
			off := total/m - rapid.IntRange(0, 16).Draw(t, "fine")
			sc.Steps = append(sc.Steps, ctrStep{Kind: "peer", Off: off}, ctrStep{Kind: "own", N: 1})
		}
		sc.Steps = append(sc.Steps, ctrStep{Kind: "own", N: rapid.IntRange(4, 24).Draw(t, "tail")})
		return sc
	}
	n := rapid.IntRange(2, 10).Draw(t, "n")
	// offsets: right at the counter, inside and at the edge of the window in which the library
	// moves its counter (a quarter of the ID space), thirds and quarters of half the space (so
	// that a few moves add up to the whole space), and half the space away
	offs := []int{0, 0, 1, 2, 3, 0x1000, 0x2000, 0x2aa8, 0x2aaa, 0x2aab, 0x3ffc, 0x3ffe, 0x4000, 0x7ffe, 0x8000, 0x8002, 0xfffd}
	for i := 0; i < n; i++ {
		if rapid.IntRange(0, 2).Draw(t, "kind") == 0 {
			sc.Steps = append(sc.Steps, ctrStep{Kind: "own", N: rapid.IntRange(1, 4).Draw(t, "nown")})
			continue
		}
		sc.Steps = append(sc.Steps, ctrStep{Kind: "peer", Off: rapid.SampledFrom(offs).Draw(t, "off"), NON: rapid.IntRange(0, 5).Draw(t, "non") == 0, Burst: rapid.IntRange(0, 2).Draw(t, "burst") == 0})
	}
	sc.Steps = append(sc.Steps, ctrStep{Kind: "own", N: rapid.IntRange(2, 8).Draw(t, "tail")})
	return sc
}

func counterEngine(t *testing.T, r *evid.Run) evid.Engine {
	return evid.RapidEngine("counter", evid.RapidOpts{Quick: 6000, Thorough: 300000, Crashy: true}, genCounter, func(sc ctrScenario) *evid.Failure {
		f := execCounter(t, sc)
		if f == nil {
			moves := 0
			for _, st := range sc.Steps {
				if st.Kind == "peer" && !st.NON && st.Off < 0x3fff {
					moves++
				}
			}
			key := ""
			if moves >= 2 { // at least two messages inside the window that makes the library move its counter
				b, _ := json.Marshal(sc)
				key = string(b)
			}
			r.Case("counter", key, func() any { return sc }, fmt.Sprintf("counter/moves=%d", min(moves, 4)))
		}
		return f
	})
}
