// C05 — datagram duplicates never re-execute a handler (MID de-duplication).
package c05

import (
	"bytes"
	"context"
	"encoding/json"
	"fmt"
	"runtime"
	"sync"
	"sync/atomic"
	"testing"
	"time"

	dtlsServer "github.com/plgd-dev/go-coap/v3/dtls/server"
	"github.com/plgd-dev/go-coap/v3/message"
	"github.com/plgd-dev/go-coap/v3/message/codes"
	"github.com/plgd-dev/go-coap/v3/message/pool"
	"github.com/plgd-dev/go-coap/v3/net/responsewriter"
	"github.com/plgd-dev/go-coap/v3/options"
	"github.com/plgd-dev/go-coap/v3/options/config"
	udpClient "github.com/plgd-dev/go-coap/v3/udp/client"
	"pgregory.net/rapid"

	"verif/bubble"
	"verif/endpoints"
	"verif/evid"
	"verif/memnet"
	"verif/peer"
	"verif/refcodec"
	"verif/roles"
	"verif/udpsrv"
)

const lifetime = 247 * time.Second

type Req struct {
	Type      int    `json:"type"` // 0 CON, 1 NON
	MID       int    `json:"mid"`
	ServerMID bool   `json:"serverMid"` // take the MID the server itself used last, if it is not one of ours
	Beh       string `json:"beh"`       // piggy | none | separate | slow
	TokLen    int    `json:"toklen"`
	// Code of the reply the handler produces (0 = 2.05): a failure reply is a reply like any other
	Code int `json:"code,omitempty"`
	// NoResp > 0: the request carries the No-Response option (RFC 7967) with this value - a second
	// feature next to de-duplication. A reply of a class the value marks as not of interest is refused
	// by the response writer: a confirmable request then gets its bare acknowledgement (every copy of
	// it), a non-confirmable one got no reply and is outside the statement; in every other case the
	// option changes nothing about duplicates.
	NoResp int `json:"noResp,omitempty"`
}

// replyWithheld: the handler's reply is of a class the request's No-Response value suppresses.
func replyWithheld(q Req) bool {
	code := q.Code
	if code == 0 {
		code = 69
	}
	bit := map[int]int{2: 2, 4: 8, 5: 16}[code>>5]
	return q.NoResp&bit != 0
}

type Step struct {
	Kind string `json:"kind"` // send | release | sleep | tick | nearexpire | expire | expire1 | flood
	// (expire: to just after the last reply for the request + the lifetime; expire1: to just after the
	// FIRST reply for it + the lifetime - replies to duplicates do not prolong the lifetime)
	// (flood: the peer sends Copies further confirmable requests with message IDs of their own that
	// the handler merely acknowledges - the traffic of a busy, long-lived connection between the
	// examined requests and their retransmissions)
	Req    int `json:"req"`
	Copies int `json:"copies,omitempty"`
	Ms     int `json:"ms,omitempty"`
}

type Scenario struct {
	Mode  string `json:"mode"` // loop | gopool
	Queue int    `json:"queue"`
	Reqs  []Req  `json:"reqs"`
	Steps []Step `json:"steps"`
	// Role: "" the datagram connection of a client constructor; "server" the connection a
	// dtls.NewServer creates for an accepted peer
	Role string `json:"role,omitempty"`
}

type invocation struct {
	t   time.Duration
	req int
	inv int
}

type copyRec struct {
	t   time.Duration
	req int
}

func token(j, n int) []byte {
	t := make([]byte, n)
	for i := range t {
		t[i] = byte(0x10*(j+1) + i)
	}
	return t
}

// traceWire, if set (TestTrace), sees the whole wire log of a scenario.
var traceWire func(dir int, at string, data []byte)

func Exec(t *testing.T, sc Scenario, shard int, r *evid.Run) (fail *evid.Failure) {
	var hlog []invocation
	var copies []copyRec
	var wire []memnet.Record
	var mu sync.Mutex
	var errs endpoints.Errs
	usedMID := map[int]int{} // resolved MID per request
	res := bubble.Run(t, 60*time.Second, nil, func() {
		link := memnet.NewPacketLink(memnet.LinkCfg{LatencyMs: 1})
		gates := map[int]chan struct{}{}
		for j, q := range sc.Reqs {
			if q.Beh == "slow" || q.Beh == "nested" {
				gates[j] = make(chan struct{})
			}
		}
		invs := map[int]int{}
		var nestedOpen atomic.Int32 // handlers currently waiting for their nested request
		start := time.Now()
		handler := func(w *responsewriter.ResponseWriter[*udpClient.Conn], rq *pool.Message) {
			body, _ := rq.ReadBody()
			if len(body) != 2 || body[0] != 0xC5 {
				return
			}
			j := int(body[1])
			mu.Lock()
			invs[j]++
			inv := invs[j]
			hlog = append(hlog, invocation{time.Since(start), j, inv})
			mu.Unlock()
			if j >= len(sc.Reqs) {
				return
			}
			reply := func() {
				code := codes.Content
				if c := sc.Reqs[j].Code; c != 0 {
					code = codes.Code(c)
				}
				_ = w.SetResponse(code, message.TextPlain, bytes.NewReader([]byte(fmt.Sprintf("R%d.%d", j, inv))),
					message.Option{ID: message.ETag, Value: []byte{0xE0, byte(j), byte(inv)}}, message.Option{ID: message.MaxAge, Value: []byte{30}})
			}
			switch sc.Reqs[j].Beh {
			case "piggy":
				reply()
			case "slow":
				<-gates[j]
				reply()
			case "nested":
				// the handler asks the peer something first: the receive loop is replaced meanwhile, so
				// a duplicate of this request is processed by another goroutine while the handler waits
				nestedOpen.Add(1)
				ctx, cancel := context.WithTimeout(context.Background(), 60*time.Second)
				if resp, err := w.Conn().Get(ctx, fmt.Sprintf("/nested/%d", j)); err == nil {
					w.Conn().ReleaseMessage(resp)
				}
				cancel()
				nestedOpen.Add(-1)
				reply()
			case "separate":
				m := w.Conn().AcquireMessage(w.Conn().Context())
				m.SetCode(codes.Content)
				m.SetToken(rq.Token())
				m.SetType(message.NonConfirmable)
				m.SetBody(bytes.NewReader([]byte(fmt.Sprintf("S%d.%d", j, inv))))
				_ = w.Conn().WriteMessage(m)
				w.Conn().ReleaseMessage(m)
			}
		}
		var tk endpoints.Ticker
		mids := func() func() int32 { n := int32(20000); return func() int32 { n++; return n } }()
		uopts := []any{
			options.WithHandlerFunc(udpClient.HandlerFunc(handler)),
			options.WithMessagePool(pool.New(8, 2048)),
			options.WithPeriodicRunner(tk.Runner()),
			options.WithErrors(errs.Add),
			options.WithReceivedMessageQueueSize(sc.Queue),
			options.WithBlockwise(false, 6, time.Second),
			endpoints.UDPCfg(func(cfg *udpClient.Config) { cfg.GetMID = mids }),
			roles.DTLSServerCfg(func(cfg *dtlsServer.Config) { cfg.GetMID = mids }),
		}
		if sc.Mode == "gopool" {
			uopts = append(uopts, options.WithProcessReceivedMessageFunc(config.ProcessReceivedMessageFunc[*udpClient.Conn](
				func(req *pool.Message, cc *udpClient.Conn, h config.HandlerFunc[*udpClient.Conn]) {
					go cc.ProcessReceivedMessageWithHandler(req, h)
				})))
		}
		srv, stopRole, errRole := roles.Packet(sc.Role, link, bubble.Wait, uopts...)
		if errRole != nil {
			panic(errRole)
		}
		// the peer answers the nested request of a handler as soon as that handler has been released:
		// at once when the request is written after the release (Tap runs on the writer's goroutine),
		// from the wire log otherwise
		var nmu sync.Mutex
		nestedAnswered := map[string]bool{} // "MID/token" of nested requests already answered
		released := map[int]bool{}
		nestedOf := func(data []byte) (refcodec.Msg, int, bool) {
			m, ok := peer.ParseDatagram(data)
			if !ok || m.Code != 1 {
				return m, 0, false
			}
			var segs []string
			for _, o := range m.Opts {
				if o.Num == 11 {
					segs = append(segs, string(o.Val))
				}
			}
			var j int
			if len(segs) != 2 || segs[0] != "nested" {
				return m, 0, false
			}
			if _, err := fmt.Sscanf(segs[1], "%d", &j); err != nil {
				return m, 0, false
			}
			return m, j, true
		}
		answerOne := func(m refcodec.Msg, j int) {
			key := fmt.Sprintf("%d/%x", m.MID, m.Token)
			nmu.Lock()
			ok := released[j] && !nestedAnswered[key]
			if ok {
				nestedAnswered[key] = true
			}
			nmu.Unlock()
			if ok {
				link.A.Inject(peer.Datagram(refcodec.Msg{Type: peer.ACK, MID: m.MID, Code: 69, Token: m.Token, Payload: []byte("n")}))
			}
		}
		link.A.Tap = func(data []byte) {
			if m, j, ok := nestedOf(data); ok {
				answerOne(m, j)
			}
		}
		answerNested := func() bool {
			for _, rec := range link.Log() {
				if rec.Dir != 0 {
					continue
				}
				if m, j, ok := nestedOf(rec.Data); ok {
					answerOne(m, j)
				}
			}
			return true
		}
		release := func(j int) {
			nmu.Lock()
			was := released[j]
			released[j] = true
			nmu.Unlock()
			if g, ok := gates[j]; ok && !was {
				close(g)
			}
			answerNested()
		}
		isReleased := func(j int) bool { nmu.Lock(); defer nmu.Unlock(); return released[j] }
		// drain: once every gate is open, let the handlers that wait for a nested request finish (a
		// duplicate spinning on the per-ID mutex behind them keeps Wait() from returning)
		drain := func() {
			for i := 0; i < 400 && nestedOpen.Load() > 0; i++ {
				for k := 0; k < 100; k++ {
					runtime.Gosched()
				}
				answerNested()
			}
			bubble.Wait()
		}
		first := map[int]time.Duration{}
		floods := 0
		expiredOnce := map[int]bool{}
		lastServerMID := -1
		peerMIDs := map[int]bool{}
		for _, q := range sc.Reqs {
			peerMIDs[q.MID] = true
		}
		settle := func() {
			answerNested()
			{
				// a copy may be blocked on a per-MID mutex behind a gated handler (goroutine per message)
				// or behind a handler that waits for its nested request (replaced loop): mutex waits are
				// not durable blocks, so Wait() could never return — yield instead
				pending := false
				risky := sc.Mode == "gopool" // somebody may be spinning on a per-ID mutex
				for j := range gates {
					if _, seen := first[j]; seen && sc.Reqs[j].Beh == "nested" {
						risky = true
					}
				}
				for j := range gates {
					// any handler that is still held (also a gated one that merely occupies the loop in
					// front of a released nested handler's answer) keeps such a spinner alive
					if _, seen := first[j]; seen && !isReleased(j) && risky {
						pending = true
					}
				}
				if pending {
					for i := 0; i < 300; i++ {
						runtime.Gosched()
					}
					return
				}
			}
			bubble.Wait()
			for _, rec := range link.Log() {
				if rec.Dir == 0 {
					if m, ok := peer.ParseDatagram(rec.Data); ok && (m.Type == peer.CON || m.Type == peer.NON) {
						lastServerMID = m.MID
					}
				}
			}
		}
		for _, st := range sc.Steps {
			switch st.Kind {
			case "send":
				j := st.Req
				q := sc.Reqs[j]
				mid, ok := usedMID[j]
				if !ok {
					mid = q.MID
					if q.ServerMID && lastServerMID >= 0 && !peerMIDs[lastServerMID] {
						mid = lastServerMID
						peerMIDs[mid] = true
					}
					usedMID[j] = mid
				}
				ropts := peer.PathOpts(q.Beh)
				if q.NoResp > 0 {
					ropts = append(ropts, refcodec.Opt{Num: 258, Val: []byte{byte(q.NoResp)}})
				}
				d := peer.Datagram(refcodec.Msg{Type: q.Type, MID: mid, Code: 2, Token: token(j, q.TokLen),
					Opts: ropts, Payload: []byte{0xC5, byte(j)}})
				for c := 0; c < max(st.Copies, 1); c++ {
					if _, seen := first[j]; !seen {
						first[j] = time.Since(start)
					}
					copies = append(copies, copyRec{time.Since(start), j})
					link.A.Inject(d)
				}
				settle()
			case "flood":
				for j := range gates {
					if _, seen := first[j]; seen {
						release(j) // (a held handler occupies the receive loop: the flood would only queue up behind it)
					}
				}
				drain()
				for k := 0; k < st.Copies; k++ {
					link.A.Inject(peer.Datagram(refcodec.Msg{Type: peer.CON, MID: 45000 + floods, Code: 2, Token: []byte{0xF1, byte(floods >> 8), byte(floods)},
						Opts: peer.PathOpts("flood"), Payload: []byte{0xC5, 0xFF, 0}}))
					floods++
					if k%64 == 63 {
						settle()
					}
				}
				settle()
			case "release":
				release(st.Req)
				settle()
			case "sleep":
				for j := range gates {
					if _, seen := first[j]; seen {
						release(j) // virtual time cannot advance while a copy spins on a mutex
					}
				}
				drain()
				time.Sleep(time.Duration(st.Ms) * time.Millisecond)
				settle()
			case "tick":
				tk.Tick()
				settle()
			case "nearexpire", "expire", "expire1":
				for j := range gates {
					release(j)
				}
				drain()
				f, ok := first[st.Req]
				if !ok {
					continue
				}
				var target time.Duration
				if st.Kind == "nearexpire" {
					target = f + lifetime - time.Duration(max(st.Ms, 1))*time.Millisecond
				} else if st.Kind == "expire1" && !expiredOnce[st.Req] {
					// (an unrelated datagram taken for the first reply only makes the target earlier: the
					// copy that follows then falls into the span about which nothing is asserted)
					firstReply := time.Duration(-1)
					for _, rec := range link.Log() {
						if m, ok := peer.ParseDatagram(rec.Data); ok && rec.Dir == 0 && rec.T >= f && firstReply < 0 &&
							((m.Type == peer.ACK && m.MID == usedMID[st.Req]) || (len(m.Token) > 0 && bytes.Equal(m.Token, token(st.Req, sc.Reqs[st.Req].TokLen)))) {
							firstReply = rec.T
						}
					}
					if firstReply < 0 {
						continue
					}
					target = firstReply + lifetime + time.Duration(max(st.Ms, 1))*time.Millisecond
				} else {
					// strictly after every reply to this request plus the lifetime
					last := f
					for _, rec := range link.Log() {
						if rec.Dir == 0 && rec.T > last {
							last = rec.T
						}
					}
					target = last + lifetime + time.Duration(max(st.Ms, 1))*time.Millisecond
				}
				if d := target - time.Since(start); d > 0 {
					time.Sleep(d)
				}
				if st.Kind != "nearexpire" {
					expiredOnce[st.Req] = true
					tk.Tick()
				}
				settle()
			}
		}
		for j := range gates {
			release(j)
		}
		drain()
		time.Sleep(10 * time.Millisecond)
		bubble.Wait()
		wire = link.Log()
		if traceWire != nil {
			for _, rec := range wire {
				traceWire(rec.Dir, fmt.Sprintf("%v #%d %s", rec.T, rec.N, rec.Fate), rec.Data)
			}
		}
		_ = srv.Close()
		stopRole()
		bubble.Wait()
	})
	if res.Panic != "" {
		return evid.Failf("dedup/panic", sc, "panic in scenario: %s", res.Panic)
	}
	if res.Deadlock {
		return evid.Failf("dedup/deadlock", sc, "all goroutines blocked while the scenario was still running")
	}
	r.Class("teardown_leaks", b2i(res.Leaked))

	// ---- oracle: reference de-duplication table over the history -----------------------------------
	type reply struct {
		t time.Duration
		m refcodec.Msg
	}
	for j, q := range sc.Reqs {
		mid, sent := usedMID[j]
		if !sent {
			continue
		}
		tok := token(j, q.TokLen)
		var cs []copyRec
		for _, c := range copies {
			if c.req == j {
				cs = append(cs, c)
			}
		}
		var replies []reply
		for _, rec := range wire {
			if rec.Dir != 0 {
				continue
			}
			m, ok := peer.ParseDatagram(rec.Data)
			if !ok {
				return evid.Failf("dedup/garbage-on-wire", sc, "the server sent an undecodable datagram %x", rec.Data)
			}
			if q.Type == peer.CON {
				if m.Type == peer.ACK && m.MID == mid {
					replies = append(replies, reply{rec.T, m})
				}
			} else if q.Beh == "piggy" || q.Beh == "slow" || q.Beh == "nested" {
				if bytes.Equal(m.Token, tok) && m.Code != 0 && len(tok) > 0 {
					replies = append(replies, reply{rec.T, m})
				}
			}
		}
		var invsJ []invocation
		for _, h := range hlog {
			if h.req == j {
				invsJ = append(invsJ, h)
			}
		}
		if len(invsJ) == 0 {
			return evid.Failf("dedup/fresh-request-not-executed", sc, "request %d (MID %d, type %d) was delivered %d time(s) but never reached the handler; server replies for it: %d", j, mid, q.Type, len(cs), len(replies))
		}
		deduped := q.Type == peer.CON || ((q.Beh == "piggy" || q.Beh == "slow" || q.Beh == "nested") && !replyWithheld(q))
		if !deduped {
			continue // a NON request without a reply through the response writer may legitimately run again
		}
		// epochs: a copy is "fresh" if it arrives strictly after (first reply of the epoch + lifetime) -
		// the reply is cached when it is produced, which for a slow handler is later than the arrival;
		// replies to duplicates do not prolong the entry - and a "duplicate" if strictly before (first
		// arrival of the epoch + lifetime); anything between is not asserted
		epochs, grey := 0, false
		var epochFirst, epochFirstReply time.Duration
		firstReplyFrom := func(t0 time.Duration) time.Duration {
			for _, rp := range replies { // in wire order
				if rp.t >= t0 {
					return rp.t
				}
			}
			return t0
		}
		for i, c := range cs {
			switch {
			case i == 0:
				epochs, epochFirst = 1, c.t
				epochFirstReply = firstReplyFrom(c.t)
			case c.t < epochFirst+lifetime:
			case c.t > epochFirstReply+lifetime:
				epochs++
				epochFirst = c.t
				epochFirstReply = firstReplyFrom(c.t)
			default:
				grey = true
			}
		}
		if grey {
			continue
		}
		if len(invsJ) > epochs {
			return evid.Failf("dedup/handler-re-executed", sc, "request %d (type %d, MID %d, %s): %d copies in %d lifetime epoch(s) but the handler ran %d times (at %v)", j, q.Type, mid, q.Beh, len(cs), epochs, len(invsJ), invTimes(invsJ))
		}
		if len(invsJ) < epochs {
			return evid.Failf("dedup/not-fresh-after-lifetime", sc, "request %d (type %d, MID %d): %d lifetime epochs but the handler ran only %d times", j, q.Type, mid, epochs, len(invsJ))
		}
		if q.Type == peer.NON && len(tok) == 0 {
			continue // replies to token-less NON requests cannot be attributed on the wire
		}
		if len(replies) != len(cs) {
			return evid.Failf("dedup/reply-count", sc, "request %d (type %d, MID %d, %s): %d copies delivered, %d replies on the wire", j, q.Type, mid, q.Beh, len(cs), len(replies))
		}
		// every reply of an epoch has the content of the epoch's first reply; replies to duplicates
		// carry the duplicate's MID. The original reply of a NON request carries a MID of the server's
		// choosing and, with concurrent processing, need not be the first one on the wire: at most
		// one reply per epoch may differ in MID.
		epochStart, foreign := 0, 0
		for i, rp := range replies {
			if i > 0 && rp.t > replies[epochStart].t+lifetime {
				epochStart, foreign = i, 0
			}
			fr := replies[epochStart].m
			if rp.m.Code != fr.Code || !bytes.Equal(rp.m.Token, fr.Token) || !bytes.Equal(rp.m.Payload, fr.Payload) || !sameOpts(rp.m.Opts, fr.Opts) {
				return evid.Failf("dedup/reply-differs", sc, "request %d: reply %d differs from the first reply of its epoch:\n first %+v\n this  %+v", j, i, fr, rp.m)
			}
			if q.Type == peer.CON && rp.m.Type != peer.ACK {
				return evid.Failf("dedup/reply-type", sc, "request %d: duplicate of a confirmable request answered with type %d", j, rp.m.Type)
			}
			if rp.m.MID != mid {
				foreign++
				if q.Type == peer.CON || foreign > 1 {
					return evid.Failf("dedup/reply-mid", sc, "request %d: %d replies of one epoch carry a MID other than the request's (%d), e.g. %d", j, foreign, mid, rp.m.MID)
				}
			}
		}
	}
	return nil
}

func invTimes(v []invocation) []time.Duration {
	var out []time.Duration
	for _, x := range v {
		out = append(out, x.t)
	}
	return out
}

func sameOpts(a, b []refcodec.Opt) bool {
	if len(a) != len(b) {
		return false
	}
	for i := range a {
		if a[i].Num != b[i].Num || !bytes.Equal(a[i].Val, b[i].Val) {
			return false
		}
	}
	return true
}

func b2i(b bool) int64 {
	if b {
		return 1
	}
	return 0
}

func gen(t *rapid.T) Scenario {
	sc := Scenario{Mode: rapid.SampledFrom([]string{"loop", "loop", "gopool"}).Draw(t, "mode"), Queue: rapid.SampledFrom([]int{0, 1, 16}).Draw(t, "queue")}
	if rapid.IntRange(0, 2).Draw(t, "role") == 0 {
		sc.Role = "server"
	}
	n := rapid.IntRange(1, 4).Draw(t, "nreq")
	mids := rapid.SampledFrom([][]int{{100, 101, 102, 103}, {65535, 0, 1, 2}, {20001, 20002, 20003, 20004}, {4000, 36767, 36768, 9}}).Draw(t, "midset")
	for j := 0; j < n; j++ {
		sc.Reqs = append(sc.Reqs, Req{
			Type:      rapid.IntRange(0, 1).Draw(t, "type"),
			MID:       mids[j],
			ServerMID: rapid.IntRange(0, 3).Draw(t, "servermid") == 0,
			Beh:       rapid.SampledFrom([]string{"piggy", "piggy", "none", "separate", "slow", "nested"}).Draw(t, "beh"),
			Code:      rapid.SampledFrom([]int{0, 0, 0, 68, 132, 160, 163, 165}).Draw(t, "code"),
			TokLen:    rapid.SampledFrom([]int{1, 2, 4, 8}).Draw(t, "toklen"),
			NoResp:    rapid.SampledFrom([]int{0, 0, 0, 0, 2, 8, 16, 26, 24}).Draw(t, "noresp"),
		})
	}
	sent := map[int]bool{}
	steps := rapid.IntRange(1, 12).Draw(t, "nsteps")
	for i := 0; i < steps; i++ {
		switch rapid.IntRange(0, 9).Draw(t, "kind") {
		case 0, 1, 2, 3, 4, 5:
			j := rapid.IntRange(0, n-1).Draw(t, "req")
			sc.Steps = append(sc.Steps, Step{Kind: "send", Req: j, Copies: rapid.SampledFrom([]int{1, 1, 2, 3}).Draw(t, "copies")})
			sent[j] = true
		case 6:
			if rapid.IntRange(0, 19).Draw(t, "flood") == 0 {
				sc.Steps = append(sc.Steps, Step{Kind: "flood", Copies: rapid.SampledFrom([]int{50, 300, 1200, 3000}).Draw(t, "nflood")})
				continue
			}
			sc.Steps = append(sc.Steps, Step{Kind: "sleep", Ms: rapid.SampledFrom([]int{1, 50, 2000, 30000}).Draw(t, "ms")})
		case 7:
			sc.Steps = append(sc.Steps, Step{Kind: "tick"})
		case 8:
			sc.Steps = append(sc.Steps, Step{Kind: "release", Req: rapid.IntRange(0, n-1).Draw(t, "req")})
		case 9:
			// lifetime boundary, then copies of the request it was computed for
			j := rapid.IntRange(0, n-1).Draw(t, "req")
			kind := rapid.SampledFrom([]string{"nearexpire", "expire", "expire1"}).Draw(t, "boundary")
			if kind == "expire1" && rapid.Bool().Draw(t, "latedup") {
				// a duplicate well after the first copy, but within its lifetime
				sc.Steps = append(sc.Steps, Step{Kind: "send", Req: j, Copies: 1}, Step{Kind: "sleep", Ms: rapid.SampledFrom([]int{2000, 30000, 200000}).Draw(t, "dupafter")}, Step{Kind: "send", Req: j, Copies: 1})
			}
			sc.Steps = append(sc.Steps, Step{Kind: kind, Req: j, Ms: rapid.SampledFrom([]int{1, 2, 1000}).Draw(t, "eps")})
			sc.Steps = append(sc.Steps, Step{Kind: "send", Req: j, Copies: rapid.SampledFrom([]int{1, 2}).Draw(t, "copies")})
		}
	}
	return sc
}

func nonTrivial(sc Scenario) bool {
	seen := map[int]bool{}
	for _, st := range sc.Steps {
		if st.Kind == "send" {
			if seen[st.Req] || st.Copies > 1 {
				return true
			}
			seen[st.Req] = true
		}
	}
	return false
}

func TestCheck(t *testing.T) {
	r := evid.New(t, "C05")
	var shardSeq int
	var smu sync.Mutex
	eng := evid.RapidEngine("dedup", evid.RapidOpts{Quick: 20000, Thorough: 400000, Crashy: true}, gen, func(sc Scenario) *evid.Failure {
		smu.Lock()
		shardSeq++
		smu.Unlock()
		f := Exec(t, sc, 0, r)
		if f == nil {
			key := ""
			if nonTrivial(sc) {
				b, _ := json.Marshal(sc)
				key = string(b)
			}
			cls := []string{"dedup/mode=" + sc.Mode}
			if sc.Role == "server" {
				cls = append(cls, "dedup/connection-created-by-a-server")
			}
			for _, st := range sc.Steps {
				if st.Kind == "expire" || st.Kind == "nearexpire" {
					cls = append(cls, "dedup/has-"+st.Kind)
					break
				}
			}
			r.Case("dedup", key, func() any { return sc }, cls...)
		}
		return f
	})
	r.Main(evid.Meta{
		Rule:        udpsrv.Rule + ". Others: a server-side datagram connection on the in-memory network inside a synctest bubble; the scripted peer injects 1-4 requests (CON/NON, MIDs from sets that include 0/65535 and the MIDs the server itself just used), duplicates them back-to-back, interleaved and around the 247 s lifetime boundary (virtual clock), with handlers that answer piggy-backed (2.05, 2.04, 4.04 or a 5.xx failure), not at all, separately, slowly behind a gate, or only after a request of their own to the peer has been answered (the receive loop is replaced meanwhile), processed by the default loop or a goroutine per message; oracle: a reference de-duplication table over the handler log and the wire log (at most one execution per lifetime epoch, every duplicate answered with the first reply's code/token/options/payload and the duplicate's MID, fresh again after the lifetime, unseen MIDs always executed). Non-trivial = at least one duplicate delivered; distinct by scenario. counter: a datagram connection sends non-confirmable messages of its own while the scripted peer sends confirmable requests whose message IDs are chosen relative to the last own ID seen on the wire (at the counter, inside and at the edge of the window in which the library moves its counter away, thirds and quarters of half the ID space, half the space away); oracle: no own message ID is given to two different messages within the scenario and the connection does not close itself; non-trivial = at least two peer IDs inside the window",
		Assumptions: []string{"'not again' is asserted only strictly before first arrival + 247 s, 'fresh again' only strictly after the first reply of the epoch + 247 s and a tick (replies to duplicates do not prolong the lifetime)", "a NON request answered by a separate message (not through the response writer) or not at all may be executed again", "goroutine interleavings inside the bubble are chosen by the Go runtime"},
		Floor:       300,
	}, eng, counterEngine(t, r), udpsrv.Engine(r, []string{"alias", "twolocal"}, 6, 150))
}
