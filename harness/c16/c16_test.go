// C16 — parallel-request limits are never exceeded and never leak.
package c16

import (
	"context"
	"encoding/json"
	"fmt"
	"runtime"
	"sort"
	"sync"
	"sync/atomic"
	"testing"
	"time"

	"github.com/plgd-dev/go-coap/v3/message/codes"
	"github.com/plgd-dev/go-coap/v3/message/pool"
	limitparallelrequests "github.com/plgd-dev/go-coap/v3/net/client/limitParallelRequests"
	"pgregory.net/rapid"

	"verif/bubble"
	"verif/evid"
)

type Event struct {
	Kind string `json:"kind"` // arrive | cancel | finish
	Req  int    `json:"req"`
}

type Scenario struct {
	Total   int64   `json:"total"`   // 0 = unlimited
	PerPath int64   `json:"perPath"` // 0 = unlimited
	Paths   []int   `json:"paths"`   // path index of every request
	Events  []Event `json:"events"`
	// Obs: bit i set = request i goes through DoObserve instead of Do (the limiter guards both)
	Obs uint `json:"obs,omitempty"`
	// Root: path 0 is the root resource "/" - its requests carry no Uri-Path option at all (a
	// zero-length path is a target path like any other)
	Root bool `json:"root,omitempty"`
}

type reqState struct {
	arrived, inDo, ranDo, returned, cancelled, gateOpen bool
	err                                                 error
	admitSeq                                            int
	admitStep                                           int
	arriveSeq                                           int
	cancelledWhileWaiting                               bool
}

func Exec(t *testing.T, sc Scenario) *evid.Failure {
	var fail *evid.Failure
	res := bubble.Run(t, 30*time.Second, nil, func() {
		n := len(sc.Paths)
		var mu sync.Mutex
		st := make([]reqState, n+4)
		gates := make([]chan struct{}, n+4)
		cancels := make([]context.CancelFunc, n+4)
		reqs := make([]*pool.Message, n+4)
		pathOf := func(i int) int {
			if i < n {
				return sc.Paths[i]
			}
			return i - n // probes at the end: one per path
		}
		admitCounter, arriveCounter := 0, 0
		curStep := 0
		do := func(req *pool.Message) (*pool.Message, error) {
			tok := req.Token()
			i := int(tok[0])
			mu.Lock()
			st[i].inDo, st[i].ranDo = true, true
			admitCounter++
			st[i].admitSeq = admitCounter
			st[i].admitStep = curStep
			mu.Unlock()
			var err error
			select {
			case <-gates[i]:
			case <-req.Context().Done():
				err = req.Context().Err()
			}
			mu.Lock()
			st[i].inDo = false
			mu.Unlock()
			return nil, err
		}
		doObserve := func(req *pool.Message, _ func(*pool.Message)) (limitparallelrequests.Observation, error) {
			_, err := do(req)
			return nil, err
		}
		l := limitparallelrequests.New(sc.Total, sc.PerPath, do, doObserve)
		arrive := func(i int) {
			ctx, cancel := context.WithCancel(context.Background())
			cancels[i] = cancel
			gates[i] = make(chan struct{})
			m := pool.NewMessage(ctx)
			m.SetCode(codes.GET)
			m.SetToken([]byte{byte(i)})
			if !(sc.Root && pathOf(i) == 0) {
				m.MustSetPath(fmt.Sprintf("/p%d", pathOf(i)))
			}
			reqs[i] = m
			mu.Lock()
			arriveCounter++
			st[i].arrived, st[i].arriveSeq = true, arriveCounter
			mu.Unlock()
			go func() {
				var err error
				if sc.Obs&(1<<uint(i)) != 0 {
					_, err = l.DoObserve(m, nil)
				} else {
					_, err = l.Do(m)
				}
				mu.Lock()
				st[i].returned, st[i].err = true, err
				mu.Unlock()
			}()
		}
		total := sc.Total
		if total <= 0 {
			total = 1 << 40
		}
		perPath := sc.PerPath
		if perPath <= 0 {
			perPath = 1 << 40
		}
		check := func(step int, what string) bool {
			mu.Lock()
			defer mu.Unlock()
			inflight := 0
			perP := map[int]int{}
			for i := range st {
				if st[i].inDo {
					inflight++
					perP[pathOf(i)]++
				}
			}
			desc := func() string {
				s := ""
				for i := range st {
					if st[i].arrived {
						s += fmt.Sprintf("[r%d p%d inDo=%v ran=%v returned=%v cancelled=%v err=%v]", i, pathOf(i), st[i].inDo, st[i].ranDo, st[i].returned, st[i].cancelled, st[i].err)
					}
				}
				return s
			}
			if int64(inflight) > total {
				fail = evid.Failf("limit/total-exceeded", sc, "after event %d (%s): %d requests in flight, total limit %d: %s", step, what, inflight, sc.Total, desc())
				return false
			}
			for p, c := range perP {
				if int64(c) > perPath {
					fail = evid.Failf("limit/per-path-exceeded", sc, "after event %d (%s): %d requests in flight on path %d, per-path limit %d: %s", step, what, c, p, sc.PerPath, desc())
					return false
				}
			}
			for i := range st {
				s := &st[i]
				if s.cancelledWhileWaiting {
					if !s.returned || s.err == nil {
						fail = evid.Failf("limit/cancelled-waiter-not-returned", sc, "after event %d (%s): request %d was cancelled while waiting but has not returned its context error: %s", step, what, i, desc())
						return false
					}
					if s.ranDo {
						fail = evid.Failf("limit/cancelled-waiter-ran", sc, "after event %d (%s): request %d was cancelled while waiting but was run afterwards: %s", step, what, i, desc())
						return false
					}
				}
				// work conservation: a waiter must not exist while both limits have room for it
				if s.arrived && !s.returned && !s.inDo && !s.cancelled {
					if int64(inflight) < total && int64(perP[pathOf(i)]) < perPath {
						fail = evid.Failf("limit/slot-lost", sc, "after event %d (%s): request %d waits although %d/%d requests are in flight in total and %d/%d on its path: %s", step, what, i, inflight, sc.Total, perP[pathOf(i)], sc.PerPath, desc())
						return false
					}
				}
			}
			// arrival order among requests of one path. The limiter has two stages: the per-path queue
			// (FIFO) and then the total limit; requests that left the per-path queue in order still race
			// for the total limit, and "requests waiting for the same path are admitted in arrival order"
			// is a statement about the per-path queue. So the queue itself is observed (verif accessor):
			// at a quiescent point it must hold exactly the latest arrivals among the pending requests of
			// its path, and nobody who arrived after a queued request may have run.
			byPath := map[int][]int{}
			for i := range st {
				if s := &st[i]; s.arrived && !s.ranDo && !s.returned && !s.cancelled {
					byPath[pathOf(i)] = append(byPath[pathOf(i)], i)
				}
			}
			for pth, pend := range byPath {
				sort.Slice(pend, func(x, y int) bool { return st[pend[x]].arriveSeq < st[pend[y]].arriveSeq })
				_, q := l.VerifEndpoint(reqs[pend[0]])
				if q < 0 {
					fail = evid.Failf("limit/queue-negative", sc, "after event %d (%s): the queue of path %d reports %d waiters: %s", step, what, pth, q, desc())
					return false
				}
				if q > len(pend) {
					fail = evid.Failf("limit/queue-ghost", sc, "after event %d (%s): the queue of path %d holds %d waiters but only %d requests are pending on it: %s", step, what, pth, q, len(pend), desc())
					return false
				}
				for _, a := range pend[len(pend)-q:] {
					for j := range st {
						if b := &st[j]; j != a && b.arrived && pathOf(j) == pth && b.ranDo && b.arriveSeq > st[a].arriveSeq {
							fail = evid.Failf("limit/order", sc, "after event %d (%s): request %d still waits in the queue of path %d although request %d, which arrived later, was admitted: %s", step, what, a, pth, j, desc())
							return false
						}
					}
				}
			}
			// With no total limit there is no second stage: entering do() is the admission, and it must
			// follow arrival order across quiescent steps.
			if sc.Total <= 0 {
				for i := range st {
					for j := range st {
						a, b := &st[i], &st[j]
						if i != j && a.ranDo && b.ranDo && pathOf(i) == pathOf(j) && !a.cancelled && !b.cancelled && a.arriveSeq < b.arriveSeq && a.admitStep > b.admitStep {
							fail = evid.Failf("limit/order", sc, "after event %d (%s): request %d arrived before request %d on the same path but was admitted after it: %s", step, what, i, j, desc())
							return false
						}
					}
				}
			}
			return true
		}
		for k, e := range sc.Events {
			i := e.Req
			mu.Lock()
			curStep = k + 1
			mu.Unlock()
			switch e.Kind {
			case "arrive":
				if !st[i].arrived {
					arrive(i)
				}
			case "cancel":
				if st[i].arrived && !st[i].cancelled {
					mu.Lock()
					st[i].cancelled = true
					if !st[i].inDo && !st[i].returned {
						st[i].cancelledWhileWaiting = true
					}
					mu.Unlock()
					cancels[i]()
				}
			case "finish":
				if st[i].arrived && !st[i].gateOpen {
					st[i].gateOpen = true
					close(gates[i])
				}
			}
			bubble.Wait()
			if !check(k, fmt.Sprintf("%s %d", e.Kind, e.Req)) {
				break
			}
		}
		// drain: let everything finish
		for i := 0; i < n; i++ {
			if st[i].arrived && !st[i].gateOpen {
				st[i].gateOpen = true
				mu.Lock()
				curStep = len(sc.Events) + 1 + i
				mu.Unlock()
				close(gates[i])
				bubble.Wait()
				if fail == nil && !check(len(sc.Events)+i, fmt.Sprintf("drain %d", i)) {
					break
				}
			}
		}
		bubble.Wait()
		if fail == nil {
			for i := 0; i < n; i++ {
				if st[i].arrived && !st[i].returned {
					fail = evid.Failf("limit/call-never-returned", sc, "request %d has not returned although every request was finished", i)
				}
			}
		}
		// idle again: a probe on every path is admitted at once
		if fail == nil {
			npaths := 0
			for _, p := range sc.Paths {
				npaths = max(npaths, p+1)
			}
			for p := 0; p < npaths; p++ {
				i := n + p
				arrive(i)
				bubble.Wait()
				mu.Lock()
				ok := st[i].inDo
				mu.Unlock()
				if !ok {
					fail = evid.Failf("limit/not-idle", sc, "all calls have returned, but a new request on path %d is not admitted immediately", p)
					break
				}
				close(gates[i])
				bubble.Wait()
			}
		}
		for i := range cancels {
			if cancels[i] != nil {
				cancels[i]()
			}
			if gates[i] != nil && !st[i].gateOpen && i < n {
				close(gates[i])
			}
		}
		bubble.Wait()
	})
	if fail != nil {
		return fail
	}
	if res.Panic != "" {
		return evid.Failf("limit/panic", sc, "panic: %s", res.Panic)
	}
	if res.Deadlock {
		return evid.Failf("limit/deadlock", sc, "all goroutines blocked while the scenario was still running")
	}
	if res.Leaked {
		return evid.Failf("limit/goroutine-left", sc, "a goroutine of the limiter is still blocked after every call was finished or cancelled")
	}
	return nil
}

func nonTrivial(sc Scenario) bool {
	// a cancel of a request that is queued behind another one: approximated structurally —
	// a cancel event before any finish event while limits are finite and another request arrived earlier
	if sc.Total == 0 && sc.PerPath == 0 {
		return false
	}
	arrived := 0
	finished := false
	for _, e := range sc.Events {
		switch e.Kind {
		case "arrive":
			arrived++
		case "finish":
			finished = true
		case "cancel":
			if arrived >= 2 && !finished && e.Req != firstArrived(sc) {
				return true
			}
		}
	}
	return false
}

func firstArrived(sc Scenario) int {
	for _, e := range sc.Events {
		if e.Kind == "arrive" {
			return e.Req
		}
	}
	return -1
}

// interleavings of the per-request chains
func interleave(chains [][]Event, yield func([]Event)) {
	idx := make([]int, len(chains))
	total := 0
	for _, c := range chains {
		total += len(c)
	}
	cur := make([]Event, 0, total)
	var rec func()
	rec = func() {
		if len(cur) == total {
			yield(append([]Event(nil), cur...))
			return
		}
		for c := range chains {
			if idx[c] < len(chains[c]) {
				cur = append(cur, chains[c][idx[c]])
				idx[c]++
				rec()
				idx[c]--
				cur = cur[:len(cur)-1]
			}
		}
	}
	rec()
}

func exhaustive(t *testing.T, n int) evid.Engine {
	return evid.Engine{Name: "exhaustive",
		Replay: func(raw json.RawMessage) *evid.Failure {
			var sc Scenario
			if err := json.Unmarshal(raw, &sc); err != nil {
				return &evid.Failure{Key: "replay/decode", Msg: err.Error()}
			}
			return evid.SafeExec("exhaustive", func(s Scenario) *evid.Failure { return Exec(t, s) }, sc)
		},
		Search: func(r *evid.Run) {
			nreq := n
			if r.Thorough() {
				nreq = n + 1
			}
			limits := [][2]int64{{1, 1}, {1, 0}, {0, 1}, {2, 1}, {1, 2}, {2, 2}, {2, 0}}
			if r.Thorough() {
				limits = limits[:3] // 4 requests: (1,1), (1,unlimited), (unlimited,1)
			}
			var paths [][]int
			var recP func(cur []int)
			recP = func(cur []int) {
				if len(cur) == nreq {
					paths = append(paths, append([]int(nil), cur...))
					return
				}
				for p := 0; p < 2; p++ {
					if len(cur) == 0 && p == 1 {
						continue // symmetry: the first request uses path 0
					}
					recP(append(cur, p))
				}
			}
			recP(nil)
			ch := make(chan Scenario, 1024)
			var wg sync.WaitGroup
			workers := runtime.GOMAXPROCS(0)
			var stop atomic.Bool
			var count atomic.Int64
			for w := 0; w < workers; w++ {
				wg.Add(1)
				go func() {
					defer wg.Done()
					for sc := range ch {
						if stop.Load() {
							continue
						}
						n := count.Add(1)
						if f := evid.SafeExec("exhaustive", func(s Scenario) *evid.Failure { return Exec(t, s) }, sc); f != nil {
							r.Fail(f)
							if !r.IsKnown(f) {
								stop.Store(true)
							}
							continue
						}
						if nonTrivial(sc) {
							r.AddDistinct(1)
							if n%50000 == 1 {
								r.Sample("exhaustive", sc)
							}
						}
						r.Eval(1)
					}
				}()
			}
			for mask := 0; mask < 1<<nreq && !stop.Load(); mask++ { // which requests get a cancel event
				chains := make([][]Event, nreq)
				for i := 0; i < nreq; i++ {
					chains[i] = []Event{{"arrive", i}}
					if mask&(1<<i) != 0 {
						chains[i] = append(chains[i], Event{"cancel", i})
					}
					chains[i] = append(chains[i], Event{"finish", i})
				}
				interleave(chains, func(evs []Event) {
					if stop.Load() {
						return
					}
					for _, p := range paths {
						for _, lim := range limits {
							ch <- Scenario{Total: lim[0], PerPath: lim[1], Paths: p, Events: evs, Obs: 0xAAAA} // odd requests use DoObserve
						}
					}
				})
			}
			close(ch)
			wg.Wait()
			scenarios := count.Load()
			r.SetExhaustive()
			r.Note("exhaustive_subdomain", fmt.Sprintf("all %d event orders of %d requests (arrive < [cancel] < finish per request, every subset of requests cancelled) x path assignments over 2 paths x %d (total, per-path) limit pairs", scenarios, nreq, len(limits)))
		}}
}

// genLong: one busy period of a path that lasts for 70-160 requests - arrivals in index order, the
// requests at the head of the line finishing (or being cancelled) while new ones keep arriving, so
// that the line behind the running request(s) is never empty and many more requests pass through it
// than it ever holds at once.
func genLong(t *rapid.T) Scenario {
	sc := Scenario{Total: int64(rapid.SampledFrom([]int{0, 0, 2, 3}).Draw(t, "total")), PerPath: int64(rapid.IntRange(1, 2).Draw(t, "perPath"))}
	sc.Root = rapid.IntRange(0, 3).Draw(t, "root") == 0
	n := rapid.IntRange(70, 160).Draw(t, "n")
	twoPaths := rapid.IntRange(0, 3).Draw(t, "twopaths") == 0
	for i := 0; i < n; i++ {
		p := 0
		if twoPaths {
			p = rapid.IntRange(0, 1).Draw(t, "path")
		}
		sc.Paths = append(sc.Paths, p)
	}
	sc.Obs = uint(rapid.Uint64().Draw(t, "obs"))
	depth := rapid.IntRange(2, 40).Draw(t, "depth") // how long the line is kept
	var active []int
	cancelled := map[int]bool{}
	next := 0
	for next < n || len(active) > 0 {
		if next < n && (len(active) < depth || rapid.IntRange(0, 2).Draw(t, "more") == 0) {
			sc.Events = append(sc.Events, Event{"arrive", next})
			active = append(active, next)
			next++
			continue
		}
		k := rapid.IntRange(0, min(3, len(active)-1)).Draw(t, "which")
		i := active[k]
		if !cancelled[i] && rapid.IntRange(0, 9).Draw(t, "cancel") == 0 {
			cancelled[i] = true
			sc.Events = append(sc.Events, Event{"cancel", i})
			continue
		}
		sc.Events = append(sc.Events, Event{"finish", i})
		active = append(active[:k], active[k+1:]...)
	}
	return sc
}

func gen(t *rapid.T) Scenario {
	if rapid.IntRange(0, 19).Draw(t, "long") == 0 {
		return genLong(t)
	}
	sc := Scenario{Total: int64(rapid.IntRange(0, 3).Draw(t, "total")), PerPath: int64(rapid.IntRange(0, 2).Draw(t, "perPath"))}
	sc.Root = rapid.IntRange(0, 3).Draw(t, "root") == 0
	n := rapid.IntRange(4, 7).Draw(t, "n")
	for i := 0; i < n; i++ {
		sc.Paths = append(sc.Paths, rapid.IntRange(0, 2).Draw(t, "path"))
	}
	sc.Obs = uint(rapid.IntRange(0, 1<<n-1).Draw(t, "obs"))
	// a random interleaving of the chains
	next := make([]int, n) // 0: arrive, 1: cancel/finish, 2: finish, 3: done
	cancels := make([]bool, n)
	for i := range cancels {
		cancels[i] = rapid.IntRange(0, 2).Draw(t, "cancels") == 0
	}
	remaining := n
	for remaining > 0 {
		i := rapid.IntRange(0, n-1).Draw(t, "who")
		switch next[i] {
		case 0:
			sc.Events = append(sc.Events, Event{"arrive", i})
			next[i] = 1
			if !cancels[i] {
				next[i] = 2
			}
		case 1:
			sc.Events = append(sc.Events, Event{"cancel", i})
			next[i] = 2
		case 2:
			sc.Events = append(sc.Events, Event{"finish", i})
			next[i] = 3
			remaining--
		}
	}
	return sc
}

func TestCheck(t *testing.T) {
	r := evid.New(t, "C16")
	random := evid.RapidEngine("random", evid.RapidOpts{Quick: 6000, Thorough: 200000, Crashy: true}, gen, func(sc Scenario) *evid.Failure {
		f := Exec(t, sc)
		if f == nil {
			key := ""
			if nonTrivial(sc) {
				b, _ := json.Marshal(sc)
				key = string(b)
			}
			if len(sc.Paths) >= 70 {
				r.Case("random", key, func() any { return sc }, "random/one-busy-period-of-70-to-160-requests")
			} else {
				r.Case("random", key, func() any { return sc })
			}
		}
		return f
	})
	r.Main(evid.Meta{
		Rule:        "wire: a whole client connection (datagram and stream) with total limit 1-3 and per-path limit 1-2 against a scripted peer that answers when the scenario says so; Get, Observe and Observation.Cancel calls on three paths; at every quiescent point the requests the peer holds unanswered (GETs, observe registrations and de-registrations alike) number at most the total limit and, per path, the per-path limit; when the peer has answered everything every call has returned. Others: the limiter built with (total, per-path) limits from {1,2,unlimited}, the wrapped do / doObserve blocking on a per-request gate and keeping in-flight gauges (requests go through Do or DoObserve: odd ones in the exhaustive engine, a generated subset in the random one); events {arrive(i,path), cancel(i), finish(i)} executed one at a time in a synctest bubble with quiescence after each; exhaustive: every event order for 3 requests (4 in the thorough tier) x every cancel subset x path assignments x 7 limit pairs; random: 4-7 requests over 3 paths, and in a twentieth of the cases one busy period of 70-160 requests on one or two paths (a line of 2-40 waiters kept up while its head finishes or is cancelled). Oracle at every quiescent point: in-flight <= total limit and <= per-path limit per path; a waiter cancelled while waiting returns its context error and never runs; no waiter exists while both limits have room for it (no lost slot); the per-path queue (verif accessor) holds exactly the latest arrivals among the pending requests of its path and nobody who arrived after a queued request has run (FIFO admission; with no total limit also: entry into do() follows arrival order across steps); finally every call has returned, a probe on every path is admitted at once, and no limiter goroutine is left. stress: 3-32 real goroutines (no virtual clock) released together on 3 paths, cancelling after 0-400 us, 40 repetitions per pattern; the gauges inside do() give the maximum ever in flight, afterwards the queue table (verif accessor) is empty and a probe on each path runs at once. Non-trivial = a cancel of a request queued behind another one (finite limits); distinct by scenario",
		Assumptions: []string{"events are applied one at a time, so at a quiescent point a request is either waiting or running: the 'either outcome' tolerance for simultaneous admission and cancellation is not needed"},
		Floor:       500,
	}, exhaustive(t, 3), random, stressEngine(r), wireEngine(t, r))
}
