//go:build verif

package c16

// Engine "wire": the limits as a peer sees them. The other engines drive the limiter object; this
// one drives a whole client connection (datagram and stream) configured with a total and a
// per-path limit, and counts, on the wire, the requests the scripted peer has received and not yet
// answered - whatever API call produced them: Get, the registration of Observe, the
// de-registration of Observation.Cancel. At every quiescent point that number never exceeds the
// total limit and, per path, the per-path limit; once the peer has answered everything, every
// call has returned.

import (
	"context"
	"encoding/json"
	"fmt"
	"sync"
	"testing"
	"time"

	"github.com/plgd-dev/go-coap/v3/message"
	"github.com/plgd-dev/go-coap/v3/message/pool"
	"github.com/plgd-dev/go-coap/v3/net/client"
	"github.com/plgd-dev/go-coap/v3/options"
	"pgregory.net/rapid"

	"verif/bubble"
	"verif/endpoints"
	"verif/evid"
	"verif/memnet"
	"verif/peer"
	"verif/refcodec"
	"verif/roles"
	"verif/wire"
)

type wireOp struct {
	Kind string `json:"kind"` // get | obs | cancel | answer
	Path int    `json:"path,omitempty"`
	Ref  int    `json:"ref,omitempty"` // cancel: which observe op (by position among obs ops); answer: which outstanding request (modulo)
}

type wireScenario struct {
	Transport string   `json:"transport"`
	Total     int      `json:"total"`
	PerPath   int      `json:"perPath"`
	Ops       []wireOp `json:"ops"`
	// Role: "" a client connection; "server" the connection a tcp / dtls server creates for an
	// accepted peer (server applications issue requests on those, too)
	Role string `json:"role,omitempty"`
}

type wireClient interface {
	Get(ctx context.Context, path string, opts ...message.Option) (*pool.Message, error)
	Observe(ctx context.Context, path string, observeFunc func(req *pool.Message), opts ...message.Option) (client.Observation, error)
	Close() error
}

func execWire(t *testing.T, sc wireScenario) *evid.Failure {
	var fail *evid.Failure
	res := bubble.Run(t, 60*time.Second, nil, func() {
		var cc wireClient
		var w wire.Wire
		var tk endpoints.Ticker
		stopRole := func() {}
		if sc.Transport == "udp" {
			link := memnet.NewPacketLink(memnet.LinkCfg{LatencyMs: 1})
			c, stop, err := roles.Packet(sc.Role, link, bubble.Wait,
				options.WithMessagePool(pool.New(8, 2048)), options.WithPeriodicRunner(tk.Runner()),
				options.WithBlockwise(false, 6, time.Second),
				options.WithLimitClientParallelRequest(int64(sc.Total)), options.WithLimitClientEndpointParallelRequest(int64(sc.PerPath)),
				options.WithTransmission(64, time.Hour, 2),
			)
			if err != nil {
				panic(err)
			}
			cc, w, stopRole = c, wire.UDP(link), stop
		} else {
			link := memnet.NewStreamLink(memnet.StreamCfg{})
			c, stop, err := roles.Stream(sc.Role, link, bubble.Wait,
				options.WithMessagePool(pool.New(8, 2048)), options.WithPeriodicRunner(tk.Runner()),
				options.WithBlockwise(false, 6, time.Second), options.WithCloseSocket(),
				options.WithLimitClientParallelRequest(int64(sc.Total)), options.WithLimitClientEndpointParallelRequest(int64(sc.PerPath)),
			)
			if err != nil {
				panic(err)
			}
			cc, w, stopRole = c, wire.TCP(link), stop
		}
		bubble.Wait()
		_ = w.FromLib()
		var mu sync.Mutex
		var wg sync.WaitGroup
		observations := map[int]client.Observation{} // by position among the obs ops
		nobs := 0
		var outstanding []wirePending
		nextMID := 41000
		scan := func() {
			for _, m := range w.FromLib() {
				if m.Code != 1 {
					continue
				}
				p := ""
				for _, o := range m.Opts {
					if o.Num == 11 {
						p += "/" + string(o.Val)
					}
				}
				outstanding = append(outstanding, wirePending{m, p})
			}
		}
		check := func(step int) bool {
			if len(outstanding) > sc.Total {
				fail = evid.Failf("limit/wire-total-exceeded", sc, "after step %d the peer holds %d unanswered requests of this connection, the total limit is %d: %s", step, len(outstanding), sc.Total, describeWire(outstanding))
				return false
			}
			per := map[string]int{}
			for _, o := range outstanding {
				per[o.path]++
				if per[o.path] > sc.PerPath {
					fail = evid.Failf("limit/wire-per-path-exceeded", sc, "after step %d the peer holds %d unanswered requests for %s, the per-path limit is %d: %s", step, per[o.path], o.path, sc.PerPath, describeWire(outstanding))
					return false
				}
			}
			return true
		}
		answer := func(k int) {
			if len(outstanding) == 0 {
				return
			}
			k %= len(outstanding)
			o := outstanding[k]
			outstanding = append(outstanding[:k], outstanding[k+1:]...)
			var opts []refcodec.Opt
			if v, ok := peer.FindOpt(o.m, 6); ok && len(v) == 0 { // registration (Observe = 0)
				opts = []refcodec.Opt{{Num: 6, Val: []byte{1}}}
			}
			w.ToLib(wire.Respond(w, o.m, 69, opts, []byte("ok"), &nextMID))
		}
		for step, op := range sc.Ops {
			switch op.Kind {
			case "get":
				wg.Add(1)
				go func() {
					defer wg.Done()
					ctx, cancel := context.WithTimeout(context.Background(), 30*time.Second)
					defer cancel()
					_, _ = cc.Get(ctx, fmt.Sprintf("/p%d", op.Path), message.Option{ID: message.URIQuery, Value: []byte(fmt.Sprintf("i=%d", step))})
				}()
			case "obs":
				idx := nobs
				nobs++
				wg.Add(1)
				go func() {
					defer wg.Done()
					ctx, cancel := context.WithTimeout(context.Background(), 30*time.Second)
					defer cancel()
					o, err := cc.Observe(ctx, fmt.Sprintf("/p%d", op.Path), func(*pool.Message) {}, message.Option{ID: message.URIQuery, Value: []byte(fmt.Sprintf("i=%d", step))})
					if err == nil {
						mu.Lock()
						observations[idx] = o
						mu.Unlock()
					}
				}()
			case "cancel":
				mu.Lock()
				o := observations[op.Ref]
				delete(observations, op.Ref)
				mu.Unlock()
				if o != nil {
					wg.Add(1)
					go func() {
						defer wg.Done()
						ctx, cancel := context.WithTimeout(context.Background(), 30*time.Second)
						defer cancel()
						_ = o.Cancel(ctx)
					}()
				}
			case "answer":
				answer(op.Ref)
			}
			bubble.Wait()
			scan()
			if !check(step) {
				break
			}
		}
		// wind down: the peer answers whatever it holds until nothing new arrives
		for round := 0; fail == nil && round < 200; round++ {
			bubble.Wait()
			scan()
			if !check(len(sc.Ops) + round) {
				break
			}
			if len(outstanding) == 0 {
				break
			}
			answer(0)
		}
		if fail == nil {
			done := make(chan struct{})
			go func() { wg.Wait(); close(done) }()
			select {
			case <-done:
			case <-time.After(40 * time.Second):
				fail = evid.Failf("limit/wire-calls-hang", sc, "the peer has answered every request it received, yet not every call has returned 40 s later")
			}
		}
		_ = cc.Close()
		stopRole()
		bubble.Wait()
	})
	if fail != nil {
		return fail
	}
	if res.Panic != "" {
		return evid.Failf("wire/panic", sc, "panic in scenario: %s", res.Panic)
	}
	if res.Deadlock {
		return evid.Failf("wire/deadlock", sc, "all goroutines blocked while the scenario was still running")
	}
	return nil
}

type wirePending struct {
	m    refcodec.Msg
	path string
}

func describeWire(in []wirePending) string {
	out := ""
	for _, p := range in {
		kind := "GET"
		if v, ok := peer.FindOpt(p.m, 6); ok {
			kind = "observe registration"
			if len(v) > 0 {
				kind = "observe de-registration"
			}
		}
		out += fmt.Sprintf("[%s %s token %x]", kind, p.path, p.m.Token)
	}
	return out
}

func genWire(t *rapid.T) wireScenario {
	sc := wireScenario{Transport: rapid.SampledFrom([]string{"udp", "tcp"}).Draw(t, "transport"),
		Total: rapid.SampledFrom([]int{1, 1, 2, 3}).Draw(t, "total"), PerPath: rapid.SampledFrom([]int{1, 1, 2}).Draw(t, "perpath")}
	if rapid.IntRange(0, 2).Draw(t, "role") == 0 {
		sc.Role = "server"
	}
	n := rapid.IntRange(2, 14).Draw(t, "nops")
	nobs := 0
	for i := 0; i < n; i++ {
		kinds := []string{"get", "get", "obs", "answer", "answer"}
		if nobs > 0 {
			kinds = append(kinds, "cancel", "cancel")
		}
		op := wireOp{Kind: rapid.SampledFrom(kinds).Draw(t, "kind")}
		switch op.Kind {
		case "get", "obs":
			op.Path = rapid.IntRange(0, 2).Draw(t, "path")
			if op.Kind == "obs" {
				nobs++
			}
		case "cancel":
			op.Ref = rapid.IntRange(0, nobs-1).Draw(t, "ref")
		case "answer":
			op.Ref = rapid.IntRange(0, 3).Draw(t, "which")
		}
		sc.Ops = append(sc.Ops, op)
	}
	return sc
}

func wireEngine(t *testing.T, r *evid.Run) evid.Engine {
	return evid.RapidEngine("wire", evid.RapidOpts{Quick: 6000, Thorough: 150000, Crashy: true}, genWire, func(sc wireScenario) *evid.Failure {
		f := execWire(t, sc)
		if f == nil {
			// non-trivial: more requests issued than the total limit admits at once, one of them a cancel
			reqs, cancels := 0, 0
			for _, op := range sc.Ops {
				switch op.Kind {
				case "get", "obs":
					reqs++
				case "cancel":
					cancels++
				}
			}
			key := ""
			if reqs > sc.Total {
				b, _ := json.Marshal(sc)
				key = string(b)
			}
			cls := []string{"wire/" + sc.Transport}
			if sc.Role == "server" {
				cls = append(cls, "wire/connection-created-by-a-server")
			}
			if cancels > 0 {
				cls = append(cls, "wire/with-observation-cancel")
			}
			r.Case("wire", key, func() any { return sc }, cls...)
		}
		return f
	})
}
