//go:build verif

package c16

import (
	"context"
	"encoding/json"
	"fmt"
	"sync"
	"sync/atomic"
	"time"

	"github.com/plgd-dev/go-coap/v3/message/codes"
	"github.com/plgd-dev/go-coap/v3/message/pool"
	limitparallelrequests "github.com/plgd-dev/go-coap/v3/net/client/limitParallelRequests"
	"pgregory.net/rapid"

	"verif/evid"
)

// StressScenario: many real goroutines (no bubble, real scheduler) arrive at once; some cancel while
// queued or while running. The gauges inside the wrapped do() are the oracle.
type Worker struct {
	Path     int `json:"path"`
	CancelUs int `json:"cancelUs"` // cancel the context after this many microseconds (0 = never)
	HoldUs   int `json:"holdUs"`   // time spent inside do()
}

type StressScenario struct {
	Total   int64    `json:"total"`
	PerPath int64    `json:"perPath"`
	Workers []Worker `json:"workers"`
	Reps    int      `json:"reps"`
}

func execStress(sc StressScenario) *evid.Failure {
	total, perPath := sc.Total, sc.PerPath
	if total <= 0 {
		total = 1 << 40
	}
	if perPath <= 0 {
		perPath = 1 << 40
	}
	for rep := 0; rep < sc.Reps; rep++ {
		var inflight atomic.Int64
		var perP [4]atomic.Int64
		var maxTotal, maxPer atomic.Int64
		do := func(req *pool.Message) (*pool.Message, error) {
			p := int(req.Token()[1])
			n := inflight.Add(1)
			m := perP[p].Add(1)
			for {
				old := maxTotal.Load()
				if n <= old || maxTotal.CompareAndSwap(old, n) {
					break
				}
			}
			for {
				old := maxPer.Load()
				if m <= old || maxPer.CompareAndSwap(old, m) {
					break
				}
			}
			hold := time.Duration(req.Token()[2]) * 10 * time.Microsecond
			select {
			case <-time.After(hold):
			case <-req.Context().Done():
			}
			perP[p].Add(-1)
			inflight.Add(-1)
			return nil, nil
		}
		doObserve := func(req *pool.Message, _ func(*pool.Message)) (limitparallelrequests.Observation, error) {
			_, err := do(req)
			return nil, err
		}
		l := limitparallelrequests.New(sc.Total, sc.PerPath, do, doObserve)
		var wg sync.WaitGroup
		start := make(chan struct{})
		for i, w := range sc.Workers {
			wg.Add(1)
			go func(i int, w Worker) {
				defer wg.Done()
				ctx, cancel := context.WithCancel(context.Background())
				defer cancel()
				m := pool.NewMessage(ctx)
				m.SetCode(codes.GET)
				m.SetToken([]byte{byte(i), byte(w.Path), byte(min(w.HoldUs/10, 250))})
				m.MustSetPath(fmt.Sprintf("/p%d", w.Path))
				<-start
				if w.CancelUs > 0 {
					tm := time.AfterFunc(time.Duration(w.CancelUs)*time.Microsecond, cancel)
					defer tm.Stop()
				}
				if i%2 == 1 {
					_, _ = l.DoObserve(m, nil)
				} else {
					_, _ = l.Do(m)
				}
			}(i, w)
		}
		close(start)
		done := make(chan struct{})
		go func() { wg.Wait(); close(done) }()
		select {
		case <-done:
		case <-time.After(30 * time.Second):
			return evid.Failf("stress/calls-hang", sc, "repetition %d: after 30 s some of the %d calls have not returned (in flight %d)", rep, len(sc.Workers), inflight.Load())
		}
		if maxTotal.Load() > total {
			return evid.Failf("stress/total-exceeded", sc, "repetition %d: %d requests were in flight at once, total limit %d", rep, maxTotal.Load(), sc.Total)
		}
		if maxPer.Load() > perPath {
			return evid.Failf("stress/per-path-exceeded", sc, "repetition %d: %d requests were in flight at once on one path, per-path limit %d", rep, maxPer.Load(), sc.PerPath)
		}
		if q := l.VerifQueues(); q != 0 {
			return evid.Failf("stress/queue-not-empty", sc, "repetition %d: all calls returned but %d endpoint queue entries remain", rep, q)
		}
		// idle again: a probe on each path runs at once
		for p := 0; p < 3; p++ {
			ctx, cancel := context.WithTimeout(context.Background(), 5*time.Second)
			m := pool.NewMessage(ctx)
			m.SetCode(codes.GET)
			m.SetToken([]byte{0xff, byte(p), 0})
			m.MustSetPath(fmt.Sprintf("/p%d", p))
			ran := make(chan struct{})
			go func() { _, _ = l.Do(m); close(ran) }()
			select {
			case <-ran:
			case <-time.After(5 * time.Second):
				cancel()
				return evid.Failf("stress/not-idle", sc, "repetition %d: all calls returned but a new request on path %d is not admitted", rep, p)
			}
			cancel()
		}
	}
	return nil
}

func genStress(reps int) func(t *rapid.T) StressScenario {
	return func(t *rapid.T) StressScenario {
		sc := StressScenario{Total: int64(rapid.IntRange(0, 3).Draw(t, "total")), PerPath: int64(rapid.IntRange(0, 2).Draw(t, "perPath")), Reps: reps}
		n := rapid.SampledFrom([]int{3, 4, 8, 16, 32}).Draw(t, "n")
		for i := 0; i < n; i++ {
			sc.Workers = append(sc.Workers, Worker{
				Path:     rapid.IntRange(0, 2).Draw(t, "path"),
				CancelUs: rapid.SampledFrom([]int{0, 0, 1, 20, 100, 400}).Draw(t, "cancel"),
				HoldUs:   rapid.SampledFrom([]int{0, 10, 100, 500}).Draw(t, "hold"),
			})
		}
		return sc
	}
}

func stressEngine(r *evid.Run) evid.Engine {
	return evid.RapidEngine("stress", evid.RapidOpts{Quick: 120, Thorough: 6000}, genStress(40), func(sc StressScenario) *evid.Failure {
		f := execStress(sc)
		if f == nil {
			key := ""
			if sc.Total > 0 || sc.PerPath > 0 {
				b, _ := json.Marshal(sc)
				key = string(b)
			}
			r.Case("stress", key, func() any { return sc }, fmt.Sprintf("stress/workers=%d", len(sc.Workers)))
			r.Eval(int64(sc.Reps - 1))
		}
		return f
	})
}
