// C01 — wire codecs are exact inverses on every well-formed message (UDP and TCP).
package c01

import (
	"bytes"
	"context"
	"encoding/hex"
	"errors"
	"fmt"
	"testing"

	"github.com/plgd-dev/go-coap/v3/message"
	"github.com/plgd-dev/go-coap/v3/message/pool"
	tcpcoder "github.com/plgd-dev/go-coap/v3/tcp/coder"
	udpcoder "github.com/plgd-dev/go-coap/v3/udp/coder"
	"pgregory.net/rapid"

	"verif/codecx"
	"verif/evid"
	"verif/refcodec"
)

type coderI interface {
	Size(m message.Message) (int, error)
	Encode(m message.Message, buf []byte) (int, error)
	Decode(buf []byte, m *message.Message) (int, error)
}

func coderOf(stream bool) coderI {
	if stream {
		return tcpcoder.DefaultCoder
	}
	return udpcoder.DefaultCoder
}

type rtCase struct {
	Stream bool         `json:"stream"`
	Msg    refcodec.Msg `json:"msg"`
	Extra  int          `json:"extra"` // spare bytes behind an exact-size buffer
	Small  []int        `json:"small"` // additional too-small buffer lengths (permille of size)
}

const canary = 0xA5

func canaryBuf(n, spare int) []byte {
	b := make([]byte, n+spare)
	for i := range b {
		b[i] = canary
	}
	return b
}

func canaryIntact(b []byte, from int) int {
	for i := from; i < len(b); i++ {
		if b[i] != canary {
			return i
		}
	}
	return -1
}

func short(b []byte) string {
	if len(b) > 48 {
		return hex.EncodeToString(b[:48]) + fmt.Sprintf("...(%d bytes)", len(b))
	}
	return hex.EncodeToString(b)
}

func execRoundTrip(c rtCase) *evid.Failure {
	cd := coderOf(c.Stream)
	datagram := !c.Stream
	lm := codecx.ToLib(c.Msg)
	var want []byte
	var err error
	if c.Stream {
		want, err = refcodec.EncodeStream(c.Msg)
	} else {
		want, err = refcodec.EncodeDatagram(c.Msg)
	}
	if err != nil {
		return evid.Failf("harness/generator", c, "generator produced a message outside the preconditions: %v", err)
	}
	// (a) size in advance
	size, err := cd.Size(lm)
	if err != nil {
		return evid.Failf("roundtrip/size-error", c, "Size refused a well-formed message: %v", err)
	}
	if size != len(want) {
		return evid.Failf("roundtrip/size-wrong", c, "Size = %d, canonical encoding has %d bytes", size, len(want))
	}
	// exact buffer (with spare capacity behind it that must stay untouched)
	arr := canaryBuf(size, 64)
	n, err := cd.Encode(lm, arr[:size])
	if err != nil {
		return evid.Failf("roundtrip/encode-error", c, "Encode into an exact buffer failed: %v", err)
	}
	if n != size {
		return evid.Failf("roundtrip/encode-n", c, "Encode wrote %d bytes, Size said %d", n, size)
	}
	if i := canaryIntact(arr, size); i >= 0 {
		return evid.Failf("roundtrip/overrun", c, "Encode touched byte %d beyond a buffer of %d bytes", i, size)
	}
	// (d) byte-exact differential against the reference encoder
	if !bytes.Equal(arr[:size], want) {
		return evid.Failf("roundtrip/bytes-differ", c, "library bytes %s\nreference bytes %s", short(arr[:size]), short(want))
	}
	// larger buffer: exactly n bytes are written
	if c.Extra > 0 {
		big := canaryBuf(size+c.Extra, 0)
		n2, err := cd.Encode(lm, big)
		if err != nil || n2 != size || !bytes.Equal(big[:size], want) {
			return evid.Failf("roundtrip/larger-buffer", c, "Encode into a larger buffer: n=%d err=%v", n2, err)
		}
		if i := canaryIntact(big, size); i >= 0 {
			return evid.Failf("roundtrip/larger-buffer-scribble", c, "Encode wrote at offset %d, beyond the %d bytes it reported", i, size)
		}
	}
	// (c) too-small buffers
	hdr := 4 + len(c.Msg.Token)
	ks := []int{0, 1, hdr - 1, hdr, size / 2, size - 1}
	for _, pm := range c.Small {
		ks = append(ks, size*pm/1000)
	}
	for _, k := range ks {
		if k < 0 || k >= size {
			continue
		}
		sm := canaryBuf(k, size+16)
		n, err := cd.Encode(lm, sm[:k])
		if !errors.Is(err, message.ErrTooSmall) {
			return evid.Failf("roundtrip/too-small-no-error", c, "Encode into %d of %d bytes returned n=%d err=%v, want ErrTooSmall", k, size, n, err)
		}
		if n != size {
			return evid.Failf("roundtrip/too-small-size", c, "Encode into %d of %d bytes reported size %d", k, size, n)
		}
		if i := canaryIntact(sm, k); i >= 0 {
			return evid.Failf("roundtrip/too-small-overrun", c, "Encode into a buffer of %d bytes touched byte %d", k, i)
		}
	}
	// (b) decode
	var dm message.Message
	dm.Options = make(message.Options, 0, len(c.Msg.Opts)+1)
	in := append([]byte(nil), want...)
	used, err := cd.Decode(in, &dm)
	if err != nil {
		return evid.Failf("roundtrip/decode-error", c, "Decode(Encode(m)) failed: %v; bytes %s", err, short(want))
	}
	if used != size {
		return evid.Failf("roundtrip/decode-consumed", c, "Decode consumed %d of %d bytes", used, size)
	}
	if got := codecx.FromLib(dm); !refcodec.Equal(got, c.Msg, datagram) {
		return evid.Failf("roundtrip/decode-differs", c, "Decode(Encode(m)) != m: got %+v", got)
	}
	// (f) pooled API, fresh and recycled
	p := pool.New(4, 1024)
	for round := 0; round < 3; round++ {
		pm := p.AcquireMessage(context.Background())
		pm.SetCode(lm.Code)
		pm.SetToken(lm.Token)
		if round < 2 {
			pm.ResetOptionsTo(lm.Options)
		} else {
			// the options are added one by one, as an application builds a request (the message keeps
			// the values in a buffer of its own, which it has to grow for the longer ones)
			for _, o := range lm.Options {
				pm.AddOptionBytes(o.ID, o.Value)
			}
		}
		if len(lm.Payload) > 0 {
			if round != 1 {
				pm.SetBody(bytes.NewReader(lm.Payload))
			} else {
				// a body that is streamed: io.Reader allows a Read to return fewer bytes than asked for
				pm.SetBody(&chunkReader{Reader: bytes.NewReader(lm.Payload), max: 1 + len(lm.Payload)/3})
			}
		}
		if datagram {
			pm.SetType(lm.Type)
			pm.SetMessageID(lm.MessageID)
		}
		out, err := pm.MarshalWithEncoder(cd)
		if err != nil {
			return evid.Failf("roundtrip/pool-marshal-error", c, "MarshalWithEncoder (round %d): %v", round, err)
		}
		if !bytes.Equal(out, want) {
			return evid.Failf("roundtrip/pool-marshal-differs", c, "MarshalWithEncoder (round %d) bytes %s\nreference %s", round, short(out), short(want))
		}
		rm := p.AcquireMessage(context.Background())
		in := append([]byte(nil), want...)
		used, err := rm.UnmarshalWithDecoder(cd, in)
		if err != nil || used != size {
			return evid.Failf("roundtrip/pool-unmarshal", c, "UnmarshalWithDecoder (round %d): n=%d err=%v", round, used, err)
		}
		got := refcodec.Msg{Code: int(rm.Code()), Token: rm.Token(), Type: int(rm.Type()), MID: int(rm.MessageID())}
		for _, o := range rm.Options() {
			got.Opts = append(got.Opts, refcodec.Opt{Num: int(o.ID), Val: o.Value})
		}
		got.Payload, _ = rm.ReadBody()
		if !refcodec.Equal(got, c.Msg, datagram) {
			return evid.Failf("roundtrip/pool-unmarshal-differs", c, "UnmarshalWithDecoder (round %d) gives %+v", round, got)
		}
		// the decoded message is used again, as a handler or a forwarder does: its body is taken
		// away or replaced, and it is encoded once more
		for step, payload := range [][]byte{nil, []byte("second body"), nil} {
			m2 := c.Msg
			m2.Payload = payload
			var want2 []byte
			if c.Stream {
				want2, err = refcodec.EncodeStream(m2)
			} else {
				want2, err = refcodec.EncodeDatagram(m2)
			}
			if err != nil {
				break
			}
			if payload == nil {
				rm.SetBody(nil)
			} else {
				rm.SetBody(bytes.NewReader(payload))
			}
			out2, err := rm.MarshalWithEncoder(cd)
			if err != nil {
				return evid.Failf("roundtrip/pool-reencode-error", c, "MarshalWithEncoder of the decoded message after SetBody (round %d, step %d): %v", round, step, err)
			}
			if !bytes.Equal(out2, want2) {
				return evid.Failf("roundtrip/pool-reencode-differs", c, "decoded message, body set to %q, encoded again (round %d, step %d): bytes %s\nreference %s", payload, round, step, short(out2), short(want2))
			}
		}
		p.ReleaseMessage(pm)
		p.ReleaseMessage(rm)
	}
	return nil
}

// chunkReader is an io.ReadSeeker whose Read returns at most max bytes at a time.
type chunkReader struct {
	*bytes.Reader
	max int
}

func (c *chunkReader) Read(p []byte) (int, error) {
	if len(p) > c.max {
		p = p[:c.max]
	}
	return c.Reader.Read(p)
}

func genRT(stream bool) func(t *rapid.T) rtCase {
	return func(t *rapid.T) rtCase {
		c := rtCase{Stream: stream, Msg: codecx.GenMsg(t, stream)}
		c.Extra = rapid.SampledFrom([]int{0, 1, 7, 300}).Draw(t, "extra")
		c.Small = rapid.SliceOfN(rapid.IntRange(0, 999), 0, 3).Draw(t, "small")
		return c
	}
}

func rtEngine(name string, stream bool, r *evid.Run) evid.Engine {
	return evid.RapidEngine(name, evid.RapidOpts{Quick: 20000, Thorough: 1600000}, genRT(stream), func(c rtCase) *evid.Failure {
		f := execRoundTrip(c)
		if f == nil {
			key := ""
			if codecx.ExtendedClass(c.Msg) {
				b, _ := refcodec.EncodeStream(c.Msg)
				key = string(b) + fmt.Sprint(c.Msg.Type, c.Msg.MID)
			}
			cls := []string{name + "/opts=" + bucket(len(c.Msg.Opts)), name + "/len=" + lenClass(c.Msg)}
			r.Case(name, key, func() any { return c }, cls...)
		}
		return f
	})
}

func bucket(n int) string {
	switch {
	case n == 0:
		return "0"
	case n <= 2:
		return "1-2"
	case n <= 5:
		return "3-5"
	}
	return "6+"
}

func lenClass(m refcodec.Msg) string {
	b, _ := refcodec.EncodeOptions(m.Opts, m.Payload)
	switch l := len(b); {
	case l < 13:
		return "0-12"
	case l < 269:
		return "13-268"
	case l < 65805:
		return "269-65804"
	}
	return "65805+"
}

// ---- negative domain: what the statement says must be refused -----------------------------

type negCase struct {
	Stream bool         `json:"stream"`
	Msg    refcodec.Msg `json:"msg"`
	TokLen int          `json:"toklen"` // >8: oversized token
	Type   int          `json:"type"`   // datagram: outside 0..3
	MID    int64        `json:"mid"`    // datagram: outside 0..65535
	Which  string       `json:"which"`  // token | type | mid
}

func execNegative(c negCase) *evid.Failure {
	cd := coderOf(c.Stream)
	lm := codecx.ToLib(c.Msg)
	switch c.Which {
	case "token":
		lm.Token = bytes.Repeat([]byte{0x5a}, c.TokLen)
	case "type":
		lm.Type = message.Type(c.Type)
	case "mid":
		lm.MessageID = int32(c.MID)
	}
	need := 64 + len(lm.Token) + len(lm.Payload)
	for _, o := range lm.Options {
		need += len(o.Value) + 5
	}
	buf := canaryBuf(need, 0)
	n, err := cd.Encode(lm, buf)
	if err == nil {
		key := "negative/" + c.Which + "-accepted"
		if c.Which == "type" && c.Type >= 4 && c.Type <= 255 {
			// known finding F1: kept open because the pinned test TestMarshalMessage demands Type 255 to encode
			key = "negative/type-4-255-accepted"
		}
		return evid.Failf(key, c, "Encode accepted an invalid %s and wrote %d bytes: %s", c.Which, n, short(buf[:max(n, 0)]))
	}
	if errors.Is(err, message.ErrTooSmall) {
		return evid.Failf("negative/"+c.Which+"-too-small", c, "Encode reported ErrTooSmall (size %d) for an invalid %s instead of refusing it", n, c.Which)
	}
	if _, err := cd.Size(lm); c.Which == "token" && err == nil {
		return evid.Failf("negative/token-size-accepted", c, "Size accepted a token of %d bytes", c.TokLen)
	}
	// pooled path
	pm := pool.NewMessage(context.Background())
	pm.SetCode(lm.Code)
	pm.SetToken(lm.Token)
	pm.ResetOptionsTo(lm.Options)
	pm.SetType(lm.Type)
	pm.SetMessageID(lm.MessageID)
	if out, err := pm.MarshalWithEncoder(cd); err == nil {
		return evid.Failf("negative/"+c.Which+"-pool-accepted", c, "MarshalWithEncoder accepted an invalid %s: %s", c.Which, short(out))
	}
	return nil
}

func genNeg(t *rapid.T) negCase {
	c := negCase{Stream: rapid.Bool().Draw(t, "stream")}
	c.Msg = codecx.GenMsg(t, c.Stream)
	if len(c.Msg.Payload) > 2000 {
		c.Msg.Payload = c.Msg.Payload[:2000]
	}
	kinds := []string{"token"}
	if !c.Stream {
		kinds = []string{"token", "type", "type", "mid", "mid"}
	}
	c.Which = rapid.SampledFrom(kinds).Draw(t, "which")
	switch c.Which {
	case "token":
		c.TokLen = rapid.OneOf(rapid.IntRange(9, 20), rapid.SampledFrom([]int{9, 15, 16, 17, 24, 255, 256})).Draw(t, "toklen")
	case "type":
		c.Type = rapid.OneOf(rapid.IntRange(4, 255), rapid.SampledFrom([]int{-1, 4, 5, 7, 8, 16, 255, 256, 259, 32767, -32768, -2})).Draw(t, "type")
	case "mid":
		c.MID = rapid.OneOf(rapid.Int64Range(65536, 1<<31-1), rapid.Int64Range(-(1<<31), -1), rapid.SampledFrom([]int64{-1, 65536, 65537, 1 << 16 * 3, 1<<31 - 1, -(1 << 31)})).Draw(t, "mid")
	}
	return c
}

func TestCheck(t *testing.T) {
	r := evid.New(t, "C01")
	neg := evid.RapidEngine("negative", evid.RapidOpts{Quick: 4000, Thorough: 200000}, genNeg, func(c negCase) *evid.Failure {
		f := execNegative(c)
		if f == nil {
			r.Case("negative", fmt.Sprint(c.Stream, c.Which, c.TokLen, c.Type, c.MID), func() any { return c }, "negative/"+c.Which)
		}
		return f
	})
	r.Main(evid.Meta{
		Rule:        "rapid-generated well-formed messages (token 0-8, all codes, type/MID, sorted option multisets over registry and unknown numbers hitting every delta/length extension class, payloads aimed at the stream Len class boundaries) through Size/Encode/Decode of both coders and the pooled API (fresh and recycled messages; options set at once or added one by one; bodies read in one piece or in short reads); oracles: size-in-advance, byte-exact differential against an independent canonical encoder, decode round-trip, ErrTooSmall with untouched canary beyond the buffer; negative engine: oversized token, type outside 0-3, MID outside 0-65535 must be refused. Non-trivial = uses an extended (>=13) delta/length/Len class (round-trip engines) or any negative case; distinct by encoded bytes / by invalid field value",
		Assumptions: []string{"refcodec's canonical encoder transcribes RFC 7252 section 3 / RFC 8323 section 3 correctly (cross-checked against the repository's byte vectors in refcodec tests)", "inputs outside the stated preconditions other than token length, type and MID (code > 255, option value > 65804 bytes, unsorted options) are not asserted on"},
		Floor:       500,
	}, rtEngine("roundtrip-udp", false, r), rtEngine("roundtrip-tcp", true, r), neg)
}
