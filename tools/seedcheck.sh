#!/bin/bash
# usage: tools/seedcheck.sh <Cnn> [patchdir [agent-worktree-path]]
# Confirms a seeded change and runs the owning check against it, in a scratch worktree of /repo
# that is created here and removed afterwards. patchdir defaults to /verif/seeded/<Cnn> (needs
# patch.diff and demo/run.sh). Never touches /repo's working tree.
set -u
ID=$1
ROOT=$(cd "$(dirname "$0")/.." && pwd)   # /verif, or a snapshot of it
DIR=${2:-$ROOT/seeded/$ID}; DIR=$(cd "$DIR" && pwd)
ORIG=${3:-$(cat "$DIR/ORIGIN" 2>/dev/null || echo /tmp/seed/$ID)}
WT=/tmp/seedcheck-$ID-$$
export GOFLAGS=-mod=mod GOPROXY=off
BASE=$(python3 -c "import json,sys; print(json.load(open(sys.argv[1])).get('applies_to','HEAD'))" "$DIR/meta.json" 2>/dev/null || echo HEAD)
git -C /repo worktree add -q "$WT" "${BASE:-HEAD}" || exit 2
trap 'git -C /repo worktree remove --force "$WT" >/dev/null 2>&1' EXIT
git -C "$WT" apply "$DIR/patch.diff" || { echo "patch does not apply"; exit 2; }
echo "== $ID: $(git -C "$WT" diff --stat | tail -1)"
(cd "$WT" && go build ./... && go build -tags verif ./...) && echo "build: ok" || echo "build: FAILED"
echo "pinned suite: $(flock /tmp/verif-baseline.lock "$ROOT/tools/baseline.py" "$WT" | head -1)"
if [ -f "$DIR/demo/run.sh" ]; then
  # the demonstration refers to the seed agent's worktree path: point it at ours
  DEMO=/tmp/seedcheck-demo-$ID-$$
  rm -rf "$DEMO"; cp -r "$DIR/demo" "$DEMO"
  grep -rl "$ORIG" "$DEMO" | xargs -r sed -i "s#$ORIG.out/demo#$DEMO#g; s#$ORIG#$WT#g"
  (cd "$DEMO" && timeout 600 bash ./run.sh >"$DEMO/with.log" 2>&1; echo "demo with the change: exit=$?")
  git -C "$WT" apply -R "$DIR/patch.diff"
  (cd "$DEMO" && timeout 600 bash ./run.sh >"$DEMO/without.log" 2>&1; echo "demo without the change: exit=$?")
  git -C "$WT" apply "$DIR/patch.diff"
  rm -rf "$DEMO"
fi
echo "owning check (quick) against the change:"
(cd "$ROOT" && VERIF_REPO="$WT" ./check ${CHECK_AS:-$ID} quick 2>&1 | grep -v "^KNOWN" | cut -c1-300 | head -6)
