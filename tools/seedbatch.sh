#!/bin/bash
# usage: tools/seedbatch.sh <root> <name>...   (e.g. tools/seedbatch.sh /tmp/wt4 C01m1 C04m2)
# Runs tools/seedcheck.sh for <root>/<name>.out (agent worktree <root>/<name>) one after the other,
# logs to <root>/sc/<name>.log and prints one summary line per seed.
ROOT=$1; shift
mkdir -p "$ROOT/sc"
for n in "$@"; do
  id=${n:0:3}
  if [ ! -s "$ROOT/$n.out/patch.diff" ]; then echo "$n: no patch delivered"; continue; fi
  /verif/tools/seedcheck.sh "$id" "$ROOT/$n.out" "$ROOT/$n" > "$ROOT/sc/$n.log" 2>&1
  b=$(grep -c "^build: ok" "$ROOT/sc/$n.log"); s=$(grep -c "428/428" "$ROOT/sc/$n.log")
  w=$(grep -o "demo with the change: exit=[0-9]*" "$ROOT/sc/$n.log" | grep -o "[0-9]*$"); wo=$(grep -o "demo without the change: exit=[0-9]*" "$ROOT/sc/$n.log" | grep -o "[0-9]*$")
  v=$(sed -n '/owning check/,$p' "$ROOT/sc/$n.log" | grep -m1 -E "^(OK|VIOLATION|INCONCLUSIVE)" | cut -c1-60)
  k=$(sed -n '/owning check/,$p' "$ROOT/sc/$n.log" | grep -m1 -o "key=[^ ]*")
  echo "$n: build=$b suite428=$s demo=$w/$wo | $v $k"
done
