#!/bin/sh
# usage: tools/trace.sh <pkg> <scenario-file>   — print the trace of a saved scenario (debugging aid)
cd /verif/harness && GOFLAGS=-mod=mod GOPROXY=off GOSUMDB=off GOTOOLCHAIN=local VERIF_TRACE="$2" go1.26.8 test -count=1 -vet=off -tags verif -run TestTrace -v ./$1 2>&1 | grep -a -v "^ok\|^PASS"
