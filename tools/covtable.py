#!/usr/bin/env python3
"""Prints the DESIGN.md section 8.4 table from the evidence files of the last run."""
import json, glob
def fmt(n):
    if n >= 1e6: return f"{n/1e6:.1f} M"
    if n >= 1e3: return f"{n/1e3:.0f} k"
    return str(n)
print("| id | engines (wall s) | cases | non-trivial distinct | wall |")
print("|---|---|---|---|---|")
for f in sorted(glob.glob('/verif/evidence/C*.json')):
    e = json.load(open(f)); c = e['coverage']
    eng = ", ".join(f"{k.split('/',1)[1]} ({v:.0f})" for k, v in sorted(c.items()) if k.startswith('wall_s/'))
    print(f"| {e['property_id']} | {eng} | {fmt(c['evaluations'])} | {fmt(c['distinct_nontrivial'])} | {e['wall_s']:.0f} s |")
