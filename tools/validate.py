#!/usr/bin/env python3-vt
import json, jsonschema, glob, sys
ok = True
def v(path, schema):
    global ok
    try:
        jsonschema.validate(json.load(open(path)), json.load(open(schema)))
    except Exception as e:
        ok = False
        print("INVALID", path, str(e)[:300])
v('/verif/MANIFEST.json', '/root/.vp/MANIFEST.schema.json')
m = json.load(open('/verif/MANIFEST.json'))
for c in m['checks']:
    try:
        v(c['evidence_file'], '/root/.vp/EVIDENCE.schema.json')
    except FileNotFoundError:
        print("missing", c['evidence_file']); ok = False
ps = [json.loads(l)['id'] for l in open('/verif/properties.jsonl')]
have = {c['property_id'] for c in m['checks']} | {n['property_id'] for n in m.get('not_applicable', [])}
if set(ps) != have: print("manifest does not cover", set(ps) ^ have); ok = False
print("valid" if ok else "PROBLEMS")
sys.exit(0 if ok else 1)
