#!/usr/bin/env python3
"""usage: tools/keepseed.py <Cnn> <srcdir> <origin-worktree> <dest-name> <change> <needs> <keys|-> <when>
Copies a confirmed seeded change (patch.diff, demo/, README.agent.md) from the seed agent's output
directory into /verif/seeded/<dest-name>/ and writes meta.json. Run tools/seedcheck.sh first."""
import json, os, shutil, sys
pid, src, origin, dest, change, needs, keys, when = sys.argv[1:9]
d = f'/verif/seeded/{dest}'
os.makedirs(d, exist_ok=True)
shutil.copy(f'{src}/patch.diff', f'{d}/patch.diff')
if os.path.exists(f'{src}/README.agent.md'):
    shutil.copy(f'{src}/README.agent.md', f'{d}/README.agent.md')
if os.path.isdir(f'{d}/demo'):
    shutil.rmtree(f'{d}/demo')
shutil.copytree(f'{src}/demo', f'{d}/demo', ignore=shutil.ignore_patterns('*.log', '*.test', '*.out'))
open(f'{d}/ORIGIN', 'w').write(origin + '\n')
meta = {
    'property': pid,
    'source': 'independent sub-agent given only the property text and its own scratch worktree of /repo (second round: asked for a less central clause or code path)',
    'change': change,
    'needs_to_manifest': needs,
    'confirmed': {
        'builds': 'go build ./... and go build -tags verif ./... in a scratch worktree with the patch applied: ok',
        'pinned_suite': 'tools/baseline.py <worktree>: 428/428 stable tests pass with the patch applied',
        'demonstration': 'demo/run.sh exits non-zero with the patch applied and 0 with it reverted (run by tools/seedcheck.sh in a fresh scratch worktree)',
    },
    'ran': f'tools/seedcheck.sh {pid} /verif/seeded/{dest}',
    'detected_by': ({'check': f'./check {pid} quick', 'keys': keys, 'when': when} if keys != '-' else {'check': None, 'when': when}),
}
json.dump(meta, open(f'{d}/meta.json', 'w'), indent=1)
print('kept', d)
