#!/usr/bin/env python3
"""usage: tools/seedprompt.py <root> <name> <Cnn> <assignment text>
Writes <root>/<name>.PROMPT.md - the task text for one seed agent (property text only, own scratch
worktree <root>/<name>, deliverables in <root>/<name>.out) - and creates the worktree at /repo's HEAD."""
import json, subprocess, sys, os
root, name, pid, assignment = sys.argv[1:5]
prop = next(json.loads(l) for l in open('/verif/properties.jsonl') if json.loads(l)['id'] == pid)
wt, out = f'{root}/{name}', f'{root}/{name}.out'
text = f"""# Task: seed one realistic property-breaking change into go-coap

You work ONLY inside the scratch git worktree `{wt}` (a checkout of plgd-dev/go-coap, Go module
`github.com/plgd-dev/go-coap/v3`) and write your deliverables to `{out}/`. Do not read or touch
`/repo`, `/verif`, or any other directory under `{root}`. Never use `git stash` (the stash is shared between
worktrees); use `git diff > file` and `git apply` / `git apply -R` instead. Do not commit.

Environment for every shell call: `export GOFLAGS=-mod=mod GOPROXY=off` (no network; GOTOOLCHAIN=auto picks the
cached toolchain the repository's go.mod asks for). Build tag `verif` exists in the tree for instrumentation; both
`go build ./...` and `go build -tags verif ./...` must still succeed after your change.

## The property (this is all you are given about what is being verified)

```json
{json.dumps(prop, indent=1)}
```

## Your assignment within this property

Many workers have already seeded changes for this property; the straightforward ones are taken. YOUR change must be

    {assignment}

## What to produce

Introduce ONE small, realistic change to the library code (the kind of regression a refactor, an optimisation, a
"cleanup", a wrong merge or a well-meant bug fix would introduce — not sabotage that any smoke test would notice)
such that:

1. the tree still compiles (`go build ./... && go build -tags verif ./...`);
2. the repository's existing test suite still passes:
   `flock {root}/test.lock go test -vet=off -count=1 -timeout 25m ./...` (the flock serialises suites of parallel
   workers because the `net` package tests bind fixed ports; `net` tests `TestUDPConnWriteToAddr` /
   `TestUDPConnWriteWithContext` fail in this sandbox even on the unmodified tree — for anything else that fails,
   `git apply -R` your patch and rerun just that package, and only accept failures that also occur without your change).
   If the suite catches your change, pick a different one;
3. the property above is genuinely broken by it (state which clause), within the assignment above.
   Read the code first and be inventive — the best change is one whose diff looks correct in review.

Then write a demonstration: a small self-contained Go test in `{out}/demo/` (own `go.mod` with
`replace github.com/plgd-dev/go-coap/v3 => {wt}`, copy `{wt}/go.sum` next to it, same `go` line as the repo's go.mod)
that uses only the library's exported API, FAILS with your change applied and PASSES on the unmodified tree (verify
both: `git diff > {out}/patch.diff; git apply -R {out}/patch.diff; run; git apply {out}/patch.diff`).
Add `demo/run.sh` that runs it (exit code non-zero = property broken). The demo must fail at least 9 times out of 10
with the change and never without it.

Deliverables in `{out}/`: `patch.diff` (git diff of the worktree, library files only), `demo/` and
`README.agent.md` (what changed, which clause it breaks and why, what is needed to manifest it, commands run and
their results). Leave the change applied in the worktree when you finish. If you conclude that no such change exists
that passes the existing suite, say so in README.agent.md and deliver nothing else. Your final message: a five-line
summary.
"""
os.makedirs(out, exist_ok=True)
open(f'{root}/{name}.PROMPT.md', 'w').write(text)
subprocess.run(['git', '-C', '/repo', 'worktree', 'add', '-q', wt, 'HEAD'], check=True)
print(f'{root}/{name}.PROMPT.md')
