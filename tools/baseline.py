#!/usr/bin/env python3
"""Run the repository's pinned test suite (guard OFF) and compare with /root/.vp/BASELINE.json.
usage: baseline.py [repo_dir]     exit 0 iff every stable_pass test passed."""
import json, subprocess, sys, os
repo = sys.argv[1] if len(sys.argv) > 1 else "/repo"
base = json.load(open("/root/.vp/BASELINE.json"))
want = set(base["stable_pass"])
env = dict(os.environ); env.pop("GOFLAGS", None); env["GOPROXY"] = "off"
p = subprocess.run(["go", "test", "-mod=mod", "-json", "-vet=off", "-count=1", "-timeout", "25m", "./..."],
                   cwd=repo, env=env, stdout=subprocess.PIPE, stderr=subprocess.STDOUT, text=True)
passed, failed = set(), set()
if "\"Action\"" not in p.stdout:
    print(p.stdout[-2000:])
for line in p.stdout.splitlines():
    try:
        ev = json.loads(line)
    except Exception:
        continue
    if ev.get("Test") and ev.get("Action") in ("pass", "fail"):
        name = "%s::%s" % (ev["Package"], ev["Test"])
        (passed if ev["Action"] == "pass" else failed).add(name)
missing = sorted(want - passed)
print("baseline: %d/%d stable tests passed; %d failed overall (baseline always_fail=%s)" % (len(want & passed), len(want), len(failed), base.get("always_fail")))
for m in missing[:50]:
    print("  NOT PASSED:", m)
sys.exit(0 if not missing else 1)
