#!/usr/bin/env python3
"""Regenerates /verif/MANIFEST.json from the table below (kept valid at all times)."""
import json, os, subprocess
ROOT = os.path.dirname(os.path.dirname(os.path.abspath(__file__)))
props = [json.loads(l) for l in open(os.path.join(ROOT, "properties.jsonl"))]

BASE_NOTE = "Trusted base: Go 1.26.8 toolchain (testing/synctest for the virtual clock), pgregory.net/rapid v1.3.0, and the reference models in /verif/harness (kept small, written from the RFCs, cross-checked against the repository's own byte vectors). Exploration finds violations; it does not prove their absence."

# property -> (technique, level text, design ref, extra note)
CLAIMED = {
 "C10": ("metamorphic search: well-behaved clients interleaved with generated adversaries against tcp/dtls servers on in-memory listeners (synctest bubble) and against the real loopback udp server incl. unicast discovery with several responders",
         "2.5k (quick) / 60k (thorough) bubble scenarios with hostile bytes, mutated and oversize messages, stray responses, stalled handshakes and closes, plus 60 / 2000 real-socket scenarios; the well-behaved clients must see exactly what they would see alone, the server must keep accepting, OnNewConn must report one connection per remote, and discovery responses must reach only the receiver of their token with the sender's connection.",
         "DESIGN.md 3/C10", "Real-socket scenarios run in real time; a failure there counts only if it reproduces three times in a row. TLS and pion-DTLS handshakes themselves are not exercised (the servers run on in-memory listeners)."),
 "C09": ("interruption-point search in a synctest bubble: blocking operation x peer script x interruption kind x phase, quiescence proves the call is blocked, fixed virtual allowance after the interruption; servers on in-memory listeners with Stop from several goroutines",
         "6k (quick) / 100k (thorough) generated combinations of {GET, block-wise POST, large POST, observe, observation cancel, ping, one-way write} x {silent, ACK only, unrelated traffic, j blocks then silence, stops reading, closes} x {cancel, deadline, local Close, peer close} x {before, during; queued behind the limiter / NSTART} on both in-memory transports, plus 1.5k / 40k server scenarios (tcp and dtls servers with idle, in-flight, stalled-handshake and silent peers). Leak detection on leaving the bubble decides 'close is clean'.",
         "DESIGN.md 3/C09", "One open known finding: a stream write stalled by a non-reading peer ignores the context. The real engine (UDP, DTLS-PSK, TCP, TLS loopback sockets, Server.Discover) runs in real time with a 5 s allowance; a failure there counts only if it reproduces three times in a row."),
 "C11": ("history search in a synctest bubble: scripted peer injects numbered messages; handlers return, block on nested requests on their own connection, or block on a gate; multiset/order oracle over the handler log",
         "8k (quick) / 200k (thorough) generated event histories on datagram and stream connections with receive queues 0/1/16, nesting to three sequential blocking requests per handler and several handlers blocked at once, concurrent application requests and close at a generated point; quiescence after each event makes 'dispatched exactly once' and 'the nested request completes' decidable.",
         "DESIGN.md 3/C11", ""),
 "C03": ("schedule/history search in a synctest bubble: concurrent callers against a scripted wire-level peer that answers in generated order and style; payload = f(request index, token) as cross-delivery oracle",
         "8k (quick) / 200k (thorough) generated scenarios on datagram and stream connections, block-wise on/off, concurrent or serialised, with token families built to collide as far as byte strings can, separate/early/delayed/duplicated responses, stray responses with prefix/extension tokens and duplicate-token requests.",
         "DESIGN.md 3/C03", "The real engine repeats the matching oracle over UDP, DTLS-PSK, TCP and TLS loopback sockets (real time); hash collisions of Token.Hash() are not constructed."),
 "C12": ("life-cycle monitor (verif pool hook: state machine, poison on release, verification on re-acquisition and end-of-run sweep) over generated mixed scenarios between two endpoints with 2-8 object pools; application-side snapshots",
         "4k (quick) / 150k (thorough) generated histories with faults, cancellations, slow handlers and concurrency; every acquire/release of both pools is observed, so a double release or a write after release anywhere on an executed path is detected deterministically; content stability of messages the application holds is compared after the pool was churned.",
         "DESIGN.md 3/C12", "Only paths that the generated scenarios execute are covered; pure reads after release are invisible unless they surface as changed content."),
 "C13": ("model of table sizes over generated exchange histories in a synctest bubble (verif size accessors), 300 virtual seconds of idle housekeeping before the read-out",
         "6k (quick) / 150k (thorough) histories of up to 12 exchanges of every kind with abnormal endings (silence, cancellation, slow handler, faults); after the idle phase every per-exchange table of both connections must be empty or equal the number of live observations.",
         "DESIGN.md 3/C13", ""),
 "C04": ("fault-tape search in a synctest bubble between two library endpoints (datagram and stream/BERT), exhaustive SZX x boundary-size grid, position-dependent bodies as round-trip oracle",
         "Fault-free grid over every SZX pair x body sizes at block boundaries +-1 (datagram) and SZX/BERT x max-message-size pairs (stream), plus 10k (quick) / 300k (thorough) generated scenarios with per-direction fault tapes (drop, duplicate, re-order, replay), concurrent transfers, one-way writes and block-wise notifications; every body that reaches an application or a caller must equal a complete original, exactly once for a successful block-wise upload.",
         "DESIGN.md 3/C04", "Completion is only required on the fault-free grid with symmetric message-size limits."),
 "C16": ("exhaustive enumeration of event orders in a synctest bubble against slot invariants; rapid for longer histories",
         "Every order of {arrive, cancel, finish} events for 3 requests (4 in the thorough tier) x cancel subsets x path assignments x limit pairs is executed one event at a time with quiescence detection after each, and the limit, no-lost-slot, arrival-order and cancelled-waiter invariants are evaluated at every quiescent point; longer random histories (4-7 requests, 3 paths) on top.",
         "DESIGN.md 3/C16", "Events are applied one at a time; truly simultaneous admission/cancellation is left to the runtime's interleaving in the random engine."),
 "C14": ("systematic schedule enumeration under a cooperative scheduler (verif scheduling point) + stress histories, both checked against the sequential specification with porcupine; sequential model-based runs",
         "Every schedule (at critical-section granularity) of all 2-worker configurations over a 7-operation cache alphabet and of 1.5k (quick) / 40k (thorough) generated 2-3 worker configurations is executed and its history decided by a linearizability checker; 180k (quick) / 6M (thorough) stress trials with real goroutines under the race detector cover what cooperative scheduling cannot (splits inside an operation that has no scheduling point).",
         "DESIGN.md 3/C14", "The schedule enumeration is complete only relative to the scheduling points that exist; map iteration order is the runtime's."),
 "C18": ("model-based event-sequence search in a synctest bubble against the bare monitors and against datagram/stream connections with a scripted peer answering pings on the wire",
         "Generated {message, pong (current or superseded), tick} sequences with virtual gaps around the period (20k quick / 400k thorough), replayed on a reference model: exact iff-condition for the inactivity monitor, safety (no early close) and bounded liveness for keep-alive.",
         "DESIGN.md 3/C18", ""),
 "C08": ("exhaustive grid for the freshness predicate + model-based notification-stream search in a synctest bubble (datagram and stream transports)",
         "The RFC 7641 3.4 predicate is compared on a grid of sequence-number pairs around 0 / 2^23 / 2^24-1 x time differences around 128 s; the end-to-end half drives real client connections with generated registration answers, notification streams (virtual inter-arrival times up to 200 s) and Cancel at every position, with a per-observation model of the last delivered notification as oracle.",
         "DESIGN.md 3/C08", ""),
 "C07": ("metamorphic search over segmentations in a synctest bubble: same frame sequence, generated cuts, handler/signal log must not depend on the cuts; oversize headers without body",
         "Generated frame sequences x segmentations x connection cache sizes (12k quick / 300k thorough) against tcp.Client on an in-memory stream; quiescence detection makes 'closed as soon as the header is seen, without any body byte' a decidable statement.",
         "DESIGN.md 3/C07", ""),
 "C06": ("fault-tape x tick-schedule search in a synctest bubble with a scripted wire-level peer; history invariants over the timestamped wire log",
         "Generated loss patterns over transmissions and replies, peer reactions, caller deadlines/cancellations and housekeeping tick schedules around k x ACK_TIMEOUT (40k quick / 600k thorough) against a real client connection; the virtual clock makes 'k-th copy not before t0 + k x ACK_TIMEOUT' and 'no copy after the ACK was delivered' exact statements over the wire log.",
         "DESIGN.md 3/C06", ""),
 "C05": ("model-based history search in a synctest bubble: scripted wire-level peer, reference de-duplication table over handler log and wire log",
         "Generated duplication/re-ordering histories (20k quick / 400k thorough) against a real server-side connection on an in-memory datagram link with a virtual clock, so the 247 s lifetime boundary is hit exactly (first arrival + 247 s - eps, last reply + 247 s + eps); both the default processing loop and a goroutine per message; oracle is a reference de-duplication table evaluated over the complete history. Bounded search; goroutine interleavings are the runtime's.",
         "DESIGN.md 3/C05", ""),
 "C15": ("model-based testing against a reference sorted multiset; exhaustive short operation sequences + rapid sequences",
         "Every sequence of length <= 4 over {set, add, remove} x 3 ids x 2 values x 3 capacities is enumerated on both message.Options and pool.Message (complete for that sub-domain); beyond it 120k (quick) / 3M (thorough) generated sequences of up to 14 operations from the full editing API, with the whole list and every query compared with the model after each step.",
         "DESIGN.md 3/C15", ""),
 "C17": ("differential testing against a hand-written backtracking matcher over a pattern grammar; concurrent phase under the race detector",
         "Generated route sets and request paths (20k quick / 1M thorough) decided by an independent matcher for the documented template language; validity predicate rather than one expected answer where the specification allows several (ties, variable splits). The concurrent phase runs Handle/HandleRemove/DefaultHandle against dispatch under -race with stable routes as oracle.",
         "DESIGN.md 3/C17", "The Go race detector only reports races that actually occur in the executed schedule."),
 "C01": ("rapid-generated messages; round-trip + byte-exact differential against an independent canonical encoder; canary buffers",
         "Generated-input search (20k messages per coder quick, 1.6M thorough) over the whole precondition domain with generators built to hit every delta/length/Len extension class and boundary; four oracles per message (size in advance, byte-exact differential, decode round-trip, ErrTooSmall without touching memory behind the buffer), the pooled API on fresh and recycled messages, and a negative engine for the three refusals the statement names. A bounded random search, not a proof.",
         "DESIGN.md 3/C01", "One open known finding: types 4-255 are encoded (pinned test requires it)."),
 "C02": ("differential fuzzing of the decoders against an independent RFC parser: exhaustive short strings, rapid mutations, truncation at every offset, fault-injecting grammar, native coverage-guided fuzzing (thorough)",
         "Every input is decided by comparison with a reference parser written from RFC 7252 s.3 / RFC 8323 s.3 (accept / reject / short read, all fields, bytes consumed, 64-bit declared length), followed by re-encode/re-decode idempotence and canonical-bytes checks and an aliasing check through four pooled-message modes. The short-string sub-domain is enumerated completely; everything else is bounded search.",
         "DESIGN.md 3/C02", ""),
 "C20": ("exhaustive table against the RFC 7967 class rule + generated end-to-end requests with a wire oracle",
         "The (value, code) table is enumerated completely for values 0-63 and a grid of larger values x all 256 codes through IsNoResponseCode and ResponseWriter.SetResponse; the end-to-end half is a bounded generated search on the in-memory network.",
         "DESIGN.md 3/C20", ""),
 "C19": ("exhaustive enumeration against an RFC 7959 specification function",
         "Complete enumeration of the finite domain: all 2^24 option values (all 2^32 decoder inputs in the thorough tier), all 8x2^20x2 encoder triples plus a grid of out-of-domain arguments, SZX.Size for 0-255, and the first BERT block for maximum message sizes 1152-70000 through the public block-wise API. For the codec functions this is a decision, not a sample.",
         "DESIGN.md 3/C19", "BERT sizing is observed on the first block only."),
}

def hooks_commits():
    try:
        out = subprocess.run(["git", "-C", "/repo", "log", "--format=%h %s"], stdout=subprocess.PIPE, text=True).stdout
        return [l.split()[0] for l in out.splitlines() if " verif hook" in l or l.split(" ", 1)[1].startswith("verif:")]
    except Exception:
        return []

# engines and dimensions added after the table above was written (appended to the level text)
ADDENDA = {
 "C04": " Requests may carry No-Response; reassembled notifications must keep the Observe option and the ETag of the version they deliver (also against a server that tags its notifications only).",
 "C05": " Requests may carry No-Response (the reply withheld or not).",
 "C06": " The client may have block-wise transfer on and the response may come in several blocks; no copy of the original after the complete response was delivered.",
 "C08": " Engine blockwise: observations with notification bodies of several blocks between two library endpoints (overlapping transfers, changing representations, fault tapes): every delivery carries a sequence number and the numbers strictly increase.",
 "C02": " Pooled mode prepared: token, code, type and message ID set before the datagram is decoded into the message.",
 "C09": " One-way writes also with bodies of several blocks; a peer that answers with Empty messages.",
 "C15": " The pool engine also hands a message its own options back (ResetOptionsTo(m.Options()), Clone onto itself).",
 "C16": " A quarter of the generated scenarios address the root resource (no Uri-Path option).",
 "C18": " Empty messages (stream) and resets that answer nothing (datagram) count as messages received.",
 "C10": " Handlers of the loopback server may call back to the requesting peer (confirmable or non-confirmable) before they answer; a raw peer may reject that request with a Reset and go on talking (one conversation, one connection).",
 "C11": " Nested requests may be non-confirmable; injected messages may be resets that answer nothing pending.",
 "C12": " Requests may carry No-Response; the server application may tag its notifications only, not the blocks fetched afterwards.",
 "C13": " Requests may carry No-Response; the server application may tag its notifications only, not the blocks fetched afterwards.",
 "C14": " Engine expiring: elements whose deadline falls into store-if-absent calls that wait for the table's lock (real goroutines, timing-independent oracle).",
 "C17": " A third of the scenarios put a history (requests, re-registrations, removals, added middlewares) between set-up and the examined request.",
 "C20": " Engine blockwise: No-Response together with block-wise request and response bodies between two library endpoints; the end-to-end requests also carry options of other features (Observe, Accept, Uri-Query, Block2, Size1).",
}
for k, add in ADDENDA.items():
    t = CLAIMED[k]
    CLAIMED[k] = (t[0], t[1] + add, t[2], t[3])

checks, na = [], []
for p in props:
    pid = p["id"]
    if pid in CLAIMED and os.path.isdir(os.path.join(ROOT, "harness", pid.lower())):
        tech, text, ref, note = CLAIMED[pid]
        checks.append({
            "property_id": pid,
            "quick_cmd": "./check %s quick" % pid,
            "thorough_cmd": "./check %s thorough" % pid,
            "evidence_file": "/verif/evidence/%s.json" % pid,
            "replay_cmd_template": "./check %s --replay {path}" % pid,
            "engine": "harness/" + pid.lower(),
            "level_claimed": {"category": "exploration", "text": text, "design_ref": ref},
            "level_note": BASE_NOTE + (" " + note if note else ""),
            "technique": tech,
        })
    else:
        na.append({"property_id": pid, "reason": "no check is claimed for this property"})

m = {
 "version": 1,
 "setup_cmd": "./check --setup",
 "hooks": {
  "guard": "verif",
  "enable": "go test -tags verif (the harness module replaces github.com/plgd-dev/go-coap/v3 with /repo, so every check recompiles the current working tree)",
  "baseline_off_cmd": "cd /repo && go test -mod=mod -vet=off -count=1 -timeout 25m ./...",
  "source_commits": hooks_commits(),
  "add_only": True,
 },
 "engines": [{"name": "harness", "path": "/verif/harness", "serves_properties": [c["property_id"] for c in checks],
              "kind_free_text": "Go test packages (one per property) driven by /verif/check: rapid generators, exhaustive enumerations, synctest bubbles on an in-memory network, native fuzzing in the thorough tier"}],
 "checks": checks,
 "not_applicable": na,
 "notes": "Exit 0 held / 1 VIOLATION line / 2 inconclusive. VERIF_SEED selects the PRNG value of every generator. known_findings.json is read-only at run time.",
}
json.dump(m, open(os.path.join(ROOT, "MANIFEST.json"), "w"), indent=1)
print("claimed:", [c["property_id"] for c in checks], "unclaimed:", len(na))
